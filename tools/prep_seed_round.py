#!/usr/bin/env python3
"""tools/prep_seed_round.py <round> [ID ...] — prepares an independent seeding round.
Creates /tmp/seedtools (brief, baseline runner, reference integrator — tools only, nothing of the checks), and
per property a scratch git worktree of /repo (/tmp/seed<round>_<ID>) and an output directory
(/tmp/seed<round>_<ID>_out) holding property.txt (the property's text) and already_tried.txt (one paragraph
per change already filed under seeded/, so that a new round differs). Prints the prompt for each sub-agent."""
import json, os, shutil, subprocess, sys, glob
here = os.path.dirname(os.path.dirname(os.path.abspath(__file__)))
rnd = sys.argv[1]
ids = sys.argv[2:]
props = [json.loads(l) for l in open(os.path.join(here, 'properties.jsonl')) if l.strip()]
if not ids:
    ids = [p['id'] for p in props]
st = '/tmp/seedtools'
os.makedirs(st, exist_ok=True)
for n in ('BRIEF.md', 'ROUND%s.md' % rnd, 'refsim.py'):
    src = os.path.join(here, 'seeded', '_tools', n)
    if os.path.exists(src):
        shutil.copy(src, os.path.join(st, n))
shutil.copy(os.path.join(here, 'harness', 'refsim.py'), os.path.join(st, 'refsim.py'))
shutil.copy(os.path.join(here, 'tools', 'baseline.py'), os.path.join(st, 'baseline.py'))
os.chmod(os.path.join(st, 'baseline.py'), 0o755)
for p in props:
    if p['id'] not in ids:
        continue
    wt = '/tmp/seed%s_%s' % (rnd, p['id'])
    out = wt + '_out'
    if not os.path.exists(wt):
        subprocess.run(['git', '-C', '/repo', 'worktree', 'add', '--detach', '-f', wt, 'HEAD'], check=True,
                       capture_output=True)
    os.makedirs(out, exist_ok=True)
    with open(os.path.join(out, 'property.txt'), 'w') as f:
        f.write('%s — %s\n\nStatement: %s\n\nQuantified over: %s\n\nWhy the existing tests cannot settle it: %s\n\n'
                'Anchors (where the relevant code is):\n%s\n'
                % (p['id'], p['title'], p['statement'], p['quantifier']['text'], p['why_tests_cant'],
                   json.dumps(p['anchors'], indent=1)))
    with open(os.path.join(out, 'already_tried.txt'), 'w') as f:
        for d in sorted(glob.glob(os.path.join(here, 'seeded', p['id'] + '-*')),
                        key=lambda s: int(s.rsplit('-', 1)[1])):
            try:
                m = json.load(open(os.path.join(d, 'meta.json')))
            except Exception:
                continue
            f.write('* files %s: %s  NEEDS: %s\n\n' % (m.get('files_changed'), str(m.get('what_breaks'))[:700],
                                                     str(m.get('needs_to_manifest'))[:400]))
    print(p['id'], wt, out)
