#!/venv/bin/python
"""tools/tie_selftest.py [name-fragment ...] — self-test of the source-derived tie (harness/srctie.py for C04,
harness/srctie_pop.py for C05), never a registered command.

Runs every selftest/C04_tie_*.diff against `./check C04` and every selftest/C05_tie_*.diff against `./check C05` through
tools/mutant_check.sh (a throw-away patched copy of chi, CHI_SRC) and checks
* `*_tie_rewrite_*`: no VIOLATION, and every kernel's tie is `proved (generated definition unchanged)` or
  `re-proved for the rewritten source` (exception: `*untraceable*` — the named construct must be REPORTED as
  untraceable in the evidence and still no VIOLATION);
* `*_tie_mutant_*`: a VIOLATION with a concrete failing input (a replay file, not `no-failing-input-found`), and the
  special-cased region is named under `source_tie_info.unexpected_guards`.
Finally the clean checks are run again (evidence/C04.json, evidence/C05.json are the clean tree's; runs on patched
copies write to .work/)."""
import collections
import json
import os
import re
import subprocess
import sys
import time

here = os.path.dirname(os.path.dirname(os.path.abspath(__file__)))
N_KERNELS = {'C04': 21, 'C05': 40}
names = sorted(n for n in os.listdir(os.path.join(here, 'selftest')) if re.match(r'C0[45]_tie_.*\.diff$', n))
if sys.argv[1:]:
    names = [n for n in names if any(a in n for a in sys.argv[1:])]
bad = 0
ids = sorted(set(n[:3] for n in names))
for n in names:
    pid = n[:3]
    t0 = time.time()
    env = dict(os.environ, SKIP_BASELINE='1', TAILN='40')
    out = subprocess.run([os.path.join(here, 'tools', 'mutant_check.sh'), os.path.join(here, 'selftest', n), pid],
                         capture_output=True, text=True, env=env).stdout
    viol = [ln for ln in out.splitlines() if ln.startswith('VIOLATION')]
    concrete = [ln for ln in viol if 'no-failing-input-found' not in ln]
    cov = json.load(open(os.path.join(here, '.work', pid + '.json')))['coverage']   # runs on patched copies write to .work/
    tie = cov.get('source_tie', {})
    info = cov.get('source_tie_info', {})
    kinds = collections.Counter('proved unchanged' if v.startswith('proved') else 're-proved' if v.startswith('re-proved')
                                else 'not established' for v in tie.values())
    if 'rewrite' in n:
        ok = not viol and len(tie) == N_KERNELS[pid]
        if 'untraceable' in n:
            ok = ok and any('untraceable' in v for v in tie.values())
        else:
            ok = ok and kinds['not established'] == 0
    else:
        ok = bool(concrete) and bool(info.get('unexpected_guards'))
    bad += not ok
    print('%-4s %-52s %2d VIOLATION (%d concrete)  tie: %s  guards: %s  reprove %.0fs  total %.0fs'
          % ('ok' if ok else 'FAIL', n[:-5], len(viol), len(concrete), dict(kinds),
             [g['guard'] for g in info.get('unexpected_guards', [])], info.get('reprove_wall_s') or 0, time.time() - t0))
    if not ok:
        print(out[-1500:])
        print({k: v[:160] for k, v in tie.items() if v.startswith('not')})
rc = 0
for pid in ids:
    r = subprocess.run([os.path.join(here, 'check'), pid], capture_output=True, text=True)
    print('clean tree: %s exit %d  %s' % (pid, r.returncode, r.stdout.strip().splitlines()[-1][:200]))
    rc = rc or r.returncode
sys.exit(1 if bad or rc else 0)
