#!/bin/bash
# tools/mutant_check.sh <patch.diff> <ID> [more IDs...]   — self-test only (never a registered command)
# applies the patch to a throw-away copy of /repo, runs the pinned suite and the quick checks against the copy
set -u
patch=$(realpath "$1"); shift
root=$(cd "$(dirname "$0")/.." && pwd)
d=$(mktemp -d /tmp/chi_mut.XXXXXX)
trap 'rm -rf "$d"' EXIT
cp -r /repo/chi /repo/setup.py "$d"/ 2>/dev/null
( cd "$d" && git init -q . && git add -A >/dev/null && git -c user.email=a@b -c user.name=x commit -qm base >/dev/null && git apply --whitespace=nowarn "$patch" ) || { echo "patch does not apply"; exit 3; }
if [ "${SKIP_BASELINE:-0}" != 1 ]; then "$root"/tools/baseline.py "$d" | head -5; fi
for id in "$@"; do
  echo "== $id on mutant"
  CHI_SRC="$d" "$root"/check "$id" ${NOAUDIT:+--no-audit} 2>&1 | grep -a -v "^\s*\[\|consider\|omit\|Note\|^$\|conda" | tail -${TAILN:-6}
done
