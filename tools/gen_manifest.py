#!/usr/bin/env python3
"""writes MANIFEST.json from tools/claims.json (one entry per claimed / not-applicable property)"""
import json, os
here = os.path.dirname(os.path.dirname(os.path.abspath(__file__)))
claims = json.load(open(os.path.join(here, 'tools', 'claims.json')))
props = [json.loads(l)['id'] for l in open(os.path.join(here, 'properties.jsonl'))]
checks, na = [], []
for pid in props:
    c = claims.get(pid)
    if c is None or 'not_applicable' in c:
        na.append({'property_id': pid, 'reason': (c or {}).get(
            'not_applicable', 'check not built yet (work in progress); the design in DESIGN.md section 7 applies')})
        continue
    checks.append({
        'property_id': pid,
        'quick_cmd': './check %s --tier quick' % pid,
        'thorough_cmd': './check %s --tier thorough' % pid,
        'evidence_file': '/verif/evidence/%s.json' % pid,
        'replay_cmd_template': './check %s --replay {path}' % pid,
        'engine': 'lean4-proof+correspondence',
        'level_claimed': {'category': 'proof', 'text': c['text'], 'design_ref': 'DESIGN.md section 7, ' + pid},
        'level_note': c['note'],
        'technique': c['technique'],
    })
m = {
    'version': 1,
    'setup_cmd': 'cd lean && lake build',
    'hooks': {
        'guard': 'CHI_VERIF',
        'enable': 'no source hooks: the harness imports chi from /repo and (for C09-C11, C14, C19) replaces the '
                  'module attribute myokit.Simulation by harness/refsim.py before chi builds a model',
        'baseline_off_cmd': 'cd /repo && /venv/bin/python -m pytest -ra -q -p no:cacheprovider --timeout=900 '
                            '--continue-on-collection-errors',
        'source_commits': [],
        'add_only': True,
    },
    'engines': [{
        'name': 'lean4-proof+correspondence', 'path': '/verif/lean + /verif/harness',
        'serves_properties': [c['property_id'] for c in checks],
        'kind_free_text': 'Lean 4 theorems about a hand-written model (lean/ChiModel, lean/ChiProofs/Props); the model '
                          'is tied to /repo on every run by a differential correspondence check that drives the '
                          "model's executable definitions (lean/Driver.lean) and the real chi code on the same inputs",
    }],
    'checks': checks,
    'not_applicable': na,
    'notes': 'fix: commits in /repo and recorded defects are listed in known_findings.json; see DESIGN.md.',
}
json.dump(m, open(os.path.join(here, 'MANIFEST.json'), 'w'), indent=1)
print('claimed', [c['property_id'] for c in checks], 'not claimed', [n['property_id'] for n in na])
