#!/usr/bin/env python3
"""rewrites the generated appendices of DESIGN.md (between the GENERATED markers) from known_findings.json,
seeded/*/meta.json, selftest/*.diff and tools/claims.json"""
import json, os, re, subprocess
here = os.path.dirname(os.path.dirname(os.path.abspath(__file__)))
kf = json.load(open(os.path.join(here, 'known_findings.json')))['findings']
out = []
claims = json.load(open(os.path.join(here, 'tools', 'claims.json')))
out.append('### E.0 Per-property status as built\n')
out.append('| ID | Lean files (model; proofs) | theorems audited | last evidence: cases / comparisons / property checks | claim (abridged) |\n|---|---|---|---|---|')
for pid in sorted(claims):
    prop = os.path.join(here, 'lean', 'ChiProofs', 'Props', pid + '.lean')
    src = open(prop).read() if os.path.exists(prop) else ''
    imports = re.findall(r'^import (ChiModel\.\S+|ChiProofs\.Lemmas\.\S+)', src, flags=re.M)
    nthm = len(re.findall(r'^theorem ', src, flags=re.M))
    tie = os.path.join(here, 'lean', 'ChiProofs', 'Tie', pid + '.lean')
    if os.path.exists(tie):      # the source-tie theorems are audited with the property's own
        nthm += len(re.findall(r'^theorem ', open(tie).read(), flags=re.M))
        imports = imports + ['ChiProofs.Lemmas.Tie/' + pid + ' (generated: ChiGen)']
    ev = {}
    evp = os.path.join(here, 'evidence', pid + '.json')
    if os.path.exists(evp):
        ev = json.load(open(evp))['coverage']
    c = ev.get('correspondence', {})
    out.append('| %s | %s | %d | %s / %s / %s | %s |' % (
        pid, ', '.join(i.replace('ChiModel.', '').replace('ChiProofs.Lemmas.', 'L:') for i in imports) or '(core only)', nthm,
        ev.get('evaluations', '?'), c.get('comparisons', '?'), c.get('property_checks_on_chi', '?'),
        claims[pid]['text'][:330].replace('|', '/') + '…'))
out.append('')
out.append('### E.1 Repairs made to DavAug/chi (`fix:` commits in /repo, oldest first)\n')
log = subprocess.run(['git', '-C', '/repo', 'log', '--reverse', '--format=%h %s'], capture_output=True, text=True).stdout.splitlines()
by_commit = {}
for f in kf:
    if f.get('status') == 'fixed':
        by_commit.setdefault(f.get('commit', '?'), []).append(f)
out.append('| commit | subject | findings closed (property: id) |\n|---|---|---|')
for l in log:
    h, subj = l.split(' ', 1)
    if not subj.startswith('fix:'):
        continue
    fs = by_commit.get(h, [])
    out.append('| %s | %s | %s |' % (h, subj[5:].replace('|', '/'), '; '.join('%s: %s' % (f['property'], f['id']) for f in fs) or '—'))
out.append('\nEvery commit kept the pinned suite at ≥ 346/346 stable passes (`tools/baseline.py`, run before each commit); '
           'the reverse of each is a regression mutant `selftest/revert_<commit>_*.diff` (or `selftest/C*_revert_*.diff`).\n')
out.append('### E.2 Known findings kept (genuine defects recorded, not repaired)\n')
out.append('| property | id | tag the check reports | what fails | why not repaired |\n|---|---|---|---|---|')
for f in kf:
    if f.get('status') == 'known':
        out.append('| %s | %s | `%s` | %s | %s |' % (f['property'], f['id'], f['tag'], f['what'].replace('|', '/')[:400],
                                                    str(f.get('why_not_fixed', f.get('patch_proposal', '')))[:300].replace('|', '/')))
out.append('\n### E.3 Independently seeded changes (`seeded/<ID>-k/`) and what catches them\n')
out.append('Produced by fresh sub-agents that saw only the property text and a scratch worktree (for C09–C11, C14 also '
           'the reference integrator as a tool). Each was confirmed by `tools/seed_eval.py`: patch applies, demo exits 0 on '
           'the clean tree and non-zero on the patched tree, pinned suite unchanged on the patched tree; then the quick '
           'check was run on the patched copy (`CHI_SRC`).\n')
out.append('The column "at the last sweep" is the outcome of `tools/sweep_mutants.py` on the final harness and the '
           'current /repo (`selftest/sweep_results.json`): flagged with n VIOLATION lines, or superseded (a later `fix:` '
           'commit made the change harmless: its demonstration no longer fails), or no longer applying.\n')
out.append('| seed | what it breaks / needs | quick check result when filed | history | at the last sweep |\n|---|---|---|---|---|')
sweep = {}
sp = os.path.join(here, 'selftest', 'sweep_results.json')
if os.path.exists(sp):
    sweep = json.load(open(sp)).get('results', {})


def sweep_cell(key):
    r = sweep.get(key)
    if not r:
        return ''
    if not r.get('applies'):
        return 'no longer applies'
    if r.get('expected') == 'superseded':
        return 'superseded'
    if r.get('expected') == 'green':
        return 'green (as expected)' if not r.get('flagged') else 'FLAGGED (unexpected)'
    return ('flagged (%d)' % r.get('violations', 0)) if r.get('flagged') else 'NOT FLAGGED'


sd = os.path.join(here, 'seeded')
for d in sorted(os.listdir(sd)):
    mp = os.path.join(sd, d, 'meta.json')
    if not os.path.exists(mp):
        continue
    m = json.load(open(mp))
    chk = m.get('confirmed_by_coordinator', {}).get('check_result', {})
    res = '; '.join('%s: %s' % (k, 'VIOLATION' if v.get('exit') == 1 else 'exit %s' % v.get('exit')) for k, v in chk.items())
    wb = str(m.get('what_breaks', ''))[:260].replace('|', '/').replace('\n', ' ')
    nd = str(m.get('needs_to_manifest', ''))[:200].replace('|', '/').replace('\n', ' ')
    out.append('| %s | %s — needs: %s | %s | %s | %s |' % (d, wb, nd, res, str(m.get('history', ''))[:420].replace('|', '/'),
                                                         sweep_cell('seeded/%s/patch.diff' % d)))
out.append('\n### E.4 Self-test mutants and rewrites kept under `selftest/`\n')
names = sorted(n for n in os.listdir(os.path.join(here, 'selftest')) if n.endswith('.diff'))
bypid = {}
for n in names:
    m = re.match(r'(?:revert_[0-9a-f]+_)?(C\d\d)', n)
    bypid.setdefault(m.group(1) if m else 'other', []).append(n[:-5])
for pid in sorted(bypid):
    out.append('* **%s**: %s' % (pid, ', '.join('`%s`%s' % (x, (' — ' + sweep_cell('selftest/%s.diff' % x)) if sweep_cell('selftest/%s.diff' % x) else '')
                                               for x in bypid[pid])))
out.append('\nMutants (every one keeps the pinned suite green and is flagged by its property\'s quick check with a concrete '
           'failing input) and behaviour-preserving rewrites (`*rewrite*`, `*harmless*`, `REWRITE_*`: must stay green). '
           'Run one with `tools/mutant_check.sh selftest/<name>.diff <ID>`.\n')
out.append('\n### E.5 Per-property claim and what is assumed (verbatim from MANIFEST.json)\n')
for pid in sorted(claims):
    out.append('**%s.** %s\n\n*Assumed / trusted:* %s\n' % (pid, claims[pid]['text'], claims[pid]['note']))
text = '\n'.join(out)
p = os.path.join(here, 'DESIGN.md')
s = open(p).read()
a, b = '<!-- GENERATED:BEGIN -->', '<!-- GENERATED:END -->'
if a not in s:
    s += '\n\n---------------------------------------------------------------------------------------\n\n## Appendix E — generated tables (tools/gen_design_tables.py)\n\n' + a + '\n' + b + '\n'
i, j = s.index(a), s.index(b)
s = s[:i + len(a)] + '\n' + text + '\n' + s[j:]
open(p, 'w').write(s)
print('DESIGN.md appendix E regenerated:', len(text.splitlines()), 'lines')
