import sys; import os; sys.path.insert(0, os.path.join(os.path.dirname(os.path.dirname(os.path.abspath(__file__))), 'harness'))
import core, importlib, collections
core.import_chi()
mod=importlib.import_module('props.'+sys.argv[1])
ctx=core.Ctx(sys.argv[1].upper(),'quick',int(sys.argv[2]) if len(sys.argv)>2 else 0)
mod.run(ctx)
print('cases',ctx.cases,'corr',ctx.corr_total,'bad',len(ctx.corr_bad),'spec',ctx.spec_total,'bad',len(ctx.spec_bad))
print(collections.Counter(b['tag'] for b in ctx.spec_bad))
print(collections.Counter(b['correspondence'] for b in ctx.corr_bad))
print(len(ctx.classes), "classes")
if len(sys.argv)>3:
    for b in ctx.spec_bad[:int(sys.argv[3])]: print(b)
    for b in ctx.corr_bad[:int(sys.argv[3])]: print(b)
