#!/usr/bin/env python3
"""tools/apply_fix.py <patch.diff> <message-file> <finding-id> [...]  — coordinator use only.
Applies a reviewed repair to /repo as ONE unguarded `fix:` commit (after the pinned suite passed on the
patched tree), marks the listed known findings as fixed, and files the reverse patch as a regression
mutant under selftest/."""
import json, os, subprocess, sys
here = os.path.dirname(os.path.dirname(os.path.abspath(__file__)))
patch, msgf, ids = sys.argv[1], sys.argv[2], sys.argv[3:]
def sh(cmd, **kw):
    return subprocess.run(cmd, shell=True, capture_output=True, text=True, **kw)
assert sh('git status --porcelain', cwd='/repo').stdout.strip() == '', '/repo not clean'
r = sh('git apply --whitespace=nowarn %s' % os.path.abspath(patch), cwd='/repo')
if r.returncode:
    r = sh('patch -p1 --no-backup-if-mismatch < %s' % os.path.abspath(patch), cwd='/repo')
    if r.returncode:
        sh('git checkout -- .', cwd='/repo'); sys.exit('patch does not apply: ' + r.stdout + r.stderr)
b = sh('%s/tools/baseline.py' % here)
print(b.stdout.strip().splitlines()[0])
if b.returncode:
    sh('git checkout -- .', cwd='/repo'); sys.exit('suite broken; reverted')
msg = open(msgf).read()
assert msg.startswith('fix:')
subprocess.run(['git', 'commit', '-qam', msg], cwd='/repo', check=True)
h = sh('git rev-parse --short HEAD', cwd='/repo').stdout.strip()
name = ids[0] if ids else h
open(os.path.join(here, 'selftest', 'revert_%s_%s.diff' % (h, name)), 'w').write(sh('git diff HEAD HEAD^', cwd='/repo').stdout)
kp = os.path.join(here, 'known_findings.json')
k = json.load(open(kp))
for f in k['findings']:
    if f['id'] in ids:
        f['status'] = 'fixed'; f['commit'] = h
        if not f['what'].startswith('fixed:'):
            f['what'] = 'fixed: property=%s %s %s' % (f['property'], h, f['what'])
        f.pop('why_not_fixed', None)
json.dump(k, open(kp, 'w'), indent=1)
print('committed', h, 'findings marked fixed:', [f['id'] for f in k['findings'] if f.get('commit') == h])
