#!/venv/bin/python
"""runs the repository's pinned suite (serially) and compares with /root/.vp/BASELINE.json"""
import json, subprocess, sys, xml.etree.ElementTree as ET, tempfile, os
repo = sys.argv[1] if len(sys.argv) > 1 else '/repo'
base = json.load(open('/root/.vp/BASELINE.json'))
with tempfile.TemporaryDirectory() as d:
    x = os.path.join(d, 'j.xml')
    subprocess.run(['/venv/bin/python', '-m', 'pytest', '-q', '-p', 'no:cacheprovider', '--timeout=900',
                    '--continue-on-collection-errors', '--junitxml=' + x], cwd=repo,
                   capture_output=True, text=True, env={**os.environ, 'PYTHONPATH': repo})
    passed = set()
    for tc in ET.parse(x).getroot().iter('testcase'):
        if not list(tc):
            passed.add(tc.get('classname') + '::' + tc.get('name'))
missing = sorted(set(base['stable_pass']) - passed)
print('baseline stable:', len(base['stable_pass']), 'passed now:', len(passed), 'stable tests no longer passing:', len(missing))
for m in missing[:20]:
    print('  ', m)
sys.exit(1 if missing else 0)
