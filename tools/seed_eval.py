#!/usr/bin/env python3
"""tools/seed_eval.py <ID> <seed-output-dir> [k ...]
Confirms an independently produced change (patch<k>.diff + demo<k>.py): applies to a scratch copy of
/repo, pinned suite still passes, demo passes clean / fails patched; then runs ./check <ID> (quick) on
the patched copy and files everything under seeded/<ID>-<k>/."""
import json, os, shutil, subprocess, sys, tempfile
here = os.path.dirname(os.path.dirname(os.path.abspath(__file__)))
pid, out = sys.argv[1], sys.argv[2]
ks = sys.argv[3:] or [k for k in ('1', '2', '3') if os.path.exists(os.path.join(out, 'patch%s.diff' % k))]
extra = os.environ.get('ALSO', '').split()


def sh(cmd, **kw):
    return subprocess.run(cmd, shell=True, capture_output=True, text=True, **kw)


for k in ks:
    patch = os.path.join(out, 'patch%s.diff' % k)
    demo = os.path.join(out, 'demo%s.py' % k)
    d = tempfile.mkdtemp(prefix='chi_seed.')
    try:
        sh('cp -r /repo/chi /repo/setup.py %s/' % d)
        sh('git init -q . && git add -A && git -c user.email=a@b -c user.name=x commit -qm base', cwd=d)
        r = sh('git apply --whitespace=nowarn %s' % patch, cwd=d)
        res = {'id': pid, 'k': k, 'applies': r.returncode == 0}
        if r.returncode != 0:
            print(pid, k, 'patch does not apply', r.stderr[:200])
            continue
        env = dict(os.environ, PYTHONPATH='/repo')
        c = subprocess.run(['/venv/bin/python', demo], capture_output=True, text=True, env=env, cwd=out)
        env2 = dict(os.environ, PYTHONPATH=d)
        m = subprocess.run(['/venv/bin/python', demo], capture_output=True, text=True, env=env2, cwd=out)
        res['demo_clean_exit'] = c.returncode
        res['demo_patched_exit'] = m.returncode
        res['demo_patched_output'] = (m.stdout + m.stderr)[-400:]
        b = sh('%s/tools/baseline.py %s' % (here, d))
        res['baseline'] = b.stdout.strip().splitlines()[0] if b.stdout.strip() else b.stderr[-200:]
        res['suite_still_passes'] = b.returncode == 0
        res['checks'] = {}
        for cid in [pid] + extra:
            ch = subprocess.run([os.path.join(here, 'check'), cid, '--no-audit'], capture_output=True, text=True,
                                env=dict(os.environ, CHI_SRC=d))
            lines = [l for l in ch.stdout.splitlines() if l.startswith('VIOLATION') or ' quick:' in l]
            res['checks'][cid] = {'exit': ch.returncode, 'lines': lines[:4]}
        valid = res['demo_clean_exit'] == 0 and res['demo_patched_exit'] != 0 and res['suite_still_passes']
        res['valid_seed'] = valid
        res['detected'] = res['checks'][pid]['exit'] == 1
        print(json.dumps(res, indent=1)[:1800])
        if valid:
            dest = os.path.join(here, 'seeded', '%s-%s' % (pid, int(k) + int(os.environ.get('KOFF', '0'))))
            os.makedirs(dest, exist_ok=True)
            shutil.copy(patch, os.path.join(dest, 'patch.diff'))
            # demos are kept self-contained: the reference integrator is looked up in seeded/_tools
            dsrc = open(demo).read().replace(
                "sys.path.insert(0, '/tmp/seedtools')",
                "sys.path.insert(0, __import__('os').path.join(__import__('os').path.dirname(__import__('os')"
                ".path.abspath(__file__)), '..', '_tools'))")
            open(os.path.join(dest, 'demo.py'), 'w').write(dsrc)
            meta = {}
            mp = os.path.join(out, 'meta%s.json' % k)
            if os.path.exists(mp):
                try:
                    meta = json.load(open(mp))
                except Exception:
                    meta = {'raw': open(mp).read()[:2000]}
            meta['property'] = pid
            meta['confirmed_by_coordinator'] = {
                'demo_exit_on_clean_tree': res['demo_clean_exit'], 'demo_exit_on_patched_tree': res['demo_patched_exit'],
                'pinned_suite_on_patched_tree': res['baseline'],
                'commands': ['PYTHONPATH=<tree> /venv/bin/python demo.py', 'tools/baseline.py <patched copy>',
                             'CHI_SRC=<patched copy> ./check %s --no-audit' % pid],
                'check_result': res['checks']}
            json.dump(meta, open(os.path.join(dest, 'meta.json'), 'w'), indent=1)
    finally:
        shutil.rmtree(d, ignore_errors=True)
