#!/bin/bash
# tools/merge_builder.sh <ID> — brings a builder's work (private copy /root/ws/<ID>/verif) into /verif:
# tracked changes as a 3-way patch, new files copied; evidence / sweep results / replays are left out.
set -u
id=$1; ws=/root/ws/$id/verif; here=$(cd "$(dirname "$0")/.." && pwd)
cd "$ws"
git add -A -N . >/dev/null 2>&1 || true
git diff HEAD --binary -- . ':!evidence' ':!selftest/sweep_results.json' ':!replays' ':!.work' > /tmp/ws_$id.diff
cd "$here"
git apply --3way --whitespace=nowarn /tmp/ws_$id.diff && echo "merged $id: $(grep -c '^diff --git' /tmp/ws_$id.diff) files"
grep '^diff --git' /tmp/ws_$id.diff | sed 's/diff --git a\///; s/ b\/.*//'
