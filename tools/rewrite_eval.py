#!/usr/bin/env python3
"""tools/rewrite_eval.py <ID> <out-dir> [k ...] — confirms an independently produced HARMLESS rewrite
(patch<k>.diff + meta<k>.json): applies to a scratch copy of /repo, pinned suite still passes; then runs ./check <ID>
(quick, no audit) on the rewritten copy — it must stay green — and files it as selftest/<ID>_rewrite_r<round>_<k>.diff.
ALSO=<IDs> runs further checks against the same copy."""
import json, os, shutil, subprocess, sys, tempfile
here = os.path.dirname(os.path.dirname(os.path.abspath(__file__)))
pid, out = sys.argv[1], sys.argv[2]
ks = sys.argv[3:] or [k for k in ('1', '2', '3') if os.path.exists(os.path.join(out, 'patch%s.diff' % k))]
rnd = os.environ.get('ROUND', '1')
extra = os.environ.get('ALSO', '').split()


def sh(cmd, **kw):
    return subprocess.run(cmd, shell=True, capture_output=True, text=True, **kw)


for k in ks:
    patch = os.path.join(out, 'patch%s.diff' % k)
    d = tempfile.mkdtemp(prefix='chi_rw.')
    try:
        sh('cp -r /repo/chi /repo/setup.py %s/' % d)
        sh('git init -q . && git add -A && git -c user.email=a@b -c user.name=x commit -qm base', cwd=d)
        r = sh('git apply --whitespace=nowarn %s' % patch, cwd=d)
        if r.returncode != 0:
            print(pid, k, 'patch does not apply', r.stderr[:200])
            continue
        b = sh('%s/tools/baseline.py %s' % (here, d))
        res = {'id': pid, 'k': k, 'baseline': b.stdout.strip().splitlines()[0] if b.stdout.strip() else b.stderr[-200:],
               'suite_still_passes': b.returncode == 0, 'checks': {}}
        for cid in [pid] + extra:
            ch = subprocess.run([os.path.join(here, 'check'), cid, '--no-audit'], capture_output=True, text=True,
                                env=dict(os.environ, CHI_SRC=d))
            lines = [l[:300] for l in ch.stdout.splitlines() if l.startswith('VIOLATION') or ' quick:' in l]
            res['checks'][cid] = {'exit': ch.returncode, 'lines': lines[:4]}
        res['green'] = all(c['exit'] == 0 for c in res['checks'].values())
        print(json.dumps(res, indent=1)[:1500])
        if res['suite_still_passes']:
            dest = os.path.join(here, 'selftest', '%s_rewrite_r%s_%s.diff' % (pid, rnd, k))
            shutil.copy(patch, dest)
            mp = os.path.join(out, 'meta%s.json' % k)
            meta = {}
            if os.path.exists(mp):
                try:
                    meta = json.load(open(mp))
                except Exception:
                    meta = {'raw': open(mp).read()[:1500]}
            meta['result_when_filed'] = res
            json.dump(meta, open(dest.replace('.diff', '.meta.json'), 'w'), indent=1)
    finally:
        shutil.rmtree(d, ignore_errors=True)
