#!/usr/bin/env python3
"""tools/sweep_mutants.py [-j N] [pattern…]  — self-validation, never a registered command.
Runs every patch under selftest/ and seeded/ against the quick check of the property it belongs to (on a
throw-away copy of chi) and records, per patch, whether the check flagged it and with what; harmless rewrites
(`rewrite` / `harmless` / `REWRITE` in the name) are expected to stay green, everything else to be flagged.
Writes selftest/sweep_results.json (read by tools/gen_design_tables.py)."""
import concurrent.futures as cf, json, os, re, subprocess, sys, time
here = os.path.dirname(os.path.dirname(os.path.abspath(__file__)))
args = sys.argv[1:]
jobs = 4
if args[:1] == ['-j']:
    jobs = int(args[1]); args = args[2:]
items = []
for n in sorted(os.listdir(os.path.join(here, 'selftest'))):
    if not n.endswith('.diff'):
        continue
    m = re.search(r'(C\d\d)', n)
    if not m:
        continue
    items.append((os.path.join('selftest', n), m.group(1), bool(re.search(r'rewrite|harmless', n, re.I))))
for d in sorted(os.listdir(os.path.join(here, 'seeded'))):
    p = os.path.join('seeded', d, 'patch.diff')
    if os.path.exists(os.path.join(here, p)):
        items.append((p, d.split('-')[0], False))
if args:
    items = [it for it in items if any(a in it[0] for a in args)]


def run(it):
    path, prop, harmless = it
    t0 = time.time()
    env = dict(os.environ, SKIP_BASELINE='1', NOAUDIT='1', TAILN='40')
    r = subprocess.run([os.path.join(here, 'tools', 'mutant_check.sh'), os.path.join(here, path), prop],
                       capture_output=True, text=True, env=env)
    out = r.stdout + r.stderr
    if 'patch does not apply' in out:
        return path, {'property': prop, 'applies': False}
    demo = os.path.join(here, os.path.dirname(path), 'demo.py')
    still = None
    if path.startswith('seeded') and os.path.exists(demo):
        # does the change still break the property on the current /repo (later fix: commits may have made it harmless)?
        import tempfile, shutil
        d = tempfile.mkdtemp(prefix='chi_sweep.')
        try:
            subprocess.run('cp -r /repo/chi %s/ && cd %s && patch -p1 -s < %s' % (d, d, os.path.join(here, path)),
                           shell=True, capture_output=True)
            m = subprocess.run(['/venv/bin/python', demo], capture_output=True, text=True,
                               env=dict(os.environ, PYTHONPATH=d), cwd=os.path.dirname(demo))
            c = subprocess.run(['/venv/bin/python', demo], capture_output=True, text=True,
                               env=dict(os.environ, PYTHONPATH='/repo'), cwd=os.path.dirname(demo))
            still = (m.returncode != 0) and (c.returncode == 0)
        finally:
            shutil.rmtree(d, ignore_errors=True)
    viol = [l for l in out.splitlines() if l.startswith('VIOLATION')]
    summ = [l for l in out.splitlines() if (' quick: ' in l)]
    nofi = [l for l in viol if l.rstrip().endswith('no-failing-input-found')]
    if still is False:
        # the demonstration no longer fails on the patched tree: nothing to flag any more
        return path, {'property': prop, 'applies': True, 'expected': 'superseded', 'flagged': bool(viol),
                      'demo_still_fails_on_patched_tree': False, 'ok': True, 'violations': len(viol),
                      'summary': summ[-1][:200] if summ else '', 'seconds': round(time.time() - t0, 1)}
    return path, {'property': prop, 'applies': True, 'expected': 'green' if harmless else 'flagged',
                  'demo_still_fails_on_patched_tree': still,
                  'flagged': bool(viol), 'violations': len(viol), 'no_failing_input_found': len(nofi),
                  'ok': bool(viol) != harmless, 'summary': summ[-1][:200] if summ else out[-200:],
                  'seconds': round(time.time() - t0, 1)}


res = {}
outp = os.path.join(here, 'selftest', 'sweep_results.json')
head = subprocess.run(['git', '-C', '/repo', 'rev-parse', '--short', 'HEAD'], capture_output=True, text=True).stdout.strip()


def dump():
    allres = json.load(open(outp)).get('results', {}) if os.path.exists(outp) else {}
    allres.update(res)
    allres = {k: v for k, v in allres.items() if os.path.exists(os.path.join(here, k))}
    json.dump({'repo_head_of_last_run': head, 'results': allres}, open(outp + '.tmp', 'w'), indent=1, sort_keys=True)
    os.replace(outp + '.tmp', outp)


with cf.ThreadPoolExecutor(jobs) as ex:
    for path, r in ex.map(run, items):
        res[path] = r
        print(path, r.get('ok'), r.get('violations'), r.get('seconds'), flush=True)
        if len(res) % 10 == 0:
            dump()          # incrementally: a sweep that is cut short keeps what it has
dump()
bad = [p for p, r in res.items() if r.get('applies') and not r['ok']]
print('patches: %d, not applying: %d, unexpected outcome: %s' % (len(res), sum(1 for r in res.values() if not r['applies']), bad))
