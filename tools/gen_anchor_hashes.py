#!/venv/bin/python
"""records the AST hash of every source file the properties are anchored in (harness/anchor_hashes.json).
Run after every fix: commit.  At check time a differing hash means "the modelled code was edited": the run
reports it in the evidence and explores three times as many cases (information, never an alarm)."""
import ast, hashlib, json, os
here = os.path.dirname(os.path.dirname(os.path.abspath(__file__)))
files = set()
for l in open(os.path.join(here, 'properties.jsonl')):
    files.update(json.loads(l)['anchors']['files'])
out = {}
for f in sorted(files):
    p = os.path.join('/repo', f)
    if os.path.isdir(p) or not os.path.exists(p):
        for root, _, fs in os.walk(p):
            for x in fs:
                if x.endswith('.py'):
                    q = os.path.join(root, x)
                    out[os.path.relpath(q, '/repo')] = hashlib.sha1(ast.dump(ast.parse(open(q).read())).encode()).hexdigest()
        continue
    out[f] = hashlib.sha1(ast.dump(ast.parse(open(p).read())).encode()).hexdigest()
head = os.popen('git -C /repo rev-parse --short HEAD').read().strip()
json.dump({'repo_head': head, 'files': out}, open(os.path.join(here, 'harness', 'anchor_hashes.json'), 'w'), indent=1)
print(len(out), 'files hashed at', head)
