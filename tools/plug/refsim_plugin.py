"""pytest plugin: run chi's own solver-dependent tests on harness/refsim.py (validation of refsim and a
regression guard for fix: commits in code the stable suite cannot reach). Usage:
  cd <chi tree> && PYTHONPATH=<chi tree>:/verif/harness:/verif/tools/plug /venv/bin/python -m pytest -p refsim_plugin chi/tests/test_x.py"""
import refsim
refsim.install()
