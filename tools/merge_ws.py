#!/usr/bin/env python3
"""tools/merge_ws.py <workspace> <ID> [<ID>...] — merge a builder's new files and integration lines"""
import json, os, shutil, subprocess, sys, re
ws = sys.argv[1].rstrip('/')
ids = sys.argv[2:]
here = os.path.dirname(os.path.dirname(os.path.abspath(__file__)))
st = subprocess.run(['git', 'status', '--short'], cwd=ws, capture_output=True, text=True).stdout.splitlines()
new = [l[3:] for l in st if l.startswith('??')]
mod = [l[3:] for l in st if l.startswith(' M') or l.startswith('M ')]
for f in new:
    if f.startswith('replays') or f.startswith('evidence') or f.startswith('.work') or f.endswith('/') and 'replays' in f:
        continue
    src = os.path.join(ws, f)
    dst = os.path.join(here, f)
    if os.path.isdir(src):
        shutil.copytree(src, dst, dirs_exist_ok=True)
    else:
        os.makedirs(os.path.dirname(dst), exist_ok=True)
        shutil.copy(src, dst)
    print('copied', f)
# integration lines
def add_imports(path, pattern):
    src = open(os.path.join(ws, path)).read().splitlines()
    dst_p = os.path.join(here, path)
    dst = open(dst_p).read().splitlines()
    for l in src:
        if l.startswith('import ') and l not in dst:
            # insert after last import
            k = max(i for i, x in enumerate(dst) if x.startswith('import '))
            dst.insert(k + 1, l)
            print('import added to', path, ':', l)
    open(dst_p, 'w').write('\n'.join(dst) + '\n')
add_imports('lean/ChiModel.lean', None)
add_imports('lean/ChiProofs.lean', None)
add_imports('lean/ChiDriver/All.lean', None)
allp = os.path.join(here, 'lean/ChiDriver/All.lean')
s = open(allp).read()
for i in ids:
    if ('%s.ops' % i) not in s:
        s = re.sub(r'(def allOps : List \(String × Op\) := [^\n]*)', lambda m: m.group(1) + ' ++ %s.ops' % i, s)
        print('ops added', i)
open(allp, 'w').write(s)
c_ws = json.load(open(os.path.join(ws, 'tools/claims.json')))
c = json.load(open(os.path.join(here, 'tools/claims.json')))
for i in ids:
    if i in c_ws:
        c[i] = c_ws[i]
        print('claim', i)
json.dump(c, open(os.path.join(here, 'tools/claims.json'), 'w'), indent=1)
k_ws = json.load(open(os.path.join(ws, 'known_findings.json')))['findings']
kp = os.path.join(here, 'known_findings.json')
k = json.load(open(kp))
have = {f['id'] for f in k['findings']}
for f in k_ws:
    if f['id'] not in have and f.get('property') in ids:
        k['findings'].append(f)
        print('finding', f['id'], f.get('status'))
json.dump(k, open(kp, 'w'), indent=1)
print('modified shared files in workspace (inspect by hand):', [m for m in mod if m not in (
    'MANIFEST.json', 'known_findings.json', 'lean/ChiDriver/All.lean', 'lean/ChiModel.lean', 'lean/ChiProofs.lean',
    'tools/claims.json')])
