"""
Generator of linear compartment models: one neutral description, two independent consumers —
`write_sbml` (what chi / myokit read) and `closed_form` (the oracle of closedform.py).

Description (`spec`, plain dict, JSON-able):
  comps    [{'id', 'size'}]                              compartment; literal constant `<id>.size`
  pars     [{'id', 'value'}]                             literal constants `global.<id>`
  derived  [{'id', 'mono'}]                              derived constants (monomial of literals)
  states   [{'id', 'kind': 'rate'|'species', 'comp', 'amount', 'init'}]
           species symbol = amount if 'amount' (hasOnlySubstanceUnits) else amount / size
  inter    [{'id', 'terms': [term]}]                     intermediary variables (linear forms)
  rules    {state id: [rterm]}                           rate rules of the 'rate' states
  flows    [{'id', 'from', 'to', 'law': [rterm]}]        reactions between species (stoichiometry 1)
  term  = {'mono': mono, 'sym': state id | None}
  rterm = {'sign': +1|-1, 'mono': mono, 'sym': state id|None} | {'sign': +1|-1, 'inter': id}
  mono  = {'c': float, 'pw': [[kind, id, exponent]]}     kind in 'par' | 'size' | 'der'
"""
import closedform as cf

LETTERS = 'abcdefghijklmnopqrstuvwxyzABCDEFGHIJKLMNOPQRSTUVWXYZ_'
TAIL = LETTERS + '0123456789'


def rand_id(rng, used):
    while True:
        n = int(rng.integers(1, 4))
        s = LETTERS[int(rng.integers(len(LETTERS) - 1))]
        s += ''.join(TAIL[int(rng.integers(len(TAIL)))] for _ in range(n))
        s += str(int(rng.integers(10)))
        if s.lower() not in used:
            used.add(s.lower())
            return s


def dy(rng, lo=1, hi=12, q=8):
    """a dyadic rational"""
    return float(int(rng.integers(lo, hi + 1))) / q


def gen_spec(rng, n_states=None, max_states=6, one_compartment=False):
    used = set()
    n = int(n_states or rng.integers(2, max_states + 1))
    comps = [{'id': rand_id(rng, used), 'size': dy(rng, 4, 16)} for _ in range(int(rng.integers(1, 4)))]
    if one_compartment:
        comps = comps[:1]            # all species share one compartment (several dosable states in it)
    pars = [{'id': rand_id(rng, used), 'value': dy(rng, 2, 10)} for _ in range(int(rng.integers(2, 6)))]

    def lit_mono(max_f=2, allow_size=True):
        pw = []
        ks = rng.choice(len(pars), size=int(rng.integers(1, max_f + 1)), replace=False)
        for k in ks:
            pw.append(['par', pars[int(k)]['id'], 1])
        if allow_size and rng.random() < 0.3:
            pw.append(['size', comps[int(rng.integers(len(comps)))]['id'], -1])
        return {'c': float(rng.choice([1.0, 1.0, 2.0, 0.5])), 'pw': pw}
    derived = [{'id': rand_id(rng, used), 'mono': lit_mono()} for _ in range(int(rng.integers(0, 3)))]

    def any_mono():
        if derived and rng.random() < 0.4:
            m = {'c': 1.0, 'pw': [['der', derived[int(rng.integers(len(derived)))]['id'], 1]]}
            if rng.random() < 0.3:
                m['pw'].append(['par', pars[int(rng.integers(len(pars)))]['id'], 1])
            return m
        return lit_mono()
    states = []
    for _ in range(n):
        if rng.random() < 0.6:
            states.append({'id': rand_id(rng, used), 'kind': 'species',
                           'comp': comps[int(rng.integers(len(comps)))]['id'],
                           'amount': bool(rng.random() < 0.5), 'init': dy(rng, 0, 16)})
        else:
            states.append({'id': rand_id(rng, used), 'kind': 'rate', 'init': dy(rng, 0, 16)})
    # file order of the parameter-states is shuffled relative to the species
    sid = [s['id'] for s in states]

    def term():
        return {'mono': any_mono(), 'sym': sid[int(rng.integers(n))]}
    inter = []
    for _ in range(int(rng.integers(0, 3))):
        inter.append({'id': rand_id(rng, used), 'terms': [term() for _ in range(int(rng.integers(1, 3)))]})

    def rterm(sign=None, src=None):
        sg = int(sign if sign is not None else rng.choice([1, -1, -1]))
        if inter and rng.random() < 0.3 and src is None:
            return {'sign': sg, 'inter': inter[int(rng.integers(len(inter)))]['id']}
        if src is None and rng.random() < 0.12:
            return {'sign': sg, 'mono': any_mono(), 'sym': None}
        return {'sign': sg, 'mono': any_mono(), 'sym': src if src is not None else sid[int(rng.integers(n))]}
    rules = {}
    for s in states:
        if s['kind'] == 'rate':
            ts = [rterm(sign=-1, src=s['id'])]
            ts += [rterm() for _ in range(int(rng.integers(0, 3)))]
            rules[s['id']] = ts
    species = [s['id'] for s in states if s['kind'] == 'species']
    flows = []
    for k, a in enumerate(species):
        # every species is eliminated or passed on, some are also fed
        to = None
        if len(species) > 1 and rng.random() < 0.6:
            to = species[int(rng.integers(len(species)))]
            if to == a:
                to = None
        flows.append({'id': rand_id(rng, used), 'from': a, 'to': to, 'law': [rterm(sign=1, src=a)]})
        if rng.random() < 0.25:
            flows.append({'id': rand_id(rng, used), 'from': None, 'to': a, 'law': [rterm(sign=1)]})
    return {'comps': comps, 'pars': pars, 'derived': derived, 'states': states, 'inter': inter,
            'rules': rules, 'flows': flows}


# ----------------------------------------------------------------------------------------------
# consumer 1: SBML text
# ----------------------------------------------------------------------------------------------
def _ci(x):
    return '<ci>%s</ci>' % x


def _mono_xml(m, sym=None):
    num = []
    den = []
    if m['c'] != 1.0 or (not m['pw'] and sym is None):
        num.append('<cn>%r</cn>' % m['c'])
    for kind, ident, e in m['pw']:
        (num if e > 0 else den).extend([_ci(ident)] * abs(e))
    if sym is not None:
        num.append(_ci(sym))
    top = num[0] if len(num) == 1 else '<apply><times/>%s</apply>' % ''.join(num)
    for dterm in den:
        top = '<apply><divide/>%s%s</apply>' % (top, dterm)
    return top


def _rterms_xml(ts):
    parts = []
    for t in ts:
        x = _ci(t['inter']) if 'inter' in t else _mono_xml(t['mono'], t['sym'])
        parts.append((t['sign'], x))
    sg, x = parts[0]
    acc = x if sg > 0 else '<apply><minus/>%s</apply>' % x
    for sg, x in parts[1:]:
        acc = '<apply><%s/>%s%s</apply>' % ('plus' if sg > 0 else 'minus', acc, x)
    return acc


def _terms_xml(ts):
    return _rterms_xml([dict(t, sign=1) for t in ts])


MATH = '<math xmlns="http://www.w3.org/1998/Math/MathML">%s</math>'


def write_sbml(spec, path, order_seed=0):
    out = ['<?xml version="1.0" encoding="UTF-8"?>',
           '<sbml xmlns="http://www.sbml.org/sbml/level3/version2/core" level="3" version="2">',
           '<model id="generated">', '<listOfCompartments>']
    for c in spec['comps']:
        out.append('<compartment id="%s" size="%r" constant="true"/>' % (c['id'], c['size']))
    out.append('</listOfCompartments>')
    sp = [s for s in spec['states'] if s['kind'] == 'species']
    if sp:
        out.append('<listOfSpecies>')
        for s in sp:
            out.append('<species id="%s" compartment="%s" initialAmount="%r" hasOnlySubstanceUnits="%s" '
                       'boundaryCondition="false" constant="false"/>'
                       % (s['id'], s['comp'], s['init'], 'true' if s['amount'] else 'false'))
        out.append('</listOfSpecies>')
    out.append('<listOfParameters>')
    for p in spec['pars']:
        out.append('<parameter id="%s" value="%r" constant="true"/>' % (p['id'], p['value']))
    for s in spec['states']:
        if s['kind'] == 'rate':
            out.append('<parameter id="%s" value="%r" constant="false"/>' % (s['id'], s['init']))
    for x in spec['derived'] + spec['inter']:
        out.append('<parameter id="%s" value="1" constant="false"/>' % x['id'])
    out.append('</listOfParameters>')
    out.append('<listOfRules>')
    for x in spec['derived']:
        out.append('<assignmentRule variable="%s">%s</assignmentRule>'
                   % (x['id'], MATH % _mono_xml(x['mono'])))
    for x in spec['inter']:
        out.append('<assignmentRule variable="%s">%s</assignmentRule>'
                   % (x['id'], MATH % _terms_xml(x['terms'])))
    for sid, ts in spec['rules'].items():
        out.append('<rateRule variable="%s">%s</rateRule>' % (sid, MATH % _rterms_xml(ts)))
    out.append('</listOfRules>')
    if spec['flows']:
        out.append('<listOfReactions>')
        for f in spec['flows']:
            out.append('<reaction id="%s" reversible="false">' % f['id'])
            if f['from'] is not None:
                out.append('<listOfReactants><speciesReference species="%s" stoichiometry="1" '
                           'constant="true"/></listOfReactants>' % f['from'])
            if f['to'] is not None:
                out.append('<listOfProducts><speciesReference species="%s" stoichiometry="1" '
                           'constant="true"/></listOfProducts>' % f['to'])
            species = set(x['id'] for x in sp)
            mods = sorted(set(t['sym'] for t in f['law'] if t.get('sym') in species) - {f['from'], f['to']})
            if mods:
                out.append('<listOfModifiers>%s</listOfModifiers>' % ''.join(
                    '<modifierSpeciesReference species="%s"/>' % m for m in mods))
            out.append('<kineticLaw>%s</kineticLaw></reaction>' % (MATH % _rterms_xml(f['law'])))
        out.append('</listOfReactions>')
    out += ['</model>', '</sbml>']
    with open(path, 'w') as fh:
        fh.write('\n'.join(out))


# ----------------------------------------------------------------------------------------------
# names under which myokit's SBML importer publishes the entities (its documented convention)
# ----------------------------------------------------------------------------------------------
def state_name(spec, sid):
    s = [x for x in spec['states'] if x['id'] == sid][0]
    return 'global.' + sid if s['kind'] == 'rate' else '%s.%s_amount' % (s['comp'], sid)


def name_maps(spec):
    """qualified name -> oracle key, for states, literal constants and admissible outputs"""
    st = {state_name(spec, s['id']): s['id'] for s in spec['states']}
    co = {'global.' + p['id']: p['id'] for p in spec['pars']}
    co.update({c['id'] + '.size': 'size:' + c['id'] for c in spec['comps']})
    outs = {n: ('state', k) for n, k in st.items()}
    for s in spec['states']:
        if s['kind'] == 'species':
            outs['%s.%s_concentration' % (s['comp'], s['id'])] = ('conc', s['id'])
    for x in spec['inter']:
        outs['global.' + x['id']] = ('inter', x['id'])
    return st, co, outs


# ----------------------------------------------------------------------------------------------
# consumer 2: the oracle's linear model
# ----------------------------------------------------------------------------------------------
def closed_form(spec):
    der = {x['id']: x['mono'] for x in spec['derived']}
    st = {s['id']: s for s in spec['states']}

    def mono(m):
        r = cf.Mono(m['c'])
        for kind, ident, e in m['pw']:
            if kind == 'par':
                r = r.times(cf.Mono(1.0, {ident: e}))
            elif kind == 'size':
                r = r.times(cf.Mono(1.0, {'size:' + ident: e}))
            else:
                base = mono(der[ident])
                for _ in range(abs(e)):
                    assert e > 0
                    r = r.times(base)
        return r

    def sym(m, s):
        """monomial * symbol value of state s, as (Mono, state id)"""
        if s is not None and st[s]['kind'] == 'species' and not st[s]['amount']:
            m = m.times(cf.Mono(1.0, {'size:' + st[s]['comp']: -1}))
        return m, s
    inter = {}
    for x in spec['inter']:
        f = cf.LinForm()
        for t in x['terms']:
            f.add(*sym(mono(t['mono']), t['sym']))
        inter[x['id']] = f

    def form(ts):
        f = cf.LinForm()
        for t in ts:
            sg = cf.Mono(float(t['sign']))
            if 'inter' in t:
                f.add_form(inter[t['inter']], sg)
            else:
                m, s = sym(mono(t['mono']), t['sym'])
                f.add(m.times(sg), s)
        return f
    rhs = {s['id']: cf.LinForm() for s in spec['states']}
    for sid, ts in spec['rules'].items():
        rhs[sid].add_form(form(ts))
    for fl in spec['flows']:
        law = form(fl['law'])
        if fl['from'] is not None:
            rhs[fl['from']].add_form(law, cf.Mono(-1.0))
        if fl['to'] is not None:
            rhs[fl['to']].add_form(law)
    outs = {}
    for s in spec['states']:
        outs[('state', s['id'])] = cf.LinForm().add(cf.Mono(1.0), s['id'])
        if s['kind'] == 'species':
            outs[('conc', s['id'])] = cf.LinForm().add(cf.Mono(1.0, {'size:' + s['comp']: -1}), s['id'])
    for k, f in inter.items():
        outs[('inter', k)] = f
    return cf.LinearModel([s['id'] for s in spec['states']], rhs, outs)
