"""
Independent oracle for simulations (shares no code with refsim.py and never touches myokit).

* linear (affine) compartment models given by a neutral description (`LinearModel`): closed-form
  solution by matrix exponentials, piecewise-constant input (dose rate), analytic derivatives with
  respect to every initial value and every literal constant (Van Loan block exponentials);
* the documented equations of the four library models (docstrings of chi.library.ModelLibrary),
  the linear one in closed form, the tumour-growth models integrated with an explicit Runge-Kutta
  method (DOP853) together with hand-derived forward-sensitivity equations;
* dose schedules as lists of (start, stop, rate) built from the *regimen* numbers
  (dose, start, duration, period, num), not from a myokit protocol.

Everything is a function of *named* quantities; the caller supplies the order in which it wants
derivatives (`wrt`: list of ('init', state) / ('const', key)).
"""
import math

import numpy as np
from scipy.integrate import solve_ivp
from scipy.linalg import expm


# ----------------------------------------------------------------------------------------------
# monomials in the literal constants
# ----------------------------------------------------------------------------------------------
class Mono(object):
    """c * prod_k theta_k ** e_k   (integer exponents, possibly negative)"""

    def __init__(self, c=1.0, pw=None):
        self.c = float(c)
        self.pw = {k: int(e) for k, e in (pw or {}).items() if e != 0}

    def times(self, other):
        pw = dict(self.pw)
        for k, e in other.pw.items():
            pw[k] = pw.get(k, 0) + e
        return Mono(self.c * other.c, pw)

    def scaled(self, f):
        return Mono(self.c * f, self.pw)

    def value(self, theta):
        v = self.c
        for k, e in self.pw.items():
            v *= theta[k] ** e
        return v

    def dvalue(self, theta, key):
        e = self.pw.get(key, 0)
        if e == 0:
            return 0.0
        v = self.c * e * theta[key] ** (e - 1)
        for k, f in self.pw.items():
            if k != key:
                v *= theta[k] ** f
        return v


class LinForm(object):
    """sum of monomial * (state amount | 1):  {state_id or None: [Mono, ...]}"""

    def __init__(self):
        self.t = {}

    def add(self, mono, state):
        self.t.setdefault(state, []).append(mono)
        return self

    def add_form(self, other, factor=None):
        for s, ms in other.t.items():
            for m in ms:
                self.add(m if factor is None else m.times(factor), s)
        return self


class LinearModel(object):
    """dx/dt = A(theta) x + b(theta) + B u(t);  outputs y_o = c_o(theta) . [x; 1]"""

    def __init__(self, states, rhs, outputs, dosed=None):
        self.states = list(states)            # state ids, any order (the oracle's own)
        self.rhs = rhs                        # state id -> LinForm
        self.outputs = outputs                # output name -> LinForm
        self.dosed = dosed                    # state id receiving the dose rate, or None

    def _matrix(self, theta, forms, key=None):
        n = len(self.states)
        M = np.zeros((len(forms), n + 1))
        for r, f in enumerate(forms):
            for s, ms in f.t.items():
                col = n if s is None else self.states.index(s)
                for m in ms:
                    M[r, col] += m.value(theta) if key is None else m.dvalue(theta, key)
        return M

    def solve(self, x0, theta, times, wrt, outputs, schedule=None):
        """x0: {state: value}, theta: {const key: value}, schedule: [(t_on, t_off, rate)] sorted,
        non-overlapping.  Returns values (n_out, n_times), sens (n_times, n_out, len(wrt))."""
        n = len(self.states)
        forms = [self.rhs[s] for s in self.states]
        keys = [w[1] for w in wrt if w[0] == 'const']
        A = np.zeros((n + 1, n + 1))
        A[:n] = self._matrix(theta, forms)
        dA = {}
        for k in keys:
            D = np.zeros((n + 1, n + 1))
            D[:n] = self._matrix(theta, forms, k)
            dA[k] = D
        oforms = [self.outputs[o] for o in outputs]
        C = self._matrix(theta, oforms)
        dC = {k: self._matrix(theta, oforms, k) for k in keys}
        z = np.array([x0[s] for s in self.states] + [1.0])
        S = np.zeros((n + 1, len(wrt)))
        for p, w in enumerate(wrt):
            if w[0] == 'init':
                S[self.states.index(w[1]), p] = 1.0
        times = [float(t) for t in times]
        vals = np.zeros((len(outputs), len(times)))
        sens = np.zeros((len(times), len(outputs), len(wrt)))
        # break points
        sched = list(schedule or [])
        t_end = times[-1] if times else 0.0
        brk = sorted(set([0.0] + [a for a, _, _ in sched] + [b for _, b, _ in sched] + times))
        brk = [t for t in brk if 0.0 <= t <= t_end]

        def rate_at(t):
            for a, b, r in sched:
                if a <= t < b:
                    return r
            return 0.0

        def emit(tt):
            for k_, t_ in enumerate(times):
                if t_ == tt:
                    vals[:, k_] = C @ z
                    for p, w in enumerate(wrt):
                        sens[k_, :, p] = C @ S[:, p]
                        if w[0] == 'const':
                            sens[k_, :, p] += dC[w[1]] @ z
        tcur = 0.0
        emit(0.0)
        for tn in brk:
            if tn <= tcur:
                continue
            u = rate_at(tcur)
            M = A.copy()
            if self.dosed is not None and u != 0.0:
                M[self.states.index(self.dosed), n] += u
            dt = tn - tcur
            E = expm(M * dt)
            Snew = E @ S
            for p, w in enumerate(wrt):
                if w[0] == 'const':
                    blk = np.zeros((2 * (n + 1), 2 * (n + 1)))
                    blk[:n + 1, :n + 1] = M
                    blk[n + 1:, n + 1:] = M
                    blk[:n + 1, n + 1:] = dA[w[1]]
                    F = expm(blk * dt)[:n + 1, n + 1:]
                    Snew[:, p] += F @ z
            z = E @ z
            S = Snew
            tcur = tn
            emit(tn)
        return vals, sens


# ----------------------------------------------------------------------------------------------
# dose schedules from regimen numbers
# ----------------------------------------------------------------------------------------------
def schedule(dose, start, duration, period, num, t_end):
    """[(t_on, t_off, rate)] of the regimen (dose, start, duration, period, num) up to t_end.
    period None or 0 -> a single dose; num None or 0 with a period -> indefinitely many."""
    rate = dose / duration
    out = []
    if not period:
        if start <= t_end:
            out.append((start, start + duration, rate))
        return out
    k = 0
    while True:
        if num and k >= num:
            break
        a = start + k * period
        if a > t_end:
            break
        out.append((a, a + duration, rate))
        k += 1
    return out


def delivered(sched, T):
    """amount that has entered up to time T"""
    return sum(r * max(0.0, min(T, b) - a) for a, b, r in sched)


# ----------------------------------------------------------------------------------------------
# library models: the documented equations
# ----------------------------------------------------------------------------------------------
def one_compartment_documented(direct=True, depot=False):
    """dA/dt = -k_e A (+ r_d | + k_a A_d),  C = A / V;   dA_d/dt = -k_a A_d + r_d"""
    ke = ('const', 'ke')
    rhs = {'A': LinForm().add(Mono(-1.0, {'ke': 1}), 'A')}
    states = ['A']
    dosed = 'A'
    if depot:
        states.append('Ad')
        rhs['A'].add(Mono(1.0, {'ka': 1}), 'Ad')
        rhs['Ad'] = LinForm().add(Mono(-1.0, {'ka': 1}), 'Ad')
        dosed = 'Ad'
    outs = {'C': LinForm().add(Mono(1.0, {'V': -1}), 'A'), 'A': LinForm().add(Mono(1.0), 'A')}
    if depot:
        outs['Ad'] = LinForm().add(Mono(1.0), 'Ad')
    return LinearModel(states, rhs, outs, dosed)


class Nonlinear(object):
    """hand-written right-hand side f(x, th), df/dx, df/dth; forward sensitivities; DOP853"""

    def __init__(self, states, consts, f, fx, fth):
        self.states, self.consts, self.f, self.fx, self.fth = states, consts, f, fx, fth

    def solve(self, x0, theta, times, wrt):
        n, m = len(self.states), len(self.consts)
        th = np.array([theta[c] for c in self.consts], float)
        z0 = np.concatenate([[x0[s] for s in self.states], np.eye(n, n + m).ravel()])

        def g(t, z):
            x = z[:n]
            S = z[n:].reshape(n, n + m)
            J = self.fx(x, th)
            P = self.fth(x, th)
            dS = J @ S
            dS[:, n:] += P
            return np.concatenate([self.f(x, th), dS.ravel()])
        times = np.asarray(times, float)
        sol = solve_ivp(g, (0.0, float(times[-1]) if times[-1] > 0 else 1.0), z0, method='DOP853',
                        rtol=1e-11, atol=1e-13, t_eval=times if times[-1] > 0 else None,
                        dense_output=times[-1] <= 0)
        if times[-1] > 0:
            Z = sol.y
        else:
            Z = np.array([z0 for _ in times]).T
        vals = Z[:n]
        S = Z[n:].reshape(n, n + m, len(times))
        cols = []
        for w in wrt:
            cols.append(self.states.index(w[1]) if w[0] == 'init' else n + self.consts.index(w[1]))
        sens = np.transpose(S[:, cols, :], (2, 0, 1))
        return vals, sens


def tgi_koch_documented():
    """dV/dt = 2 l0 l1 V / (2 l0 V + l1) - kappa C V     consts: C, kappa, l0, l1"""
    def f(x, th):
        V = x[0]
        C, ka, l0, l1 = th
        return np.array([2 * l0 * l1 * V / (2 * l0 * V + l1) - ka * C * V])

    def fx(x, th):
        V = x[0]
        C, ka, l0, l1 = th
        den = 2 * l0 * V + l1
        return np.array([[2 * l0 * l1 * l1 / den ** 2 - ka * C]])

    def fth(x, th):
        V = x[0]
        C, ka, l0, l1 = th
        den = 2 * l0 * V + l1
        return np.array([[-ka * V, -C * V,
                          2 * l1 * V * l1 / den ** 2,
                          2 * l0 * V * 2 * l0 * V / den ** 2]])
    return Nonlinear(['V'], ['C', 'kappa', 'l0', 'l1'], f, fx, fth)


def tgi_koch_reparametrised_documented():
    """dV/dt = lambda V / (V / Vcrit + 1) - kappa C V    consts: Vcrit, C, kappa, lambda"""
    def f(x, th):
        V = x[0]
        Vc, C, ka, lam = th
        return np.array([lam * V / (V / Vc + 1) - ka * C * V])

    def fx(x, th):
        V = x[0]
        Vc, C, ka, lam = th
        return np.array([[lam / (V / Vc + 1) ** 2 - ka * C]])

    def fth(x, th):
        V = x[0]
        Vc, C, ka, lam = th
        q = V / Vc + 1
        return np.array([[lam * V * (V / Vc ** 2) / q ** 2, -ka * V, -C * V, V / q]])
    return Nonlinear(['V'], ['Vcrit', 'C', 'kappa', 'lambda'], f, fx, fth)


def erlotinib_documented():
    """one-compartment PK  dA/dt = -k_e A, C = A / V_c  combined with the reparametrised
    tumour growth model   dV/dt = lambda V / (V / Vcrit + 1) - kappa C V"""
    def f(x, th):
        A, V = x
        size, Vc, ke, ka, lam = th
        return np.array([-ke * A, lam * V / (V / Vc + 1) - ka * (A / size) * V])

    def fx(x, th):
        A, V = x
        size, Vc, ke, ka, lam = th
        return np.array([[-ke, 0.0],
                         [-ka * V / size, lam / (V / Vc + 1) ** 2 - ka * A / size]])

    def fth(x, th):
        A, V = x
        size, Vc, ke, ka, lam = th
        q = V / Vc + 1
        return np.array([[0.0, 0.0, -A, 0.0, 0.0],
                         [ka * A * V / size ** 2, lam * V * (V / Vc ** 2) / q ** 2, 0.0,
                          -(A / size) * V, V / q]])
    return Nonlinear(['A', 'V'], ['size', 'Vcrit', 'ke', 'kappa', 'lambda'], f, fx, fth)


def rel_err(a, b, floor=1e-6):
    a = np.asarray(a, float)
    b = np.asarray(b, float)
    if a.shape != b.shape:
        return math.inf
    if a.size == 0:
        return 0.0
    return float(np.max(np.abs(a - b) / np.maximum(floor, np.maximum(np.abs(a), np.abs(b)))))
