"""entry point: ./check <ID> --tier quick|thorough [--replay file]"""
import argparse
import importlib
import json
import os
import sys
import traceback

sys.path.insert(0, os.path.dirname(os.path.abspath(__file__)))
import core  # noqa: E402


def main():
    ap = argparse.ArgumentParser()
    ap.add_argument('prop')
    ap.add_argument('--tier', default=os.environ.get('VERIF_TIER', 'quick'))
    ap.add_argument('--replay', default=None)
    ap.add_argument('--no-audit', action='store_true', help='development only')
    a = ap.parse_args()
    tier = a.tier if a.tier in ('quick', 'thorough') else 'quick'
    seed = int(os.environ.get('VERIF_SEED', '0') or 0)
    prop = a.prop.upper()
    core.import_chi()
    try:
        mod = importlib.import_module('props.' + prop.lower())
    except ImportError:
        print('no check for ' + prop)
        traceback.print_exc()
        return 2
    ctx = core.Ctx(prop, tier, seed)
    if a.replay:
        with open(a.replay) as fh:
            data = json.load(fh)
        if 'failing' not in data and data.get('broken_correspondence'):
            # a no-failing-input-found replay: re-run the first input on which model and code disagreed
            b = data['broken_correspondence'][0]
            data['failing'] = {'input': b.get('input'), 'tag': b.get('correspondence'), 'detail': {
                'chi': b.get('chi'), 'model': b.get('model')}}
            print('replaying the input of the broken correspondence %s (chi %r, model %r)'
                  % (b.get('correspondence'), b.get('chi'), b.get('model')))
        if 'failing' not in data:
            print('nothing to replay: broken proof obligations %r' % (data.get('broken_obligations'),))
            return 1
        r = mod.replay(ctx, data)
        if ctx.corr_bad:
            print('correspondences broken on replay:', [(d.get('correspondence'), d.get('chi'), d.get('model'))
                                                         for d in ctx.corr_bad[:3]])
        return r
    try:
        if a.no_audit:
            audit = {'theorems': [], 'broken': []}
            ctx.dev = True
        else:
            audit = core.audit(prop, mod.REQUIRED_THEOREMS)
            if tier == 'thorough':
                ok, out = core.leanchecker(prop)
                ctx.extra['leanchecker'] = 'ok' if ok else out
                if not ok:
                    audit['broken'].append('leanchecker rejected ChiProofs.Props.%s: %s' % (prop, out[-300:]))
        changed = core.anchor_changes(prop)
        ctx.extra['anchored_files_changed'] = changed
        try:
            mod.run(ctx)
            if changed and tier == 'quick':
                # the modelled code was edited since the hashes were recorded: explore three times as much
                for extra in (1, 2):
                    ctx.seed = seed + 7919 * extra
                    mod.run(ctx)
                ctx.seed = seed
        except (core.BadOp, RuntimeError, OSError, MemoryError, KeyboardInterrupt):
            raise          # the machinery itself is broken: exit 2 below
        except Exception as e:  # noqa
            # an exception escaping from the cases (none occurs on the unchanged tree) is caused by
            # the code under test: report it as a failure of the property with the traceback
            tb = traceback.format_exc().splitlines()
            ctx.spec('%s.unexpected_exception/run' % prop, False, {'where': [l.strip() for l in tb if 'File' in l][-4:]},
                     {'raised': repr(e)[:300]})
        return ctx.finish(audit, mod.RULE, getattr(mod, 'ASSUMPTIONS', []))
    except Exception:
        traceback.print_exc()
        print('infrastructure failure in check %s (exit 2, not a verdict)' % prop)
        return 2


if __name__ == '__main__':
    sys.exit(main())
