"""
srctie — a source-derived tie between chi/_error_models.py and the Lean model (C04; reusable by C03)

On every run the closed-form numeric kernels of the four error models are EXTRACTED from the Python source
that is being checked (CHI_SRC aware), by executing the public methods `compute_log_likelihood`,
`compute_pointwise_ll`, `compute_sensitivities` with symbolic arguments and a symbolic `np`:

* Python operators / the modelled part of numpy build an expression DAG (nodes are tuples);
* every comparison that reaches an `if` (`__bool__`) is RECORDED as a guard, the trace continues on the side
  an in-support witness takes;
* the result per kernel is: the guards met + the returned expression (scalar; entry j of the pointwise vector;
  entry k of the mechanistic block and every sigma entry of the gradient);
* a construct the tracer does not model makes THAT kernel `untraceable: <reason>` (never an exception).

`generate()` prints the kernels as Lean definitions over the scalar class of lean/ChiModel/Scalar.lean
(`lean/ChiGen/ErrorModels.lean` is the committed copy; part of the lake build). `check(ctx)` compares the freshly
generated text with the committed one: equal → the compiled and audited theorems `Tie_*` of
lean/ChiProofs/Tie/C04.lean (generated = hand-written model, for all n / sigma / predictions / observations /
sensitivities in the support) apply to the current source; different → the unchanged proof script is re-run
against the new definitions in a scratch file under .work/ ; unexpected guards become concrete search hints.
"""
import builtins
import math
import os
import re
import subprocess
import sys
import time
from fractions import Fraction

import numpy as _np

VERIF = os.path.dirname(os.path.dirname(os.path.abspath(__file__)))
LEAN_DIR = os.path.join(VERIF, 'lean')
GEN_FILE = os.path.join(LEAN_DIR, 'ChiGen', 'ErrorModels.lean')
PROOF_FILE = os.path.join(LEAN_DIR, 'ChiProofs', 'Tie', 'C04.lean')
WORK = os.path.join(VERIF, '.work', 'srctie')
REPROVE_BUDGET_S = 60.0


class Untraceable(Exception):
    pass


# ----------------------------------------------------------------------------------------------------------
# expression nodes (plain tuples; structurally canonical, so equal sub-terms are equal objects by value)
# ----------------------------------------------------------------------------------------------------------
def K(x):
    return ('const', Fraction(x))


ZERO, ONE = K(0), K(1)
TRUE, FALSE = ('true',), ('false',)
ARITH = ('add', 'sub', 'mul', 'div')
CMP = ('le', 'lt', 'eq', 'ne')

_KNOWN_FLOATS = {}


def _register_known_floats():
    pi = ('pi',)
    two_pi = ('mul', K(2), pi)
    tab = {math.pi: pi, 2 * math.pi: two_pi, math.log(2 * math.pi): ('log', two_pi),
           math.log(2 * math.pi) / 2: ('div', ('log', two_pi), K(2)),
           0.5 * math.log(2 * math.pi): ('div', ('log', two_pi), K(2)),
           math.sqrt(2 * math.pi): ('sqrt', two_pi), math.log(2.0): ('log', K(2)),
           math.log(math.pi): ('log', pi), math.sqrt(2.0): ('sqrt', K(2)), math.sqrt(math.pi): ('sqrt', pi)}
    _KNOWN_FLOATS.update(tab)


_register_known_floats()


def const_node(x):
    """a Python / numpy number as a node; floats exactly (dyadic rationals), the usual transcendental
    constants (a module-level `log(2*pi)/2` computed with the real numpy or `math`) symbolically"""
    if isinstance(x, (bool, _np.bool_)):
        return TRUE if x else FALSE
    if isinstance(x, (int, _np.integer)):
        return K(int(x))
    x = float(x)
    if math.isinf(x):
        return ('inf',) if x > 0 else ('neg', ('inf',))
    if math.isnan(x):
        return ('nan',)
    if x in _KNOWN_FLOATS:
        return _KNOWN_FLOATS[x]
    return K(Fraction(x))


#: opaque real functions of one argument: name -> (Lean text, float implementation)
OPAQUE_FNS = {'erf': ('HasErf.erf', math.erf),
              'normcdf': ('normCdf', lambda x: 0.5 * (1.0 + math.erf(x / math.sqrt(2.0)))),
              'normpdf': ('normPdf', lambda x: math.exp(-x * x / 2.0) / math.sqrt(2.0 * math.pi))}


def children(node):
    return [c for c in node[1:] if isinstance(c, tuple)]


def subst(node, old, new, memo=None):
    if memo is None:
        memo = {}
    if node == old:
        return new
    if node in memo:
        return memo[node]
    if not any(isinstance(c, tuple) for c in node[1:]):
        memo[node] = node
        return node
    out = tuple(subst(c, old, new, memo) if isinstance(c, tuple) else c for c in node)
    memo[node] = out
    return out


def max_bv_level(node, memo=None):
    if memo is None:
        memo = {}
    if node in memo:
        return memo[node]
    if node[0] == 'bv':
        r = node[2]
    else:
        r = 0
        for c in node[1:]:
            if isinstance(c, tuple) and c and isinstance(c[0], str):
                r = max(r, max_bv_level(c, memo))
    memo[node] = r
    return r


_PH_COUNT = [0]


def bind(label, build, extent=None):
    """build(index_node) -> body ; returns (bv, body) with a canonical bound variable
    (`extent`: the node of the range the index runs over; only used by the index arithmetic, `nat_divmod`)"""
    _PH_COUNT[0] += 1
    ph = ('ph', _PH_COUNT[0]) if extent is None else ('ph', _PH_COUNT[0], extent)
    body = build(ph)
    bv = ('bv', label, max_bv_level(body) + 1)
    return bv, subst(body, ph, bv)


def dim_label(d):
    if isinstance(d, tuple) and d[0] == 'dim':
        return d[1]
    return 'i'


# ----------------------------------------------------------------------------------------------------------
# whole-number index / extent arithmetic (C order reshapes, `len(x) // n_dim`, flat parameter layouts)
# ----------------------------------------------------------------------------------------------------------
def nat_poly(node):
    """a whole-number expression built with + and * as a polynomial {sorted tuple of atoms: coefficient};
    everything else (extents, bound indices, // and % that did not simplify) is an atom"""
    t = node[0]
    if t == 'const':
        return {(): node[1]} if node[1] != 0 else {}
    if t == 'add':
        out = dict(nat_poly(node[1]))
        for mono, c in nat_poly(node[2]).items():
            out[mono] = out.get(mono, 0) + c
            if out[mono] == 0:
                del out[mono]
        return out
    if t == 'mul':
        a, b = nat_poly(node[1]), nat_poly(node[2])
        out = {}
        for m1, c1 in a.items():
            for m2, c2 in b.items():
                mono = tuple(sorted(m1 + m2, key=repr))
                out[mono] = out.get(mono, 0) + c1 * c2
                if out[mono] == 0:
                    del out[mono]
        return out
    return {(node,): Fraction(1)}


def _is_index_atom(a):
    return a[0] in ('bv', 'ph')


def poly_node(poly):
    """canonical node of a polynomial: extents first, then the terms with indices (highest degree first);
    inside a term: coefficient, indices, extents — `nDim + d`, `p * nDim + d`, `2 * nDim`"""
    if not poly:
        return ZERO
    terms = []
    for mono, c in poly.items():
        atoms = sorted(mono, key=lambda a: (not _is_index_atom(a), repr(a)))
        key = (any(_is_index_atom(a) for a in mono), -len(mono), [repr(a) for a in atoms])
        nd = None
        for a in atoms:
            nd = a if nd is None else ('mul', nd, a)
        if nd is None:
            nd = K(c)
        elif c != 1:
            nd = ('mul', K(c), nd)
        terms.append((key, nd))
    terms.sort(key=lambda kv: kv[0])
    out = terms[0][1]
    for _, nd in terms[1:]:
        out = ('add', out, nd)
    return out


def nat_canon(node):
    return poly_node(nat_poly(node))


def index_bound(atom):
    """the extent an index atom is known to stay below (None: unknown)"""
    if atom[0] == 'ph' and len(atom) > 2:
        return atom[2]
    if atom[0] == 'bv' and atom[1] in DIM_LABELS:
        return ('dim', atom[1])
    return None


#: labels of bound / output indices that range over the extent of the same name (`('bv', 'nDim', k) < nDim`)
DIM_LABELS = set()


def nat_divmod(node, div):
    """(quotient, remainder) of whole-number expressions when both simplify exactly — `(p * D + d) // D = p`
    with `d < D` known from the axis `d` runs over, `(2 * D) // D = 2` —, else None"""
    pe, pd = nat_poly(node), nat_poly(div)
    if len(pd) != 1:
        return None
    (dm, dc), = pd.items()
    if dc <= 0 or dc.denominator != 1:
        return None
    q, r = {}, {}
    for mono, c in pe.items():
        rest = list(mono)
        ok = c.denominator == 1 and c % dc == 0
        for a in dm:
            if a in rest:
                rest.remove(a)
            else:
                ok = False
        if ok:
            q[tuple(rest)] = c / dc
        else:
            r[mono] = c
    if r:
        if len(r) != 1:
            return None
        (rm, rc), = r.items()
        if rm == ():
            if not (dm == () and 0 <= rc < dc):
                return None
        elif len(rm) == 1 and rc == 1:
            b = index_bound(rm[0])
            if b is None or nat_poly(b) != pd:
                return None
        else:
            return None
    return poly_node(q), poly_node(r)


def nat_floordiv(a, b):
    r = nat_divmod(a, b)
    return r[0] if r is not None else ('natdiv', nat_canon(a), nat_canon(b))


def nat_mod(a, b):
    r = nat_divmod(a, b)
    return r[1] if r is not None else ('natmod', nat_canon(a), nat_canon(b))


def negate(b):
    t = b[0]
    if t == 'true':
        return FALSE
    if t == 'false':
        return TRUE
    if t == 'le':
        return ('lt', b[2], b[1])
    if t == 'lt':
        return ('le', b[2], b[1])
    if t == 'eq':
        return ('ne', b[1], b[2])
    if t == 'ne':
        return ('eq', b[1], b[2])
    if t == 'not':
        return b[1]
    if t == 'and':
        return ('or', negate(b[1]), negate(b[2]))
    if t == 'or':
        return ('and', negate(b[1]), negate(b[2]))
    if t == 'any':
        return ('all', b[1], b[2], negate(b[3]))
    if t == 'all':
        return ('any', b[1], b[2], negate(b[3]))
    return ('not', b)


# ----------------------------------------------------------------------------------------------------------
# concrete evaluation of a node (witness side of a guard, hint search, fidelity self-check)
# ----------------------------------------------------------------------------------------------------------
class Env:
    def __init__(self, n, p, par, ybar, obs, S):
        self.n, self.p = int(n), int(p)
        self.par = [float(x) for x in par]
        self.ybar = _np.asarray(ybar, float)
        self.obs = _np.asarray(obs, float)
        self.S = _np.asarray(S, float).reshape(self.n, self.p)


def evaluate(node, env, bvs=None, memo=None):
    bvs = bvs or {}
    with _np.errstate(all='ignore'):
        return _ev(node, env, bvs)


def _ev(node, env, bvs):
    t = node[0]
    if t == 'const':
        f = node[1]
        return int(f) if f.denominator == 1 else _np.float64(f.numerator) / _np.float64(f.denominator)
    if t == 'pi':
        return _np.float64(math.pi)
    if t == 'inf':
        return _np.float64(math.inf)
    if t == 'nan':
        return _np.float64(math.nan)
    if t == 'par':
        return _np.float64(env.par[node[1]])
    if t == 'dim':
        dims = getattr(env, 'dims', None)
        if dims is not None:
            return dims[node[1]]
        return env.n if node[1] == 'n' else env.p
    if t == 'bv':
        return bvs[node]
    if t == 'vec':
        return _np.float64(getattr(env, node[1])[int(_ev(node[2], env, bvs))])
    if t == 'mat':
        return _np.float64(getattr(env, node[1])[int(_ev(node[2], env, bvs)), int(_ev(node[3], env, bvs))])
    if t in ('natdiv', 'natmod'):
        a, b = int(_ev(node[1], env, bvs)), int(_ev(node[2], env, bvs))
        return a // b if t == 'natdiv' else a % b
    if t == 'fn':
        return _np.float64(OPAQUE_FNS[node[1]][1](float(_ev(node[2], env, bvs))))
    if t in ARITH:
        a, b = _ev(node[1], env, bvs), _ev(node[2], env, bvs)
        if t == 'add':
            return a + b
        if t == 'sub':
            return a - b
        if t == 'mul':
            return a * b
        return _np.float64(a) / _np.float64(b)
    if t == 'neg':
        return -_ev(node[1], env, bvs)
    if t == 'pow':
        a = _ev(node[1], env, bvs)
        return a ** node[2] if node[2] >= 0 else _np.float64(a) ** node[2]
    if t in ('log', 'exp', 'sqrt', 'abs'):
        return getattr(_np, t)(_np.float64(_ev(node[1], env, bvs)))
    if t in ('sum', 'any', 'all'):
        cnt = int(_ev(node[2], env, bvs))
        acc = 0 if t == 'sum' else (t == 'all')
        for i in range(cnt):
            b2 = dict(bvs)
            b2[node[1]] = i
            v = _ev(node[3], env, b2)
            if t == 'sum':
                acc = acc + v
            elif t == 'any':
                acc = acc or bool(v)
            else:
                acc = acc and bool(v)
        return acc
    if t == 'true':
        return True
    if t == 'false':
        return False
    if t in CMP:
        a, b = _ev(node[1], env, bvs), _ev(node[2], env, bvs)
        return bool({'le': a <= b, 'lt': a < b, 'eq': a == b, 'ne': a != b}[t])
    if t == 'and':
        return bool(_ev(node[1], env, bvs)) and bool(_ev(node[2], env, bvs))
    if t == 'or':
        return bool(_ev(node[1], env, bvs)) or bool(_ev(node[2], env, bvs))
    if t == 'not':
        return not bool(_ev(node[1], env, bvs))
    if t == 'opaque':
        return bool(getattr(_np, node[1])(_np.float64(_ev(node[2], env, bvs))))
    raise Untraceable('cannot evaluate node %r' % (t,))


# ----------------------------------------------------------------------------------------------------------
# symbolic arrays
# ----------------------------------------------------------------------------------------------------------
class Trace:
    """state of one kernel trace"""
    current = None

    def __init__(self, env, forced=None):
        self.env = env
        self.forced = forced or {}    # raw guard node -> value to take instead of the witness's (side exploration)
        self.guards = []          # [(leave_condition_node, lineno, function_name, raw_node, value_taken)]

    def decide(self, node):
        if node in self.forced:
            return self.forced[node]
        return bool(evaluate(node, self.env))

    def record(self, node, value, frame):
        cond = node if not value else negate(node)
        for c in _split_or(cond):
            if c in (TRUE, FALSE):
                continue
            if all(c != g[0] for g in self.guards):
                self.guards.append((c, frame.f_lineno if frame else 0, frame.f_code.co_name if frame else '?',
                                    node, value))


def _split_or(c):
    if c[0] == 'or':
        return _split_or(c[1]) + _split_or(c[2])
    return [c]


def _same_dim(a, b):
    if isinstance(a, int) != isinstance(b, int):
        return False
    if a == b:
        return True
    return (not isinstance(a, int)) and nat_poly(a) == nat_poly(b)


class DimInt(int):
    """a Python int (the witness value) that stands for a symbolic extent — what a model object stores as
    `self._n_dim`: sequence repetition, `range`, `%d` formatting see the int; arithmetic with numbers, array
    extents and comparisons inside a trace see the symbol"""

    def __new__(cls, value, node):
        self = int.__new__(cls, value)
        self.node = node
        return self

    def _sym(self):
        return Sym((), lambda idx, nd=self.node: nd, 'nat')

    def _num(self, o):
        return isinstance(o, (Sym, int, float, _np.integer, _np.floating)) and not isinstance(o, bool)

    def __add__(self, o):
        return self._sym() + o if self._num(o) else NotImplemented

    def __radd__(self, o):
        return o + self._sym() if self._num(o) else NotImplemented

    def __sub__(self, o):
        return self._sym() - o if self._num(o) else NotImplemented

    def __rsub__(self, o):
        return o - self._sym() if self._num(o) else NotImplemented

    def __mul__(self, o):
        return self._sym() * o if self._num(o) else NotImplemented

    def __rmul__(self, o):
        return o * self._sym() if self._num(o) else NotImplemented

    def __truediv__(self, o):
        return self._sym() / o if self._num(o) else NotImplemented

    def __rtruediv__(self, o):
        return o / self._sym() if self._num(o) else NotImplemented

    def __floordiv__(self, o):
        return self._sym() // o if self._num(o) else NotImplemented

    def __rfloordiv__(self, o):
        return lift(o) // self._sym() if self._num(o) else NotImplemented

    def __neg__(self):
        return -self._sym()

    def __pow__(self, o):
        return self._sym() ** o

    def _cmp(self, op, o):
        if Trace.current is None or not self._num(o):
            return getattr(int, '__%s__' % op)(self, o)
        a, b = self._sym(), o
        return {'lt': lambda: a < b, 'le': lambda: a <= b, 'gt': lambda: a > b, 'ge': lambda: a >= b,
                'eq': lambda: a == b, 'ne': lambda: a != b}[op]()

    def __lt__(self, o):
        return self._cmp('lt', o)

    def __le__(self, o):
        return self._cmp('le', o)

    def __gt__(self, o):
        return self._cmp('gt', o)

    def __ge__(self, o):
        return self._cmp('ge', o)

    def __eq__(self, o):
        return self._cmp('eq', o)

    def __ne__(self, o):
        return self._cmp('ne', o)

    __hash__ = int.__hash__


def _as_dim(x):
    """int, or a node for a symbolic extent"""
    if isinstance(x, DimInt):
        return x.node
    if isinstance(x, Sym):
        if x.shape != () or x.kind != 'nat':
            raise Untraceable('array extent is not a whole-number scalar')
        nd = x.fn(())
        if nd[0] == 'const':
            return int(nd[1])
        return nd
    if isinstance(x, (int, _np.integer)) and not isinstance(x, bool):
        return int(x)
    raise Untraceable('array extent of type %s' % type(x).__name__)


def _dim_node(d):
    return K(d) if isinstance(d, int) else d


def _dim_sym(d):
    return d if isinstance(d, int) else Sym((), lambda idx, d=d: d, 'nat')


def _nat_scalars(a, b):
    """the nodes of two whole-number scalars, else None"""
    try:
        a, b = lift(a), lift(b)
    except Untraceable:
        return None
    if a.shape_ == () and b.shape_ == () and a.kind == 'nat' and b.kind == 'nat' and a.parts is None \
            and b.parts is None:
        return a.fn(()), b.fn(())
    return None


class Sym(object):
    """a symbolic scalar (shape ()) or array; `fn(index_nodes) -> node`; `parts`: a 1-d concatenation"""
    __array_ufunc__ = None
    __array_priority__ = 1000.0
    __hash__ = None

    def __init__(self, shape, fn, kind='real', parts=None, owner=False):
        self.shape_ = tuple(shape)
        self.fn = fn
        self.kind = kind
        self.parts = parts
        self.owner = owner        # a freshly allocated array (np.empty / zeros / ...): item assignment is modelled

    # -- numpy-like attributes
    @property
    def shape(self):
        return tuple(_dim_sym(d) for d in self.shape_)

    @property
    def ndim(self):
        return len(self.shape_)

    @property
    def size(self):
        out = 1
        for d in self.shape:
            out = out * d
        return out

    @property
    def T(self):
        return self.transpose()

    @property
    def dtype(self):
        return {'real': SymFloat, 'bool': bool, 'nat': int}[self.kind]

    def transpose(self, *axes):
        self._noparts('transpose')
        if axes and axes != (None,):
            raise Untraceable('transpose with explicit axes')
        return Sym(self.shape_[::-1], lambda idx: self.fn(tuple(idx[::-1])), self.kind)

    def astype(self, *a, **k):
        return self

    def copy(self, *a, **k):
        if self.parts is not None:
            return self
        f = self.fn
        return Sym(self.shape_, lambda idx: f(idx), self.kind, owner=True)

    def item(self):
        return self._scalar('item()')

    def __array__(self, *a, **k):
        raise Untraceable('a symbolic array reached the real numpy (code outside chi/_error_models.py?)')

    def __len__(self):
        if not self.shape_:
            raise TypeError('len() of unsized object')
        if isinstance(self.shape_[0], int):
            return self.shape_[0]
        raise Untraceable('builtin len() of a symbolic-length array outside the patched module')

    def __iter__(self):
        if not self.shape_:
            raise TypeError('iteration over a 0-d array')
        if not isinstance(self.shape_[0], int):
            raise Untraceable('Python-level iteration over a symbolic-length array')
        return iter([self[i] for i in range(self.shape_[0])])

    def _noparts(self, what):
        if self.parts is not None:
            raise Untraceable('%s of a concatenated vector' % what)

    def _scalar(self, what='scalar use'):
        """the single entry of a size-1 array"""
        self._noparts(what)
        if any(not (isinstance(d, int) and d == 1) for d in self.shape_):
            raise Untraceable('%s of an array of shape %s' % (what, shape_text(self.shape_)))
        return Sym((), lambda idx: self.fn(tuple(ZERO for _ in self.shape_)), self.kind)

    @property
    def node(self):
        return self._scalar().fn(())

    # -- truth value = a guard
    def __bool__(self):
        s = self._scalar('truth value')
        nd = s.fn(())
        if s.kind != 'bool':
            nd = ('ne', nd, ZERO)
        if nd == TRUE:
            return True
        if nd == FALSE:
            return False
        tr = Trace.current
        if tr is None:
            raise Untraceable('truth value of a symbolic expression outside a trace')
        val = tr.decide(nd)
        tr.record(nd, val, sys._getframe(1))
        return val

    def __float__(self):
        raise Untraceable('float() of a symbolic value outside the patched module')

    def __int__(self):
        raise Untraceable('int() of a symbolic value')

    def __index__(self):
        raise Untraceable('a symbolic value used as a Python index / range bound')

    # -- arithmetic
    def __add__(self, o):
        return ew('add', self, o)

    def __radd__(self, o):
        return ew('add', o, self)

    def __sub__(self, o):
        return ew('sub', self, o)

    def __rsub__(self, o):
        return ew('sub', o, self)

    def __mul__(self, o):
        return ew('mul', self, o)

    def __rmul__(self, o):
        return ew('mul', o, self)

    def __truediv__(self, o):
        return ew('div', self, o)

    def __rtruediv__(self, o):
        return ew('div', o, self)

    def __floordiv__(self, o):
        ab = _nat_scalars(self, o)
        if ab is None:
            raise Untraceable('floor division of values that are not whole-number scalars')
        nd = nat_floordiv(*ab)
        return Sym((), lambda idx: nd, 'nat')

    def __rfloordiv__(self, o):
        return lift(o).__floordiv__(self)

    def __mod__(self, o):
        ab = _nat_scalars(self, o)
        if ab is None:
            raise Untraceable('remainder of values that are not whole-number scalars')
        nd = nat_mod(*ab)
        return Sym((), lambda idx: nd, 'nat')

    def __rmod__(self, o):
        return lift(o).__mod__(self)

    def __neg__(self):
        return ew('neg', self)

    def __pos__(self):
        return self

    def __abs__(self):
        return ew('abs', self)

    def __pow__(self, o):
        return sym_power(self, o)

    def __rpow__(self, o):
        raise Untraceable('a symbolic exponent')

    def __matmul__(self, o):
        return sym_dot(self, o)

    def __rmatmul__(self, o):
        return sym_dot(o, self)

    def __le__(self, o):
        return ew('le', self, o)

    def __lt__(self, o):
        return ew('lt', self, o)

    def __ge__(self, o):
        return ew('le', o, self)

    def __gt__(self, o):
        return ew('lt', o, self)

    def __eq__(self, o):
        return ew('eq', self, o)

    def __ne__(self, o):
        return ew('ne', self, o)

    def __and__(self, o):
        return ew('and', self, o)

    def __rand__(self, o):
        return ew('and', o, self)

    def __or__(self, o):
        return ew('or', self, o)

    def __ror__(self, o):
        return ew('or', o, self)

    def __invert__(self):
        return ew('not', self)

    # -- reductions
    def sum(self, axis=None, keepdims=False, **kw):
        return reduce_(self, 'sum', axis, keepdims)

    def any(self, axis=None, keepdims=False, **kw):
        return reduce_(self, 'any', axis, keepdims)

    def all(self, axis=None, keepdims=False, **kw):
        return reduce_(self, 'all', axis, keepdims)

    def mean(self, axis=None, keepdims=False, **kw):
        return sym_mean(self, axis, keepdims)

    def dot(self, o):
        return sym_dot(self, o)

    # -- shape manipulation
    def reshape(self, *shape, **kw):
        if len(shape) == 1 and isinstance(shape[0], (tuple, list)):
            shape = tuple(shape[0])
        return sym_reshape(self, shape)

    def flatten(self, *a, **k):
        return sym_reshape(self, (-1,))

    def ravel(self, *a, **k):
        return sym_reshape(self, (-1,))

    def squeeze(self, axis=None):
        self._noparts('squeeze')
        if axis is not None:
            raise Untraceable('squeeze(axis)')
        keep = [i for i, d in enumerate(self.shape_) if not (isinstance(d, int) and d == 1)]

        def fn(idx):
            full = [ZERO] * len(self.shape_)
            for pos, i in enumerate(keep):
                full[i] = idx[pos]
            return self.fn(tuple(full))
        return Sym([self.shape_[i] for i in keep], fn, self.kind)

    def __getitem__(self, key):
        return sym_getitem(self, key)

    def __setitem__(self, key, value):
        sym_setitem(self, key, value)


def shape_text(shape):
    return '(' + ', '.join(str(d) if isinstance(d, int) else nat_text(d) for d in shape) + ')'


def nat_text(d):
    try:
        return emit_nat(d, {})
    except Untraceable:
        return '?'


def lift(x):
    if isinstance(x, Sym):
        return x
    if isinstance(x, DimInt):
        return x._sym()
    if isinstance(x, (bool, _np.bool_)):
        nd = TRUE if x else FALSE
        return Sym((), lambda idx: nd, 'bool')
    if isinstance(x, (int, _np.integer)):
        nd = K(int(x))
        return Sym((), lambda idx: nd, 'nat')
    if isinstance(x, (float, _np.floating)):
        nd = const_node(x)
        return Sym((), lambda idx: nd, 'real')
    if isinstance(x, _np.ndarray):
        x = x.tolist()
    if isinstance(x, (list, tuple)):
        items = [lift(v) for v in x]
        if not items:
            return Sym((0,), lambda idx: ZERO, 'real')
        shp = items[0].shape_
        for it in items:
            it._noparts('stacking')
            if len(it.shape_) != len(shp) or any(not _same_dim(a, b) for a, b in zip(it.shape_, shp)):
                raise Untraceable('stacking arrays of different shapes')
        kind = _join_kind([it.kind for it in items])
        fns = [it.fn for it in items]

        def fn(idx):
            i = idx[0]
            if i[0] != 'const':
                raise Untraceable('symbolic index into a stacked list')
            return fns[int(i[1])](tuple(idx[1:]))
        return Sym((len(items),) + tuple(shp), fn, kind)
    raise Untraceable('value of type %s in an arithmetic expression' % type(x).__name__)


def _join_kind(kinds):
    if all(k == 'bool' for k in kinds):
        return 'bool'
    if all(k == 'nat' for k in kinds):
        return 'nat'
    return 'real'


def _bshape(shapes):
    r = max(len(s) for s in shapes)
    out = []
    for pos in range(r):
        d = 1
        for s in shapes:
            k = pos - (r - len(s))
            if k < 0:
                continue
            e = s[k]
            if isinstance(d, int) and d == 1:
                d = e
            elif isinstance(e, int) and e == 1:
                pass
            elif not _same_dim(d, e):
                raise Untraceable('operands of shapes %s do not broadcast'
                                  % ' and '.join(shape_text(s) for s in shapes))
        out.append(d)
    return tuple(out)


def _pick(s, idx, r):
    """index tuple of operand `s` for the broadcast index `idx` (rank r)"""
    off = r - len(s.shape_)
    return tuple(ZERO if (isinstance(d, int) and d == 1) else idx[off + k] for k, d in enumerate(s.shape_))


_RESULT_KIND = {'le': 'bool', 'lt': 'bool', 'eq': 'bool', 'ne': 'bool', 'and': 'bool', 'or': 'bool',
                'not': 'bool', 'div': 'real', 'log': 'real', 'exp': 'real', 'sqrt': 'real'}


def ew(op, *args):
    """elementwise operation with broadcasting"""
    try:
        syms = [lift(a) for a in args]
    except Untraceable:
        raise
    if any(s.parts is not None for s in syms):
        # a concatenated vector combined with scalars: part by part
        if all(s.parts is not None or s.shape_ == () for s in syms) and sum(s.parts is not None for s in syms) == 1:
            c = [s for s in syms if s.parts is not None][0]
            new = [ew(op, *[(pt if s is c else s) for s in syms]) for pt in c.parts]
            return concat(new)
        raise Untraceable('arithmetic between a concatenated vector and another array')
    if op in ('eq', 'ne') and len(syms) == 2 and all(s.shape_ == () for s in syms):
        # whole-number extents compared with themselves: decided, not a guard
        a, b = syms[0].fn(()), syms[1].fn(())
        if syms[0].kind == 'nat' and syms[1].kind == 'nat' and (a == b or nat_poly(a) == nat_poly(b)):
            nd = TRUE if op == 'eq' else FALSE
            return Sym((), lambda idx: nd, 'bool')
    shp = _bshape([s.shape_ for s in syms])
    r = len(shp)
    kind = _RESULT_KIND.get(op) or _join_kind([s.kind for s in syms])
    if op in ('and', 'or', 'not') and any(s.kind != 'bool' for s in syms):
        raise Untraceable('logical operator on non-boolean values')
    fns = [s.fn for s in syms]       # values, not views: a later item assignment into an operand does not show
    if op.startswith('opaque:'):
        name = op.split(':')[1]
        return Sym(shp, lambda idx: ('opaque', name, fns[0](_pick(syms[0], idx, r))), 'bool')
    if op.startswith('fn:'):
        name = op.split(':')[1]
        return Sym(shp, lambda idx: ('fn', name, fns[0](_pick(syms[0], idx, r))), 'real')

    def fn(idx):
        return (op,) + tuple(f(_pick(s, idx, r)) for f, s in zip(fns, syms))
    return Sym(shp, fn, kind)


def sym_power(a, k):
    a = lift(a)
    if isinstance(k, Sym):
        k = k._scalar('exponent')
        nd = k.fn(())
        if nd[0] != 'const':
            raise Untraceable('a symbolic exponent')
        k = nd[1]
    if isinstance(k, (float, _np.floating, Fraction)):
        if Fraction(k) == Fraction(1, 2):
            return ew('sqrt', a)
        if Fraction(k).denominator != 1:
            raise Untraceable('non-integer power %r' % (k,))
        k = int(Fraction(k))
    if not isinstance(k, (int, _np.integer)) or isinstance(k, bool):
        raise Untraceable('power with exponent of type %s' % type(k).__name__)
    k = int(k)
    if abs(k) > 6:
        raise Untraceable('power %d' % k)
    if a.parts is not None:
        return concat([sym_power(pt, k) for pt in a.parts])
    kind = a.kind if (k >= 0 and a.kind == 'nat') else 'real'
    f = a.fn
    return Sym(a.shape_, lambda idx: ('pow', f(idx), k), kind)


def _axes(s, axis):
    if axis is None:
        return list(range(len(s.shape_)))
    if isinstance(axis, (int, _np.integer)):
        axis = (int(axis),)
    out = []
    for a in axis:
        a = int(a)
        if a < 0:
            a += len(s.shape_)
        if not 0 <= a < len(s.shape_):
            raise Untraceable('axis %d out of range for shape %s' % (a, shape_text(s.shape_)))
        out.append(a)
    return sorted(set(out))


def _reduce_axis(s, how, ax, keep):
    d = s.shape_[ax]
    if how in ('any', 'all') and s.kind != 'bool':
        s = ew('ne', s, 0)

    def put(idx, i):
        idx = list(idx)
        if keep:
            idx[ax] = i
        else:
            idx.insert(ax, i)
        return tuple(idx)
    f = s.fn
    if isinstance(d, int):
        def fn(idx):
            if d == 0:
                return ZERO if how == 'sum' else (FALSE if how == 'any' else TRUE)
            acc = f(put(idx, K(0)))
            for i in range(1, d):
                acc = ({'sum': 'add', 'any': 'or', 'all': 'and'}[how], acc, f(put(idx, K(i))))
            return acc
    else:
        def fn(idx):
            bv, body = bind(dim_label(d), lambda i: f(put(idx, i)), extent=d)
            return (how, bv, d, body)
    shp = list(s.shape_)
    if keep:
        shp[ax] = 1
    else:
        del shp[ax]
    return Sym(shp, fn, 'bool' if how != 'sum' else ('nat' if s.kind == 'nat' else 'real'))


def reduce_(x, how, axis=None, keepdims=False):
    s = lift(x)
    if s.parts is not None:
        if axis not in (None, 0, -1):
            raise Untraceable('reduction of a concatenated vector along axis %r' % (axis,))
        tot = None
        for pt in s.parts:
            r = reduce_(pt, how, None, False)
            tot = r if tot is None else ew({'sum': 'add', 'any': 'or', 'all': 'and'}[how], tot, r)
        return tot
    if s.kind == 'bool' and how == 'sum':
        raise Untraceable('sum of booleans')
    for ax in reversed(_axes(s, axis)):
        s = _reduce_axis(s, how, ax, keepdims)
    return s


def _count(s, axes):
    out = 1
    for a in axes:
        out = out * _dim_sym(s.shape_[a])
    return out


def sym_mean(x, axis=None, keepdims=False):
    s = lift(x)
    s._noparts('mean')
    return reduce_(s, 'sum', axis, keepdims) / _count(s, _axes(s, axis))


def sym_dot(a, b):
    a, b = lift(a), lift(b)
    a._noparts('dot')
    b._noparts('dot')
    if len(a.shape_) == 0 or len(b.shape_) == 0:
        return a * b
    if len(b.shape_) == 1:
        return reduce_(a * b, 'sum', -1)
    if len(a.shape_) == 1 and len(b.shape_) == 2:
        return reduce_(sym_reshape(a, (-1, 1)) * b, 'sum', 0)
    if len(a.shape_) == 2 and len(b.shape_) == 2:
        a3 = Sym(a.shape_ + (1,), lambda idx: a.fn((idx[0], idx[1])), a.kind)
        b3 = Sym((1,) + b.shape_, lambda idx: b.fn((idx[1], idx[2])), b.kind)
        return reduce_(a3 * b3, 'sum', 1)
    raise Untraceable('dot of arrays with more than two axes')


def _prod_poly(dims):
    out = {(): Fraction(1)}
    for d in dims:
        out = nat_poly(('mul', poly_node(out), _dim_node(d)))
    return out


def _general_reshape(s, shape):
    """C-order reshape that splits / merges axes, by flat-index arithmetic (`nat_divmod`)"""
    new = []
    for d in shape:
        if isinstance(d, (int, _np.integer)) and not isinstance(d, DimInt) and int(d) == -1:
            new.append(-1)
        else:
            new.append(_as_dim(d))
    total = _prod_poly(s.shape_)
    if new.count(-1) > 1:
        raise Untraceable('reshape with more than one -1')
    if -1 in new:
        known = poly_node(_prod_poly([d for d in new if not (isinstance(d, int) and d == -1)]))
        qr = nat_divmod(poly_node(total), known)
        if qr is None or qr[1] != ZERO:
            raise Untraceable('reshape %s -> %r: the free extent cannot be inferred' % (shape_text(s.shape_), shape))
        q = qr[0]
        new[new.index(-1)] = int(q[1]) if q[0] == 'const' else q
    if _prod_poly(new) != total:
        raise Untraceable('reshape %s -> %s changes the number of entries' % (shape_text(s.shape_), shape_text(new)))
    strides = [poly_node(_prod_poly(new[j + 1:])) for j in range(len(new))]
    old = list(s.shape_)

    def fn(idx):
        flat = ZERO
        for i, st in zip(idx, strides):
            flat = ('add', flat, ('mul', i, st))
        flat = nat_canon(flat)
        out = []
        for ax in range(len(old) - 1, -1, -1):
            if ax == 0:
                out.append(flat)
            else:
                o = _dim_node(old[ax])
                out.append(nat_mod(flat, o))
                flat = nat_floordiv(flat, o)
        return s.fn(tuple(reversed(out)))
    return Sym(new, fn, s.kind)


def sym_reshape(x, shape):
    s = lift(x)
    s._noparts('reshape')
    try:
        return _unit_axes_reshape(s, shape)
    except Untraceable:
        return _general_reshape(s, shape)


def _unit_axes_reshape(s, shape):
    new = []
    for d in shape:
        if isinstance(d, (int, _np.integer)) and int(d) == -1:
            new.append(-1)
        else:
            new.append(_as_dim(d))

    def non1(sh):
        return [(i, d) for i, d in enumerate(sh) if not (isinstance(d, int) and d == 1)]
    old_n1 = non1(s.shape_)
    new_n1 = [(i, d) for i, d in non1(new) if not (isinstance(d, int) and d == -1)]
    if -1 in new:
        if new.count(-1) > 1:
            raise Untraceable('reshape with more than one -1')
        pos = new.index(-1)
        rest = [d for _, d in old_n1]
        for _, d in new_n1:
            hit = [i for i, e in enumerate(rest) if _same_dim(e, d)]
            if not hit:
                raise Untraceable('reshape %s -> %r' % (shape_text(s.shape_), shape))
            del rest[hit[0]]
        if len(rest) > 1:
            raise Untraceable('reshape that merges axes (%s)' % shape_text(s.shape_))
        new[pos] = rest[0] if rest else 1
    new_n1 = non1(new)
    if len(old_n1) != len(new_n1) or any(not _same_dim(a[1], b[1]) for a, b in zip(old_n1, new_n1)):
        raise Untraceable('reshape %s -> %s is not a relabelling of unit axes'
                          % (shape_text(s.shape_), shape_text(new)))
    old_pos = {oi: ni for (oi, _), (ni, _) in zip(old_n1, new_n1)}

    def fn(idx):
        return s.fn(tuple(idx[old_pos[i]] if i in old_pos else ZERO for i in range(len(s.shape_))))
    return Sym(new, fn, s.kind)


def sym_getitem(s, key):
    if not isinstance(key, tuple):
        key = (key,)
    if s.parts is not None:
        if len(key) == 1 and isinstance(key[0], (int, _np.integer)):
            i = int(key[0])
            parts = s.parts if i >= 0 else s.parts[::-1]
            j = i if i >= 0 else -i - 1
            for pt in parts:
                d = pt.shape_[0]
                if not isinstance(d, int):
                    raise Untraceable('constant index into a concatenation past a symbolic-length part')
                if j < d:
                    return pt[j if i >= 0 else d - 1 - j]
                j -= d
            raise Untraceable('index out of range')
        raise Untraceable('this kind of indexing of a concatenated vector')
    plan, new_shape = _index_plan(s, key)

    def fn(idx):
        full = []
        for pl in plan:
            if pl[0] == 'fix':
                full.append(pl[1])
            elif pl[0] == 'shift':
                full.append(nat_canon(('add', pl[2], idx[pl[1]])))
            else:
                i = idx[pl[1]]
                if (pl[2], pl[3]) != (0, 1):
                    if i[0] != 'const':
                        raise Untraceable('symbolic index into a sliced axis')
                    i = K(pl[2] + pl[3] * int(i[1]))
                full.append(i)
        return s.fn(tuple(full))
    return Sym(new_shape, fn, s.kind)


def _slice_bound(v, default):
    if v is None:
        return default
    if isinstance(v, DimInt):
        return v.node
    if isinstance(v, Sym):
        v0 = v._scalar('slice bound')
        if v0.kind != 'nat':
            raise Untraceable('a slice bound that is not a whole number')
        return v0.fn(())
    if isinstance(v, (int, _np.integer)) and not isinstance(v, bool) and int(v) >= 0:
        return K(int(v))
    raise Untraceable('slice bound %r of a symbolic-length axis' % (v,))


def _poly_sub(a, b):
    """a - b as a polynomial with non-negative coefficients, else None"""
    out = dict(nat_poly(a))
    for mono, c in nat_poly(b).items():
        out[mono] = out.get(mono, 0) - c
        if out[mono] == 0:
            del out[mono]
    if any(c < 0 for c in out.values()):
        return None
    return out


def _symbolic_slice(k, d):
    """`a[start:stop]` (step 1) of an axis of extent `d`, bounds built from the extents (`x[:n_dim]`, `x[n_dim:]`):
    -> (start node, length as int / node); the bounds must visibly satisfy start <= stop <= d"""
    if k.step not in (None, 1):
        raise Untraceable('a strided slice of a symbolic-length axis')
    dn = _dim_node(d)
    start, stop = _slice_bound(k.start, ZERO), _slice_bound(k.stop, dn)
    length, room = _poly_sub(stop, start), _poly_sub(dn, stop)
    if length is None or room is None:
        raise Untraceable('a partial slice of a symbolic-length axis whose bounds are not visibly ordered')
    ln = poly_node(length)
    return nat_canon(start), (int(ln[1]) if ln[0] == 'const' else ln)


def _index_plan(s, key):
    """-> (per OLD axis: ('fix', node) | ('keep', new_axis, start, step), shape of the selection)"""
    # expand Ellipsis
    n_real = sum(1 for k in key if k is not None and k is not Ellipsis)
    if any(k is Ellipsis for k in key):
        pos = [i for i, k in enumerate(key) if k is Ellipsis][0]
        key = key[:pos] + (slice(None),) * (len(s.shape_) - n_real) + key[pos + 1:]
    if n_real > len(s.shape_):
        raise Untraceable('too many indices for shape %s' % shape_text(s.shape_))
    key = key + (slice(None),) * (len(s.shape_) - n_real)
    plan = []      # per OLD axis: ('fix', node) | ('keep', new_axis, start, step)
    new_shape = []
    ax = 0
    for k in key:
        if k is None:
            new_shape.append(1)
            continue
        d = s.shape_[ax]
        if isinstance(k, Sym):
            k0 = k._scalar('index')
            if k0.kind != 'nat':
                raise Untraceable('a non-integer symbolic index')
            plan.append(('fix', k0.fn(())))
        elif isinstance(k, (int, _np.integer)) and not isinstance(k, bool):
            k = int(k)
            if isinstance(d, int):
                if not -d <= k < d:
                    raise Untraceable('index %d out of range for axis of length %d' % (k, d))
                plan.append(('fix', K(k % d)))
            else:
                if k < 0:
                    raise Untraceable('negative index into a symbolic-length axis')
                plan.append(('fix', K(k)))
        elif isinstance(k, slice):
            if k == slice(None):
                plan.append(('keep', len(new_shape), 0, 1))
                new_shape.append(d)
            elif isinstance(d, int) and all(v is None or (isinstance(v, (int, _np.integer)) and not isinstance(v, DimInt))
                                            for v in (k.start, k.stop, k.step)):
                rg = range(*k.indices(d))
                plan.append(('keep', len(new_shape), rg.start, rg.step))
                new_shape.append(len(rg))
            else:
                start, length = _symbolic_slice(k, d)
                plan.append(('shift', len(new_shape), start))
                new_shape.append(length)
        else:
            raise Untraceable('index of type %s' % type(k).__name__)
        ax += 1
    return plan, new_shape


def sym_setitem(s, key, value):
    """`a[key] = value` for a freshly allocated array and keys made of `:`, constant slices and constant /
    symbolic single indices (`dtheta[:, 0] = dmus`): the array's entries become a case distinction on the
    constant positions"""
    if s.parts is not None or not s.owner:
        raise Untraceable('item assignment into an array that was not freshly allocated (an argument or a view)')
    if not isinstance(key, tuple):
        key = (key,)
    if any(isinstance(k, Sym) and (k.kind == 'bool' or k.shape_ != ()) for k in key):
        raise Untraceable('item assignment through a mask / index array')
    plan, new_shape = _index_plan(s, key)
    if any(pl[0] == 'shift' for pl in plan):
        raise Untraceable('item assignment into a slice with symbolic bounds')
    val = lift(value)
    val._noparts('item assignment')
    b = _bshape([tuple(new_shape), val.shape_])
    if len(b) != len(new_shape) or not all(_same_dim(x, y) for x, y in zip(b, new_shape)):
        raise Untraceable('item assignment: value of shape %s into a selection of shape %s'
                          % (shape_text(val.shape_), shape_text(new_shape)))
    vf, old, r = val.fn, s.fn, len(new_shape)
    lengths = list(new_shape)

    def fn(idx):
        sub = [None] * r
        for ax, pl in enumerate(plan):
            i = idx[ax]
            if pl[0] == 'fix':
                if i == pl[1]:
                    continue
                if i[0] != 'const' or pl[1][0] != 'const':
                    raise Untraceable('symbolic index into an array assembled by item assignment')
                return old(idx)
            if (pl[2], pl[3]) == (0, 1) and not isinstance(lengths[pl[1]], int):
                sub[pl[1]] = i
                continue
            if (pl[2], pl[3]) == (0, 1) and _same_dim(lengths[pl[1]], s.shape_[ax]):
                sub[pl[1]] = i
                continue
            if i[0] != 'const':
                raise Untraceable('symbolic index into an axis that was assigned slice by slice')
            off = int(i[1]) - pl[2]
            if off % pl[3] != 0 or not 0 <= off // pl[3] < lengths[pl[1]]:
                return old(idx)
            sub[pl[1]] = K(off // pl[3])
        return vf(_pick(val, tuple(sub), r))
    s.fn = fn
    if val.kind == 'real':
        s.kind = 'real'


def concat(parts):
    parts = [lift(p) for p in parts]
    flat = []
    for p in parts:
        if p.parts is not None:
            flat.extend(p.parts)
            continue
        if len(p.shape_) != 1:
            raise Untraceable('concatenation of arrays of shape %s' % shape_text(p.shape_))
        flat.append(p)
    tot = 0
    for p in flat:
        tot = tot + _dim_sym(p.shape_[0])
    return Sym((_as_dim(tot),), None, _join_kind([p.kind for p in flat]), parts=flat)


def full(shape, value, **kw):
    if isinstance(shape, (tuple, list)):
        shp = tuple(_as_dim(d) for d in shape)
    else:
        shp = (_as_dim(shape),)
    v = lift(value)._scalar('fill value')
    nd = v.fn(())
    return Sym(shp, lambda idx: nd, v.kind if v.kind != 'nat' else 'real', owner=True)


def empty(shape):
    if isinstance(shape, (tuple, list)):
        shp = tuple(_as_dim(d) for d in shape)
    else:
        shp = (_as_dim(shape),)
    return Sym(shp, lambda idx: ('uninit',), 'real', owner=True)


def broadcast_to(x, shape):
    s = lift(x)
    s._noparts('broadcast_to')
    shp = tuple(_as_dim(d) for d in (shape if isinstance(shape, (tuple, list)) else (shape,)))
    full_shape = _bshape([shp, s.shape_])
    if len(full_shape) != len(shp) or not all(_same_dim(a, b) for a, b in zip(full_shape, shp)):
        raise Untraceable('broadcast_to %s -> %s' % (shape_text(s.shape_), shape_text(shp)))
    r = len(shp)
    return Sym(shp, lambda idx: s.fn(_pick(s, idx, r)), s.kind)


# ----------------------------------------------------------------------------------------------------------
# the symbolic `np` and builtins
# ----------------------------------------------------------------------------------------------------------
class _FloatMeta(type):
    def __instancecheck__(cls, x):
        return isinstance(x, float)

    def __call__(cls, x=0.0):
        return x if isinstance(x, Sym) else float(x)


class SymFloat(metaclass=_FloatMeta):
    """`float` / `np.float64` inside the traced module: the identity on symbols"""


class _IntMeta(type):
    def __instancecheck__(cls, x):
        return isinstance(x, int)

    def __call__(cls, x=0, *a):
        if isinstance(x, DimInt):
            return x
        if isinstance(x, Sym):
            if x.kind == 'nat':
                return x
            raise Untraceable('int() of a symbolic value')
        return int(x, *a)


class SymInt(metaclass=_IntMeta):
    """`int` inside the traced module: the identity on symbolic whole numbers"""


def sym_range(*args):
    if any(isinstance(a, (DimInt, Sym)) for a in args):
        if Trace.current is not None:
            raise Untraceable('Python-level loop over a symbolic extent')
        args = [int.__index__(a) if isinstance(a, DimInt) else a for a in args]
    return builtins.range(*args)


def _sym_unary(name, real_fn):
    def f(x, *a, **k):
        if isinstance(x, Sym):
            return ew('fn:' + name, x)
        return real_fn(x, *a, **k)
    return f


class _ModuleProxy(object):
    """a module some of whose functions are replaced by symbolic ones (`scipy.special.erf`, `scipy.stats.norm`)"""

    def __init__(self, real, over):
        self.__dict__['_real'] = real
        self.__dict__['_over'] = over

    def __getattr__(self, name):
        if name in self._over:
            return self._over[name]
        return getattr(self._real, name)


def _proxy_modules():
    out = {}
    try:
        import scipy.special as sp
        import scipy.stats as st
        out['scipy.special'] = _ModuleProxy(sp, {'erf': _sym_unary('erf', sp.erf)})
        norm = _ModuleProxy(st.norm, {'cdf': _sym_unary('normcdf', st.norm.cdf), 'pdf': _sym_unary('normpdf', st.norm.pdf)})
        out['scipy.stats'] = _ModuleProxy(st, {'norm': norm})
    except Exception:  # noqa
        pass
    return out


class _NoOp(object):
    def __init__(self, *a, **k):
        pass

    def __enter__(self):
        return self

    def __exit__(self, *a):
        return False


class SymNP(object):
    pi = Sym((), lambda idx: ('pi',), 'real')
    inf = Sym((), lambda idx: ('inf',), 'real')
    nan = Sym((), lambda idx: ('nan',), 'real')
    newaxis = None
    ndarray = Sym
    float64 = SymFloat
    float_ = SymFloat
    errstate = _NoOp

    def __getattr__(self, name):
        raise Untraceable('np.%s is not modelled by the tracer' % name)

    # conversion
    def asarray(self, x, dtype=None, **kw):
        return lift(x)
    array = asanyarray = ascontiguousarray = asarray

    def copy(self, x, **kw):
        return lift(x)

    def atleast_1d(self, x):
        s = lift(x)
        return s if s.parts is not None or s.shape_ else sym_reshape(s, (1,))

    def isscalar(self, x):
        return (not isinstance(x, Sym)) and bool(_np.isscalar(x))

    def ndim(self, x):
        return len(lift(x).shape_)

    def shape(self, x):
        return lift(x).shape

    def size(self, x):
        return lift(x).size

    # elementwise
    def log(self, x):
        return ew('log', x)

    def exp(self, x):
        return ew('exp', x)

    def sqrt(self, x):
        return ew('sqrt', x)

    def abs(self, x):
        return ew('abs', x)
    absolute = fabs = abs

    def square(self, x):
        return sym_power(x, 2)

    def power(self, x, k):
        return sym_power(x, k)
    float_power = power

    def negative(self, x):
        return ew('neg', x)

    def reciprocal(self, x):
        return ew('div', 1, x)

    def add(self, a, b):
        return ew('add', a, b)

    def subtract(self, a, b):
        return ew('sub', a, b)

    def multiply(self, a, b):
        return ew('mul', a, b)

    def divide(self, a, b):
        return ew('div', a, b)
    true_divide = divide

    def less_equal(self, a, b):
        return ew('le', a, b)

    def less(self, a, b):
        return ew('lt', a, b)

    def greater_equal(self, a, b):
        return ew('le', b, a)

    def greater(self, a, b):
        return ew('lt', b, a)

    def equal(self, a, b):
        return ew('eq', a, b)

    def not_equal(self, a, b):
        return ew('ne', a, b)

    def logical_or(self, a, b):
        return ew('or', a, b)

    def logical_and(self, a, b):
        return ew('and', a, b)

    def logical_not(self, a):
        return ew('not', a)

    def isnan(self, x):
        return ew('opaque:isnan', x)

    def isinf(self, x):
        return ew('opaque:isinf', x)

    def isfinite(self, x):
        return ew('opaque:isfinite', x)

    # reductions
    def sum(self, x, axis=None, keepdims=False, **kw):
        return reduce_(x, 'sum', axis, keepdims)

    def any(self, x, axis=None, keepdims=False, **kw):
        return reduce_(x, 'any', axis, keepdims)

    def all(self, x, axis=None, keepdims=False, **kw):
        return reduce_(x, 'all', axis, keepdims)

    def mean(self, x, axis=None, keepdims=False, **kw):
        return sym_mean(x, axis, keepdims)

    def dot(self, a, b):
        return sym_dot(a, b)
    matmul = dot

    def inner(self, a, b):
        a, b = lift(a), lift(b)
        if len(a.shape_) <= 1 and len(b.shape_) <= 1:
            return sym_dot(a, b)
        raise Untraceable('np.inner of matrices')

    def vdot(self, a, b):
        return reduce_(ew('mul', sym_reshape(lift(a), (-1,)), sym_reshape(lift(b), (-1,))), 'sum')

    # construction / shape
    def full(self, shape, value, **kw):
        return full(shape, value)

    def zeros(self, shape, **kw):
        return full(shape, 0.0)

    def ones(self, shape, **kw):
        return full(shape, 1.0)

    def empty(self, shape, *a, **kw):
        return empty(shape)

    def empty_like(self, x, *a, **kw):
        return empty(lift(x).shape)

    def broadcast_to(self, x, shape, **kw):
        return broadcast_to(x, shape)

    def floor_divide(self, a, b):
        return lift(a) // b

    def full_like(self, x, value, **kw):
        return full(lift(x).shape, value)

    def zeros_like(self, x, **kw):
        return full(lift(x).shape, 0.0)

    def ones_like(self, x, **kw):
        return full(lift(x).shape, 1.0)

    def concatenate(self, seq, axis=0, **kw):
        if axis not in (0, -1, None):
            raise Untraceable('concatenate along axis %r' % (axis,))
        return concat([self.atleast_1d(x) if axis is None else x for x in seq])

    def stack(self, seq, axis=0, **kw):
        items = [lift(x) for x in seq]
        if not items:
            raise Untraceable('np.stack of nothing')
        shp = items[0].shape_
        for it in items:
            it._noparts('stacking')
            if len(it.shape_) != len(shp) or any(not _same_dim(a, b) for a, b in zip(it.shape_, shp)):
                raise Untraceable('stacking arrays of different shapes')
        ax = int(axis)
        if ax < 0:
            ax += len(shp) + 1
        if not 0 <= ax <= len(shp):
            raise Untraceable('np.stack along axis %r' % (axis,))
        fns = [it.fn for it in items]

        def fn(idx):
            i = idx[ax]
            if i[0] != 'const':
                raise Untraceable('symbolic index into a stacked axis')
            return fns[int(i[1])](tuple(idx[:ax]) + tuple(idx[ax + 1:]))
        return Sym(tuple(shp[:ax]) + (len(items),) + tuple(shp[ax:]), fn, _join_kind([it.kind for it in items]),
                   owner=True)

    def hstack(self, seq):
        return concat([self.atleast_1d(x) for x in seq])

    def append(self, a, b, axis=None):
        return concat([self.atleast_1d(a), self.atleast_1d(b)])

    def reshape(self, x, shape, **kw):
        return lift(x).reshape(shape)

    def ravel(self, x):
        return lift(x).ravel()

    def squeeze(self, x, axis=None):
        return lift(x).squeeze(axis)

    def transpose(self, x, axes=None):
        return lift(x).transpose() if axes is None else lift(x).transpose(axes)

    def expand_dims(self, x, axis):
        s = lift(x)
        ax = int(axis)
        if ax < 0:
            ax += len(s.shape_) + 1
        key = [slice(None)] * len(s.shape_)
        key.insert(ax, None)
        return s[tuple(key)]


def sym_len(x):
    if isinstance(x, Sym):
        if not x.shape_:
            raise TypeError('len() of unsized object')
        return _dim_sym(x.shape_[0])
    return builtins.len(x)


def sym_sum(x, start=0):
    if isinstance(x, Sym):
        if not x.shape_:
            raise TypeError('0-d array is not iterable')
        return reduce_(x, 'sum', 0) + start if start != 0 else reduce_(x, 'sum', 0)
    return builtins.sum(x, start)


def sym_abs(x):
    return ew('abs', x) if isinstance(x, Sym) else builtins.abs(x)


def sym_builtins(np_obj, extended=False):
    b = dict(vars(builtins))
    real_import = builtins.__import__

    proxies = _proxy_modules() if extended else {}

    def imp(name, globals=None, locals=None, fromlist=(), level=0):
        if name == 'numpy' and level == 0:
            return np_obj
        if name.startswith('numpy.'):
            raise Untraceable('import of %s' % name)
        if level == 0 and fromlist and name in proxies:
            return proxies[name]
        return real_import(name, globals, locals, fromlist, level)
    b.update({'__import__': imp, 'len': sym_len, 'float': SymFloat, 'sum': sym_sum, 'abs': sym_abs})
    if extended:
        b.update({'int': SymInt, 'range': sym_range})
    return b


# ----------------------------------------------------------------------------------------------------------
# printing: Lean (over the scalar class) and a readable text for guards
# ----------------------------------------------------------------------------------------------------------
def var_name(bv):
    base = {'n': 'j', 'p': 'k', 'nIds': 'i', 'nDim': 'd'}.get(bv[1], 'i')
    return base if bv[2] == 0 else base + str(bv[2])


def emit_nat(node, _ctx=None):
    t = node[0]
    if t == 'const':
        f = node[1]
        if f.denominator != 1 or f < 0:
            raise Untraceable('index / extent %s is not a natural number' % f)
        return str(int(f))
    if t == 'dim':
        return node[1]
    if t == 'bv':
        return var_name(node)
    if t in ('add', 'mul'):
        return '(%s %s %s)' % (emit_nat(node[1]), '+' if t == 'add' else '*', emit_nat(node[2]))
    if t in ('natdiv', 'natmod'):
        return '(%s %s %s)' % (emit_nat(node[1]), '/' if t == 'natdiv' else '%', emit_nat(node[2]))
    raise Untraceable('index / extent built with %r' % t)


def _par(txt_prec, need):
    txt, prec = txt_prec
    return txt if prec >= need else '(' + txt + ')'


def emit(node):
    """(Lean text, precedence): 100 atom, 99 application, 70 * /, 65 + -"""
    t = node[0]
    if t == 'const':
        f = node[1]
        if f < 0:
            return 'Neg.neg ' + _par(emit(K(-f)), 100), 99
        if f.denominator == 1:
            return 'ofNat %d' % int(f), 99
        return 'ofNat %d / ofNat %d' % (f.numerator, f.denominator), 70
    if t == 'pi':
        return 'pi', 100
    if t == 'par':
        return 'sigma%d' % node[1], 100
    if t in ('dim', 'bv'):
        return 'ofNat ' + emit_nat(node), 99
    if t == 'vec':
        return '%s %s' % (node[1], emit_nat(node[2])), 99
    if t == 'mat':
        return '%s %s %s' % (node[1], emit_nat(node[2]), emit_nat(node[3])), 99
    if t in ARITH:
        prec = 65 if t in ('add', 'sub') else 70
        sym = {'add': '+', 'sub': '-', 'mul': '*', 'div': '/'}[t]
        return '%s %s %s' % (_par(emit(node[1]), prec), sym, _par(emit(node[2]), prec + 1)), prec
    if t == 'neg':
        return 'Neg.neg ' + _par(emit(node[1]), 100), 99
    if t == 'pow':
        k = node[2]
        if k == 0:
            return 'ofNat 1', 99
        base = emit(node[1])
        prod = ' * '.join([_par(base, 70)] + [_par(base, 71)] * (abs(k) - 1))
        if k > 0:
            return (prod, 70) if k > 1 else base
        return 'ofNat 1 / ' + _par((prod, 70 if k < -1 else base[1]), 71), 70
    if t in ('log', 'exp', 'sqrt'):
        return '%s %s' % (t, _par(emit(node[1]), 100)), 99
    if t == 'sum':
        return 'isum %s (fun %s => %s)' % (emit_nat(node[2]), var_name(node[1]), emit(node[3])[0]), 99
    if t == 'fn':
        return '%s %s' % (OPAQUE_FNS[node[1]][0], _par(emit(node[2]), 100)), 99
    if t == 'uninit':
        raise Untraceable('the result reads an entry of an np.empty array that was never assigned')
    if t in ('inf', 'nan'):
        raise Untraceable('the returned expression contains %s on the support side' % t)
    if t == 'abs':
        raise Untraceable('abs() is not part of the scalar class')
    raise Untraceable('cannot print node %r' % (t,))


def show(node):
    """readable text of a node (guards in the evidence and in the generated file's comments)"""
    t = node[0]
    if t == 'const':
        f = node[1]
        return str(int(f)) if f.denominator == 1 else repr(float(f))
    if t in ('pi', 'inf', 'nan', 'true', 'false'):
        return t
    if t == 'par':
        return 'sigma%d' % node[1]
    if t == 'dim':
        return node[1]
    if t == 'bv':
        return var_name(node)
    if t == 'vec':
        return '%s[%s]' % (node[1], show(node[2]))
    if t == 'mat':
        return '%s[%s,%s]' % (node[1], show(node[2]), show(node[3]))
    if t in ARITH or t in CMP or t in ('and', 'or'):
        sym = {'add': '+', 'sub': '-', 'mul': '*', 'div': '/', 'le': '<=', 'lt': '<', 'eq': '==', 'ne': '!=',
               'and': 'and', 'or': 'or'}[t]
        a, b = show(node[1]), show(node[2])
        if t in ARITH or t in ('and', 'or'):
            a = '(' + a + ')' if node[1][0] in ARITH + CMP + ('and', 'or') else a
            b = '(' + b + ')' if node[2][0] in ARITH + CMP + ('and', 'or') else b
        return '%s %s %s' % (a, sym, b)
    if t == 'neg':
        return '-(%s)' % show(node[1])
    if t == 'not':
        return 'not (%s)' % show(node[1])
    if t == 'pow':
        return '(%s)**%d' % (show(node[1]), node[2])
    if t in ('log', 'exp', 'sqrt', 'abs'):
        return '%s(%s)' % (t, show(node[1]))
    if t in ('opaque', 'fn'):
        return '%s(%s)' % (node[1], show(node[2]))
    if t in ('natdiv', 'natmod'):
        return '(%s) %s (%s)' % (show(node[1]), '//' if t == 'natdiv' else '%', show(node[2]))
    if t == 'ph':
        return '_%d' % node[1]
    if t in ('sum', 'any', 'all'):
        return '%s %s<%s: %s' % (t, var_name(node[1]), show(node[2]), show(node[3]))
    return repr(node)


# ----------------------------------------------------------------------------------------------------------
# tracing the kernels
# ----------------------------------------------------------------------------------------------------------
DN, DP = ('dim', 'n'), ('dim', 'p')
OUT_J, OUT_K = ('bv', 'n', 0), ('bv', 'p', 0)
MODELS = [('G', 'GaussianErrorModel', 1, 'gauss'), ('M', 'MultiplicativeGaussianErrorModel', 1, 'mult'),
          ('CM', 'ConstantAndMultiplicativeGaussianErrorModel', 2, 'cm'), ('LN', 'LogNormalErrorModel', 1, 'ln')]
METHODS = {'ll': ('compute_log_likelihood', '_compute_log_likelihood'),
           'pw': ('compute_pointwise_ll', '_compute_pointwise_ll'),
           'sens': ('compute_sensitivities', '_compute_sensitivities')}
_S0 = ('le', ('par', 0), ZERO)
_S1 = ('le', ('par', 1), ZERO)
_YPOS = ('any', ('bv', 'n', 1), DN, ('le', ('vec', 'ybar', ('bv', 'n', 1)), ZERO))
#: the support guards the theorems' hypotheses are the negations of
EXPECTED_GUARDS = {'G': [_S0], 'M': [_S0], 'CM': [_S0, _S1], 'LN': [_S0, _YPOS]}


def kernel_names(m, k):
    return ['%s.ll' % m, '%s.pw' % m, '%s.s1' % m, '%s.dpsi' % m] + ['%s.dsigma%d' % (m, i) for i in range(k)]


def all_kernels():
    out = []
    for m, _, k, _ in MODELS:
        out += kernel_names(m, k)
    return out


def theorem_of(kernel):
    m, what = kernel.split('.')
    pre = {mm: t for mm, _, _, t in MODELS}[m]
    if what.startswith('dsigma'):
        if m == 'CM':
            return 'Tie_cm_dsigma_' + ('base' if what.endswith('0') else 'rel')
        return 'Tie_%s_dsigma' % pre
    return 'Tie_%s_%s' % (pre, {'ll': 'll', 'pw': 'pointwise', 's1': 's1', 'dpsi': 'dpsi'}[what])


def def_name(kernel):
    return 'gen_' + kernel.replace('.', '_')


class KernelTrace(object):
    def __init__(self, kernel):
        self.kernel = kernel
        self.node = None
        self.index = None         # None | OUT_J | OUT_K
        self.guards = []          # [(node, lineno, funcname)]
        self.reason = None        # set when untraceable
        self.nested = []          # [(prefix conditions, guard)] met on the other side of an unexpected guard
        self.route = 'public'

    @property
    def ok(self):
        return self.reason is None and self.node is not None


def witness_env(n=11, p=3, k=2):
    j = _np.arange(n)
    ybar = 1.0 + 0.37 * ((j * 5) % 7) + 0.011 * j
    obs = 0.8 + 0.29 * ((j * 3) % 5) + 0.013 * j
    S = _np.sin(1.0 + _np.arange(n * p)).reshape(n, p)
    return Env(n, p, [0.7, 1.3][:max(k, 1)] + [0.9] * max(0, k - 2), ybar, obs, S)


def sym_inputs(k, column=False):
    params = Sym((k,), lambda idx: _param_node(idx[0]), 'real')
    if column:
        ybar = Sym((DN, 1), lambda idx: ('vec', 'ybar', idx[0]), 'real')
        obs = Sym((DN, 1), lambda idx: ('vec', 'obs', idx[0]), 'real')
    else:
        ybar = Sym((DN,), lambda idx: ('vec', 'ybar', idx[0]), 'real')
        obs = Sym((DN,), lambda idx: ('vec', 'obs', idx[0]), 'real')
    S = Sym((DN, DP), lambda idx: ('mat', 'S', idx[0], idx[1]), 'real')
    return params, ybar, obs, S


def _param_node(i):
    if i[0] != 'const':
        raise Untraceable('symbolic index into the parameter vector')
    return ('par', int(i[1]))


def _to_scalar(x, what):
    s = lift(x)
    if s.kind == 'bool':
        raise Untraceable('%s is a boolean' % what)
    return s._scalar(what).fn(())


def _to_vector(x, dim, out_var, what):
    s = lift(x)
    s._noparts(what)
    s = s.squeeze() if len(s.shape_) != 1 else s
    if len(s.shape_) != 1 or not _same_dim(s.shape_[0], dim):
        raise Untraceable('%s has shape %s, expected (%s,)' % (what, shape_text(s.shape_), nat_text(dim)))
    return s.fn((out_var,))


def _split_gradient(g, k):
    """the gradient vector: one block of symbolic length p, then k entries"""
    s = lift(g)
    if s.parts is None:
        raise Untraceable('the gradient is not assembled by concatenation (shape %s)' % shape_text(s.shape_))
    parts = list(s.parts)
    if not parts or not _same_dim(parts[0].shape_[0], DP):
        raise Untraceable('the first gradient block does not have length p')
    dpsi = parts[0].fn((OUT_K,))
    entries = []
    for pt in parts[1:]:
        d = pt.shape_[0]
        if not isinstance(d, int):
            raise Untraceable('a second gradient block of symbolic length')
        entries += [pt.fn((K(i),)) for i in range(d)]
    if len(entries) != k:
        raise Untraceable('%d sigma entries in the gradient, expected %d' % (len(entries), k))
    return dpsi, entries


def _run_traced(fn, args, env, forced=None, holder=None):
    tr = Trace(env, forced)
    if holder is not None:
        holder.append(tr)
    prev = Trace.current
    Trace.current = tr
    try:
        return fn(*args), tr
    finally:
        Trace.current = prev


def _describe(e):
    if isinstance(e, Untraceable):
        return str(e)
    return '%s: %s' % (type(e).__name__, str(e)[:200])


def trace_method(cls, m, k, what, env, forced=None):
    """-> {kernel: KernelTrace} for one public method (falls back to the private static kernel)"""
    names = {'ll': ['%s.ll' % m], 'pw': ['%s.pw' % m],
             'sens': ['%s.s1' % m, '%s.dpsi' % m] + ['%s.dsigma%d' % (m, i) for i in range(k)]}[what]
    out = {nm: KernelTrace(nm) for nm in names}
    pub, priv = METHODS[what]
    reasons = []
    holder = []
    for route in ('public', 'private'):
        try:
            if route == 'public':
                em = cls()
                params, ybar, obs, S = sym_inputs(k)
                f = getattr(em, pub)
            else:
                params, ybar, obs, S = sym_inputs(k, column=(what == 'sens'))
                f = getattr(cls, priv, None)
                if f is None:
                    raise Untraceable('no method %s' % priv)
            args = (params, ybar, S, obs) if what == 'sens' else (params, ybar, obs)
            res, tr = _run_traced(f, args, env, forced, holder)
            if what == 'll':
                vals = [(_to_scalar(res, 'the log-likelihood'), None)]
            elif what == 'pw':
                vals = [(_to_vector(res, DN, OUT_J, 'the pointwise log-likelihood'), OUT_J)]
            else:
                if not isinstance(res, (tuple, list)) or len(res) != 2:
                    raise Untraceable('compute_sensitivities does not return a pair')
                dpsi, entries = _split_gradient(res[1], k)
                vals = [(_to_scalar(res[0], 'the score'), None), (dpsi, OUT_K)] + [(e, None) for e in entries]
            for nm, (node, index) in zip(names, vals):
                kt = out[nm]
                kt.route = route
                kt.guards = list(tr.guards)
                try:
                    emit(node)
                    kt.node, kt.index, kt.reason = node, index, None
                except Untraceable as e:
                    kt.node, kt.reason = None, _describe(e)
            return out
        except RecursionError:
            reasons.append('%s route: recursion limit' % route)
        except Exception as e:  # noqa  (whatever the traced code does with symbols is a reason, not a crash)
            reasons.append('%s route: %s' % (route, _describe(e)))
    for kt in out.values():
        kt.reason = '; '.join(reasons)
        kt.guards = list(holder[0].guards) if holder else []     # what was met before the trace stopped
    return out


def explore_sides(cls, m, k, what, env, primary, max_runs=8):
    """guards that are only met on the OTHER side of a guard outside the support guards (`if a and b`,
    nested special cases): flip such a guard, trace again, collect what is new. Two levels.
    -> [(prefix, guard)], prefix = [condition nodes that hold on that path]"""
    out, runs = [], [0]
    known = set(g[0] for g in primary) | set(EXPECTED_GUARDS[m])

    def flip(forced, prefix, guards, depth):
        for g in guards:
            if g[0] in EXPECTED_GUARDS[m] or runs[0] >= max_runs:
                continue
            runs[0] += 1
            f2 = dict(forced)
            f2[g[3]] = not g[4]
            pre2 = prefix + [g[3] if not g[4] else negate(g[3])]
            res = trace_method(cls, m, k, what, env, f2)
            new = []
            for kt in res.values():
                for h in kt.guards:
                    if h[0] not in known and h[3] not in f2:
                        known.add(h[0])
                        new.append(h)
            for h in new:
                out.append((pre2, h))
            if depth < 2 and new:
                flip(f2, pre2, new, depth + 1)
    try:
        flip({}, [], [g for g in primary], 1)
    except Exception:  # noqa
        pass
    return out


class _LivePatch(object):
    """fallback: the imported module's own function objects with `np` / `len` / ... replaced for the trace"""

    def __init__(self, mod, np_obj, extra=None):
        self.mod, self.np_obj = mod, np_obj
        self.saved = {}
        self.extra = extra or {}

    def __enter__(self):
        g = vars(self.mod)
        new = {'np': self.np_obj, 'len': sym_len, 'float': SymFloat, 'sum': sym_sum, 'abs': sym_abs}
        new.update(self.extra)
        for key, v in new.items():
            self.saved[key] = g.get(key, self)
            g[key] = v
        return self.mod

    def __exit__(self, *a):
        g = vars(self.mod)
        for key, v in self.saved.items():
            if v is self:
                g.pop(key, None)
            else:
                g[key] = v
        return False


def _trace_and_explore(out, cls, m, k, what, env):
    res = trace_method(cls, m, k, what, env)
    first = list(res.values())[0]
    if any(g[0] not in EXPECTED_GUARDS[m] for g in first.guards):
        nested = explore_sides(cls, m, k, what, env, first.guards)
        for kt in res.values():
            kt.nested = nested
    out.update(res)


def trace_all(chi=None):
    """-> ({kernel: KernelTrace}, info dict). Never raises."""
    info = {'route': None, 'source': None}
    out = {}
    try:
        if chi is None:
            import core
            chi = core.import_chi()
        mod = sys.modules.get('chi._error_models') or __import__('chi._error_models', fromlist=['x'])
        info['source'] = getattr(mod, '__file__', None)
        np_obj = SymNP()
        ns = None
        try:
            with open(mod.__file__) as fh:
                code = compile(fh.read(), mod.__file__, 'exec')
            ns = {'__name__': 'chi._error_models', '__file__': mod.__file__, '__builtins__': sym_builtins(np_obj)}
            exec(code, ns)
            info['route'] = 'module source re-executed under the symbolic numpy'
        except Exception as e:  # noqa
            info['reexec_failed'] = _describe(e)
            ns = None
        env = None
        for m, cname, k, _ in MODELS:
            env = witness_env(k=k)
            if ns is not None and cname in ns:
                for what in ('ll', 'pw', 'sens'):
                    _trace_and_explore(out, ns[cname], m, k, what, env)
            else:
                info['route'] = 'imported module with its numpy replaced for the trace'
                with _LivePatch(mod, np_obj):
                    cls = getattr(mod, cname, None)
                    for what in ('ll', 'pw', 'sens'):
                        if cls is None:
                            for nm in kernel_names(m, k):
                                out[nm] = KernelTrace(nm)
                                out[nm].reason = 'class %s not found' % cname
                        else:
                            _trace_and_explore(out, cls, m, k, what, env)
    except Exception as e:  # noqa
        info['failed'] = _describe(e)
    for nm in all_kernels():
        if nm not in out:
            out[nm] = KernelTrace(nm)
            out[nm].reason = 'not traced: ' + str(info.get('failed', 'unknown'))
    return out, info


# ----------------------------------------------------------------------------------------------------------
# the generated Lean file
# ----------------------------------------------------------------------------------------------------------
HEADER = '''import ChiModel.Scalar
/-!
# GENERATED by harness/srctie.py from chi/_error_models.py — do not edit

One definition per closed-form kernel output, as traced from the public methods of the four error models
(symbolic execution of the Python source, support side of every guard). `lean/ChiProofs/Tie/C04.lean` proves
each of them equal to the hand-written model of `lean/ChiModel/ErrorModels.lean`; `harness/srctie.py`
re-generates this text on every run and compares. Arguments: `n` observations, `p` mechanistic parameters,
`sigma0 (sigma1)` the error parameters, `ybar j` / `obs j` prediction and measurement, `S j k` sensitivities.
-/
set_option linter.unusedVariables false
namespace ChiGen
variable {α : Type} [Add α] [Sub α] [Mul α] [Div α] [Neg α] [ScalarFns α]
open ScalarFns ChiModel
'''
FOOTER = '\nend ChiGen\n'


def def_block(kt, cname, k):
    m, what = kt.kernel.split('.')
    meth = METHODS['sens' if what in ('s1', 'dpsi') or what.startswith('dsigma') else what][0]
    title = '%s.%s -> %s' % (cname, meth, {'ll': 'value', 'pw': 'entry j', 's1': 'score', 'dpsi':
                                          'gradient entry k < p'}.get(what, 'gradient entry p + ' + what[-1]))
    if not kt.ok:
        return '-- %s (%s): untraceable: %s\n' % (def_name(kt.kernel), title, kt.reason)
    guards = '; '.join(show(g[0]) for g in kt.guards) or 'never'
    sig = ' '.join('sigma%d' % i for i in range(k))
    idx = '' if kt.index is None else ' (%s : Nat)' % var_name(kt.index)
    return ('/-- %s; leaves the traced path when: %s -/\n'
            'def %s (n p : Nat) (%s : α) (ybar obs : Nat → α) (S : Nat → Nat → α)%s : α :=\n  %s\n'
            % (title, guards, def_name(kt.kernel), sig, idx, emit(kt.node)[0]))


def generate(traces):
    """-> (text, {kernel: block text})"""
    blocks = {}
    parts = [HEADER]
    for m, cname, k, _ in MODELS:
        parts.append('\n/-! ## %s -/\n' % cname)
        for nm in kernel_names(m, k):
            blocks[nm] = def_block(traces[nm], cname, k)
            parts.append('\n' + blocks[nm])
    parts.append(FOOTER)
    return ''.join(parts), blocks


def split_blocks(text):
    """{def name: block text} of a generated file"""
    out = {}
    for mm in re.finditer(r'(?:^/--[^\n]*-/\n)?^def (gen_\w+) [^\n]*\n  [^\n]*\n|^-- (gen_\w+) [^\n]*\n', text, re.M):
        out[mm.group(1) or mm.group(2)] = mm.group(0)
    return out



# ----------------------------------------------------------------------------------------------------------
# re-proving against re-generated definitions (scratch file under .work/, never in the committed tree)
# ----------------------------------------------------------------------------------------------------------
ALLOWED_AXIOMS = {'propext', 'Classical.choice', 'Quot.sound'}


def _strip_imports(text):
    return '\n'.join(ln for ln in text.splitlines() if not ln.startswith('import ')) + '\n'


def proof_blocks(proof_file=None):
    """(preamble, {theorem name: text}, postamble) of the committed proof script"""
    src = _strip_imports(open(proof_file or PROOF_FILE).read())
    first = src.index('\ntheorem ')
    pre = src[:first + 1]
    end = src.rindex('\nend ChiModel')
    body, post = src[first + 1:end + 1], src[end + 1:]
    blocks = {}
    for chunk in re.split(r'\n(?=theorem )', body):
        mm = re.match(r'theorem (\w+)', chunk)
        if mm:
            # section headers (doc comments between theorems) stay with the preceding chunk: drop them
            blocks[mm.group(1)] = re.sub(r'\n/-!.*?-/\n', '\n', chunk, flags=re.S).rstrip('\n') + '\n'
    return pre, blocks, post


def reprove(gen_text, kernels, budget_s=REPROVE_BUDGET_S, tag='scratch', proof_file=None, theorem_of_fn=None,
            imports=('ChiProofs.Tie.Basic',)):
    """re-run the unchanged proof script of the theorems of `kernels` against `gen_text`.
    -> {kernel: (ok, detail)}   (`proof_file` / `theorem_of_fn` / `imports`: another module's tie, e.g. C05)"""
    res = {}
    theorem_of = theorem_of_fn or globals()['theorem_of']
    if not kernels:
        return res
    t0 = time.time()
    os.makedirs(WORK, exist_ok=True)
    for old in os.listdir(WORK):          # scratch of earlier runs
        try:
            if time.time() - os.path.getmtime(os.path.join(WORK, old)) > 3600:
                os.remove(os.path.join(WORK, old))
        except OSError:
            pass
    try:
        pre, blocks, post = proof_blocks(proof_file)
    except Exception as e:  # noqa
        return {kn: (False, 'proof script unreadable: %s' % _describe(e)) for kn in kernels}
    groups = {}
    for kn in kernels:
        groups.setdefault(kn.split('.')[0], []).append(kn)
    procs = []
    for m, kns in sorted(groups.items()):
        names = [theorem_of(kn) for kn in kns]
        missing = [kn for kn, nm in zip(kns, names) if nm not in blocks]
        for kn in missing:
            res[kn] = (False, 'no theorem %s in the proof script' % theorem_of(kn))
        kns = [kn for kn in kns if kn not in missing]
        if not kns:
            continue
        text = ''.join('import %s\n' % im for im in imports) + _strip_imports(gen_text) + pre
        starts = {}
        for kn in kns:
            starts[kn] = text.count('\n') + 1
            text += blocks[theorem_of(kn)] + '\n'
        text += ''.join('#print axioms %s\n' % theorem_of(kn) for kn in kns) + post
        path = os.path.join(WORK, 'Tie_%s_%s.lean' % (tag, m))
        with open(path, 'w') as fh:
            fh.write(text)
        pr = subprocess.Popen(['lake', 'env', 'lean', path], cwd=LEAN_DIR, stdout=subprocess.PIPE,
                              stderr=subprocess.STDOUT, text=True)
        procs.append((pr, kns, starts, path))
    for pr, kns, starts, path in procs:
        left = max(1.0, budget_s - (time.time() - t0))
        try:
            out, _ = pr.communicate(timeout=left)
        except subprocess.TimeoutExpired:
            pr.kill()
            pr.communicate()
            for kn in kns:
                res[kn] = (False, 're-proof did not finish within %.0f s' % budget_s)
            continue
        order = sorted(kns, key=lambda kn: starts[kn])
        errs = {kn: [] for kn in kns}
        general = []
        for mm in re.finditer(r'^[^\n:]*:(\d+):(\d+): error: ([^\n]*(?:\n(?![^\n:]*:\d+:\d+: |\')[^\n]*){0,2})', out, re.M):
            ln = int(mm.group(1))
            owner = None
            for kn in order:
                if starts[kn] <= ln:
                    owner = kn
            (errs[owner] if owner else general).append(' '.join(mm.group(3).split())[:240])
        axioms = {}
        for mm in re.finditer(r"'([^']+)' (does not depend on any axioms|depends on axioms: \[([^\]]*)\])", out):
            axioms[mm.group(1).split('.')[-1]] = [a.strip() for a in (mm.group(3) or '').replace('\n', ' ').split(',')
                                                  if a.strip()]
        for kn in kns:
            nm = theorem_of(kn)
            if general:
                res[kn] = (False, 'generated definitions do not elaborate: ' + general[0])
            elif errs[kn]:
                res[kn] = (False, 'proof script failed on the re-generated definition: ' + errs[kn][0])
            elif nm not in axioms:
                res[kn] = (False, 'no axiom report for %s (lean exit %s)' % (nm, pr.returncode))
            elif any(a not in ALLOWED_AXIOMS for a in axioms[nm]):
                res[kn] = (False, '%s depends on %s' % (nm, axioms[nm]))
            else:
                res[kn] = (True, path)
    return res


# ----------------------------------------------------------------------------------------------------------
# guards -> concrete search hints
# ----------------------------------------------------------------------------------------------------------
def leaves(node, acc=None):
    """what a guard reads: extents, parameters, vectors, constants"""
    if acc is None:
        acc = {'dims': set(), 'pars': set(), 'vecs': set(), 'consts': set()}
    t = node[0]
    if t == 'dim':
        acc['dims'].add(node[1])
    elif t == 'par':
        acc['pars'].add(node[1])
    elif t in ('vec', 'mat'):
        acc['vecs'].add(node[1])
    elif t == 'const':
        acc['consts'].add(node[1])
    for pos, c in enumerate(node[1:]):
        if t in ('any', 'all', 'sum') and pos == 1 and c[0] == 'dim':
            continue        # the range of a quantifier is not something the condition compares
        if isinstance(c, tuple) and c and isinstance(c[0], str):
            leaves(c, acc)
    return acc


def _base_case(rng, k, n, p):
    sig = rng.uniform(0.3, 1.5, k)
    yb = rng.uniform(0.5, 3.0, n)
    ob = yb * rng.uniform(0.8, 1.25, n)
    S = rng.normal(size=(n, p))
    return sig, yb, ob, S


def _mutations(lv, consts, k):
    """single changes of what a guard reads, using the constants it compares against"""
    muts = []
    for vec in sorted(lv['vecs']):
        for c in consts:
            d = 1e-3 * max(1.0, abs(c))
            for val, txt in ((c, '= %g' % c), (c - d, 'just below %g' % c), (c + d, 'just above %g' % c)):
                muts.append(('one entry of %s %s' % (vec, txt), (vec, 'one', val)))
                muts.append(('all entries of %s %s' % (vec, txt), (vec, 'all', val)))
        muts.append(('%s constant (all entries equal the first)' % vec, (vec, 'const', None)))
        muts.append(('first two entries of %s equal' % vec, (vec, 'two', None)))
    for i in sorted(lv['pars']):
        if i >= k:
            continue
        for c in consts:
            d = 1e-3 * max(1.0, abs(c))
            for val, txt in ((c, '= %g' % c), (c - d, 'just below %g' % c), (c + d, 'just above %g' % c),
                             (2 * c + 1, '= %g' % (2 * c + 1))):
                muts.append(('sigma%d %s' % (i, txt), ('par', i, val)))
    return muts


def _apply_mutation(mu, arrays, rng):
    s2, y2, o2, S2 = arrays
    if mu[0] == 'par':
        s2[mu[1]] = mu[2]
        return
    arr = {'ybar': y2, 'obs': o2, 'S': S2}[mu[0]]
    if arr.size == 0:
        return
    flat = arr.reshape(-1)
    if mu[1] == 'one':
        flat[int(rng.integers(flat.size))] = mu[2]
    elif mu[1] == 'all':
        flat[:] = mu[2]
    elif mu[1] == 'const':
        flat[:] = flat[0]
    elif flat.size >= 2:
        flat[1] = flat[0]


def hint_cases(m, k, guard, rng, per_side=6, prefix=()):
    """concrete inputs on BOTH sides of `guard` (a condition node) on which all `prefix` conditions hold; found by
    changing exactly what the conditions read, using the constants they compare against, and keeping what
    evaluates as wanted. Covers: len/shape op const; any/all(vec op const | vec[0]); scalar op const; and
    conjunctions / nesting of these.  -> [(side, description, sig, yb, ob, S)]"""
    lv = leaves(guard)
    lv_pre = {'dims': set(), 'pars': set(), 'vecs': set(), 'consts': set()}
    for c in prefix:
        leaves(c, lv_pre)
    all_consts = lv['consts'] | lv_pre['consts']
    dims = lv['dims'] | lv_pre['dims']
    ints = sorted(set(int(c) for c in all_consts if c.denominator == 1 and 0 <= c <= 400))
    n_choices = [3, 6]
    if 'n' in dims:
        n_choices = sorted(set([1, 2, 3, 4] + [v for c in ints for v in (c - 1, c, c + 1) if 1 <= v <= 400]))
    p_choices = [2]
    if 'p' in dims:
        p_choices = sorted(set([0, 1, 2] + [v for c in ints for v in (c - 1, c, c + 1) if 0 <= v <= 12]))
    m_g = _mutations(lv, sorted(set(float(c) for c in lv['consts']) | {0.0}), k)
    m_p = _mutations(lv_pre, sorted(set(float(c) for c in lv_pre['consts']) | {0.0}), k) if prefix else []
    combos = [('random inside the support', [])] + [(d, [mu]) for d, mu in m_g + m_p]
    combos += [(d1 + ' and ' + d2, [mu1, mu2]) for d1, mu1 in m_p for d2, mu2 in m_g]
    found = {True: [], False: []}
    for n in n_choices:
        for p in p_choices:
          for rep in range(2):
            sig, yb, ob, S = _base_case(rng, k, n, p)
            for desc, mus in combos:
                arrays = (sig.copy(), yb.copy(), ob.copy(), S.copy())
                for mu in mus:
                    _apply_mutation(mu, arrays, rng)
                try:
                    env = Env(n, p, *arrays)
                    if not all(bool(evaluate(c, env)) for c in prefix):
                        continue
                    side = bool(evaluate(guard, env))
                except Exception:  # noqa
                    continue
                found[side].append(('n=%d, p=%d, %s' % (n, p, desc),) + arrays)
    out = []
    for side in (True, False):
        # distinct kinds of change first (spread over the list), then repeats of the same kind, up to per_side
        groups, order = {}, []
        for item in found[side]:
            key = re.sub(r'n=\d+, p=\d+, ', '', item[0]) if not dims else item[0]
            if key not in groups:
                groups[key] = []
                order.append(key)
            groups[key].append(item)
        step = max(1, len(order) // per_side)
        keys = order[::step][:per_side]
        picked = [groups[key][0] for key in keys]
        for key in keys:
            if len(picked) >= per_side:
                break
            picked += groups[key][1:2]
        for item in picked[:per_side]:
            out.append((side,) + item)
    return out


# ----------------------------------------------------------------------------------------------------------
# the run-time check
# ----------------------------------------------------------------------------------------------------------
def fidelity(chi, traces, rng):
    """the traced expressions reproduce the real functions numerically (inside the traced region)
    -> {kernel: message} for those that do not"""
    bad = {}
    for m, cname, k, _ in MODELS:
        cls = getattr(chi, cname, None)
        if cls is None:
            continue
        for rep in range(2):
            n, p = (5, 2) if rep == 0 else (2, 0)
            sig, yb, ob, S = _base_case(rng, k, n, p)
            env = Env(n, p, sig, yb, ob, S)
            try:
                with _np.errstate(all='ignore'):
                    em = cls()
                    v = float(em.compute_log_likelihood(sig, yb, ob))
                    pw = _np.asarray(em.compute_pointwise_ll(sig, yb, ob), float)
                    s1, g = em.compute_sensitivities(sig, yb, S, ob)
                    g = _np.asarray(g, float).flatten()
            except Exception:  # noqa  (judged by the sampled correspondence, not here)
                continue
            for kn in kernel_names(m, k):
                kt = traces[kn]
                if not kt.ok:
                    continue
                try:
                    if any(evaluate(gd[0], env) for gd in kt.guards):
                        continue        # outside the traced region
                    what = kn.split('.')[1]
                    if what == 'll':
                        pairs = [(evaluate(kt.node, env), v)]
                    elif what == 's1':
                        pairs = [(evaluate(kt.node, env), float(s1))]
                    elif what == 'pw':
                        pairs = [(evaluate(kt.node, env, {OUT_J: j}), pw[j]) for j in range(n)]
                    elif what == 'dpsi':
                        pairs = [(evaluate(kt.node, env, {OUT_K: j}), g[j]) for j in range(p)]
                    else:
                        pairs = [(evaluate(kt.node, env), g[p + int(what[-1])])]
                    for a, b in pairs:
                        a, b = float(a), float(b)
                        if not (abs(a - b) <= 1e-9 * max(1.0, abs(a), abs(b)) or (math.isnan(a) and math.isnan(b))):
                            bad[kn] = 'traced expression gives %r, chi gives %r at sigma=%s ybar=%s obs=%s' % (
                                a, b, list(sig), list(yb), list(ob))
                except Exception as e:  # noqa
                    bad[kn] = 'traced expression cannot be evaluated: ' + _describe(e)
    return bad


_REPROVE_CACHE = {}


def check(ctx=None, chi=None, seed_rng=None):
    """trace, compare with the committed text, re-prove what changed, derive search hints.
    Returns {'status': {kernel: text}, 'hints': [(model, sig, ybar, obs, S, label)], 'info': {...}};
    records the same under ctx.extra['source_tie'] / ['source_tie_info']. Never raises; never a verdict."""
    t0 = time.time()
    status, hints, info = {}, [], {}
    try:
        if chi is None:
            import core
            chi = core.import_chi()
        rng = seed_rng if seed_rng is not None else (ctx.sub_rng(3 * 10 ** 6) if ctx is not None else
                                                     _np.random.default_rng(0))
        traces, info = trace_all(chi)
        text, blocks = generate(traces)
        try:
            committed = open(GEN_FILE).read()
        except OSError:
            committed = ''
        info['generated_equals_committed'] = (text == committed)
        old_blocks = split_blocks(committed)
        bad_fid = fidelity(chi, traces, rng)
        unexpected = {}          # kernel -> [(node, lineno, func)]
        to_prove = []
        for m, cname, k, _ in MODELS:
            for kn in kernel_names(m, k):
                kt = traces[kn]
                unexpected[kn] = [g for g in kt.guards if g[0] not in EXPECTED_GUARDS[m]]
                if not kt.ok:
                    status[kn] = 'not established: untraceable: %s' % kt.reason
                    continue
                if kn in bad_fid:
                    status[kn] = 'not established: tracer self-check failed: ' + bad_fid[kn]
                elif blocks[kn] == old_blocks.get(def_name(kn)):
                    status[kn] = 'proved (generated definition unchanged)'
                else:
                    to_prove.append(kn)
        if to_prove:
            os.makedirs(WORK, exist_ok=True)
            tag = 'pid%d' % os.getpid()
            with open(os.path.join(WORK, 'ErrorModels_%s.lean' % tag), 'w') as fh:
                fh.write(text)
            t1 = time.time()
            key = (text, tuple(to_prove))
            if key not in _REPROVE_CACHE:        # main.py runs a property up to three times per process
                res = reprove(text, to_prove, tag=tag)
                _REPROVE_CACHE[key] = (res, round(time.time() - t1, 1))
            res, info['reprove_wall_s'] = _REPROVE_CACHE[key]
            info['reproved_against'] = os.path.join(WORK, 'ErrorModels_%s.lean' % tag)
            for kn in to_prove:
                ok, detail = res.get(kn, (False, 'not attempted'))
                status[kn] = 're-proved for the rewritten source' if ok else 'not established: ' + detail
        # guards outside the support guards: the formula is tied on the traced side only -> search both sides
        seen = set()
        guard_report = []
        for m, cname, k, _ in MODELS:
            for kn in kernel_names(m, k):
                for g in unexpected.get(kn, []):
                    txt = show(g[0])
                    if not status[kn].startswith('not established'):
                        status[kn] = ('not established: the source leaves the traced path when `%s` (line %d, %s), '
                                      'which is not a support guard; on the traced side: %s'
                                      % (txt, g[1], g[2], status[kn]))
                    if (m, g[0]) in seen:
                        continue
                    seen.add((m, g[0]))
                    cases = hint_cases(m, k, g[0], rng)
                    sides = sorted(set(c[0] for c in cases))
                    guard_report.append({'model': m, 'guard': txt, 'line': g[1], 'function': g[2],
                                         'cases': len(cases), 'sides_reached': sides})
                    for side, desc, sig, yb, ob, S in cases:
                        hints.append((m, sig, yb, ob, S, 'tie-hint[%s is %s] %s' % (txt, side, desc)))
                for prefix, g in traces[kn].nested:
                    key = (m, tuple(prefix), g[0])
                    if key in seen:
                        continue
                    seen.add(key)
                    txt = '%s (where %s)' % (show(g[0]), ' and '.join(show(c) for c in prefix))
                    cases = hint_cases(m, k, g[0], rng, prefix=tuple(prefix))
                    guard_report.append({'model': m, 'guard': txt, 'line': g[1], 'function': g[2],
                                         'cases': len(cases), 'sides_reached': sorted(set(c[0] for c in cases))})
                    for side, desc, sig, yb, ob, S in cases:
                        hints.append((m, sig, yb, ob, S, 'tie-hint[%s is %s] %s' % (txt, side, desc)))
        info['unexpected_guards'] = guard_report
        info['traced_through_private_kernels'] = sorted(kn for kn in traces if traces[kn].ok and
                                                        traces[kn].route == 'private')
        info['guards'] = {kn: [show(g[0]) for g in traces[kn].guards] for kn in traces}
    except Exception as e:  # noqa
        info['failed'] = _describe(e)
        for kn in all_kernels():
            status.setdefault(kn, 'not established: source tie machinery failed: ' + _describe(e))
    info['wall_s'] = round(time.time() - t0, 2)
    info['theorems'] = {kn: theorem_of(kn) for kn in all_kernels()}
    info['scope'] = ('identities over the reals between the formula traced on the support side of the recorded guards and '
                     'the hand-written Lean model; floating-point conditioning of a rewritten formula is covered by the '
                     'sampled cases only')
    if ctx is not None:
        ctx.extra['source_tie'] = status
        ctx.extra['source_tie_info'] = info
    return {'status': status, 'hints': hints, 'info': info}


if __name__ == '__main__':
    sys.path.insert(0, os.path.dirname(os.path.abspath(__file__)))
    import core as _core
    _chi = _core.import_chi()
    _tr, _info = trace_all(_chi)
    _text, _ = generate(_tr)
    if len(sys.argv) > 1 and sys.argv[1] == '--write':
        os.makedirs(os.path.dirname(GEN_FILE), exist_ok=True)
        with open(GEN_FILE, 'w') as _fh:
            _fh.write(_text)
        print('wrote', GEN_FILE)
    elif len(sys.argv) > 1 and sys.argv[1] == '--check':
        _r = check(chi=_chi)
        for _k, _v in _r['status'].items():
            print('%-12s %s' % (_k, _v))
        print(len(_r['hints']), 'hint cases', [h[5] for h in _r['hints']][:12])
        _info = _r['info']
    else:
        sys.stdout.write(_text)
    print(_info, file=sys.stderr)
