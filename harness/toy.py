"""A pure-Python mechanistic model with closed-form outputs and exact sensitivities, following the
documented chi.MechanisticModel contract to the letter (in particular
`enable_sensitivities(enabled, parameter_names)` restricts the returned columns)."""
import copy
import numpy as np
import chi


class ToyModel(chi.MechanisticModel):
    """y_o(t) = b_o + sum_k c_ok * psi_k^2 * exp(-r_ok * t)   (positive for every psi unless an offset is given)"""

    def __init__(self, n_outputs=1, n_parameters=2, seed=0, offset=None):
        super().__init__()
        rng = np.random.default_rng([seed, 7])
        self._b = rng.uniform(0.5, 1.5, n_outputs)
        if offset is not None:
            # outputs that take negative values (same random coefficients as without the offset)
            self._b = self._b - np.asarray(offset, float)
        self._c = rng.uniform(0.2, 1.0, (n_outputs, n_parameters))
        self._r = rng.uniform(0.05, 0.6, (n_outputs, n_parameters))
        self._all_outputs = ['out%d' % o for o in range(n_outputs)]
        self._outputs = list(range(n_outputs))
        self._names = ['psi%d' % k for k in range(n_parameters)]
        self._sens = False
        self._sens_idx = list(range(n_parameters))
        self.calls = 0
        self.last_parameters = None

    def value(self, parameters, o, t):
        p = np.asarray(parameters, float)
        return float(self._b[o] + np.sum(self._c[o] * p ** 2 * np.exp(-self._r[o] * t)))

    def dvalue(self, parameters, o, t, k):
        p = np.asarray(parameters, float)
        return float(2 * self._c[o, k] * p[k] * np.exp(-self._r[o, k] * t))

    def enable_sensitivities(self, enabled, parameter_names=None):
        self._sens = bool(enabled)
        if not enabled:
            return
        if parameter_names is None:
            self._sens_idx = list(range(len(self._names)))
        else:
            idx = [self._names.index(n) for n in parameter_names if n in self._names]
            if not idx:
                raise ValueError('None of the parameters could be identified.')
            self._sens_idx = idx

    def has_sensitivities(self):
        return self._sens

    def n_outputs(self):
        return len(self._outputs)

    def n_parameters(self):
        return len(self._names)

    def outputs(self):
        return [self._all_outputs[o] for o in self._outputs]

    def parameters(self):
        return copy.copy(self._names)

    def set_outputs(self, outputs):
        self._outputs = [self._all_outputs.index(o) for o in outputs]

    def set_parameter_names(self, names):
        self._names = [names.get(n, n) for n in self._names]

    def simulate(self, parameters, times):
        self.calls += 1
        parameters = np.asarray(parameters, float)
        self.last_parameters = parameters.copy()
        if len(parameters) != len(self._names):
            raise ValueError('wrong number of parameters')
        times = np.asarray(times, float)
        out = np.array([[self.value(parameters, o, t) for t in times] for o in self._outputs])
        if not self._sens:
            return out
        sens = np.array([[[self.dvalue(parameters, o, t, k) for k in self._sens_idx]
                          for o in self._outputs] for t in times])
        sens = sens.reshape(len(times), len(self._outputs), len(self._sens_idx))
        return out, sens
