"""C01 — individual log-likelihood sums each observation's density exactly once"""
import math
import numpy as np
import pints

import core
import toy
from props import c04

REQUIRED_THEOREMS = [
    'C01_pick_eq', 'C01_call_eq_spec_partial', 'C01_call_eq_spec', 'C01_ties_counterexample',
    'C01_constructed_evaluable', 'C01_spec_is_sum_over_measurements', 'C01_pointwise_sum',
    'C01_pointwise_length', 'C01_slices_partition', 'C01_posterior',
    'C01_reduced_split', 'C01_reduced_all_error_fixed', 'C01_reduced_error_model_sees_own',
    'C01_reduced_call_eq_full', 'C01_reduced_call_eq_spec', 'C01_reduced_wrong_length']
RULE = ('1-4 outputs, one of the four error models each, per-output grids drawn from a shared pool of '
        'dyadic times so that identical / disjoint / nested / overlapping / tied / length-1 arrangements '
        'occur; toy mechanistic model with closed-form outputs; non-trivial = >=2 outputs with different '
        'grids, or a tied time; distinct = distinct (arrangement class, error models, grid sizes). '
        'About every third draw additionally builds a likelihood with FIXED parameters: error models wrapped / '
        'partly fixed before construction, then a history of 1-3 fix_parameters requests (all error-model '
        'parameters = known assay error, all mechanistic ones, one output\'s error model, random subsets, releases, '
        're-fixes); after every request value, pointwise values, counts and posterior are compared with the sum '
        'over all measurements at the full vector in which the fixed entries take their fixed values')
ASSUMPTIONS = ['the mechanistic model is an arbitrary function of (output, time): chi solves it once on the '
               'union grid; the toy model of harness/toy.py stands for it',
               'times are non-negative doubles and travel as their bit patterns (order-isomorphic)']

KINDS = c04.KINDS


def tbits(t):
    return core.f2bits(float(t) + 0.0)   # canonicalise -0.0


def arrangement(grids):
    if any(len(g) == 0 for g in grids):
        return 'empty-output'
    if any(len(set(g)) < len(g) for g in grids):
        return 'tied'
    if len(grids) == 1:
        return 'single' if len(grids[0]) > 1 else 'length1'
    sets = [set(g) for g in grids]
    if all(s == sets[0] for s in sets):
        return 'identical'
    if all(sets[i].isdisjoint(sets[j]) for i in range(len(sets)) for j in range(i)):
        return 'disjoint'
    if any(sets[i] < sets[j] or sets[j] < sets[i] for i in range(len(sets)) for j in range(i)):
        return 'nested'
    return 'overlapping'


def gen_case(rng, ties=True):
    n_out = int(rng.choice([1, 1, 2, 2, 3, 4]))
    kinds = [KINDS[int(rng.integers(4))] for _ in range(n_out)]
    pool = np.sort(rng.choice(np.arange(0, 41) * 0.25, size=int(rng.integers(1, 9)), replace=False))
    mode = rng.random()
    grids = []
    for o in range(n_out):
        if mode < 0.15:
            g = pool.copy()
        elif mode < 0.3 and o > 0:
            rest = np.setdiff1d(np.arange(0, 41) * 0.25, np.concatenate(grids))
            g = np.sort(rng.choice(rest, size=int(rng.integers(1, 6)), replace=False))
        else:
            k = int(rng.integers(1, len(pool) + 1))
            g = np.sort(rng.choice(pool, size=k, replace=False))
        if ties and rng.random() < 0.2:
            j = int(rng.integers(len(g)))
            reps = int(rng.integers(1, 3))
            g = np.sort(np.concatenate([g, [g[j]] * reps]))
        grids.append(g)
    # an output without any measurement (not only the last one) is legal: it contributes nothing
    if n_out >= 2 and rng.random() < 0.15:
        grids[int(rng.integers(n_out))] = np.array([], dtype=float)
    obs = [rng.uniform(0.3, 4.0, len(g)) for g in grids]
    n_mech = int(rng.integers(1, 4))
    psi = rng.uniform(0.5, 1.5, n_mech)
    sig = []
    for k in kinds:
        sig += list(rng.uniform(0.2, 1.5, 2 if k == 'CM' else 1))
    if rng.random() < 0.08:
        sig[int(rng.integers(len(sig)))] = float(rng.choice([0.0, -0.5]))
    return kinds, grids, obs, n_mech, psi, sig


def offsets(kinds, seed):
    """every fifth toy model has outputs that take negative values (not for log-normal noise, whose
    support is the positive axis)"""
    if seed % 5 != 3:
        return None
    return [0.0 if k == 'LN' else 3.0 for k in kinds]


def build(chi, kinds, grids, obs, n_mech, seed):
    model = toy.ToyModel(len(kinds), n_mech, seed, offsets(kinds, seed))
    ems = [c04.classes(chi)[k][0]() for k in kinds]
    return model, chi.LogLikelihood(model, ems, [list(o) for o in obs], [list(g) for g in grids])


def spec_value(kinds, grids, obs, model, psi, sig):
    """the property's right-hand side, computed without chi's routing"""
    total = 0.0
    pw = []
    start = 0
    for o, k in enumerate(kinds):
        n = 2 if k == 'CM' else 1
        s = sig[start:start + n]
        start += n
        yb = np.array([model.value(psi, o, t) for t in grids[o]])
        if not all(x > 0 for x in s):
            # outside the support (C04: non-positive scale parameters score minus infinity,
            # whatever the number of measurements)
            lp = np.full(len(yb), -np.inf)
            total += -np.inf
        else:
            lp = c04.documented_logpdf(k, s, yb, obs[o])
        pw += list(lp)
        total += float(np.sum(lp))
    return total, pw


def run_case(ctx, chi, kinds, grids, obs, n_mech, psi, sig, seed, tag='gen'):
    inp = {'kinds': kinds, 'times': grids, 'obs': obs, 'psi': psi, 'sigma': sig, 'n_mech': n_mech,
           'toy_seed': seed}
    arr = arrangement([list(g) for g in grids])
    nontriv = arr in ('tied', 'disjoint', 'nested', 'overlapping', 'empty-output')
    ctx.case(arr, nontrivial='%s/%s/%s' % (arr, ''.join(kinds), [len(g) for g in grids]) if nontriv else False,
             sample=inp)
    model = toy.ToyModel(len(kinds), n_mech, seed, offsets(kinds, seed))
    table = [[[tbits(t), model.value(psi, o, t)] for t in sorted(set(grids[o]))] for o in range(len(kinds))]
    data = [[[tbits(t) for t in grids[o]], list(obs[o])] for o in range(len(kinds))]
    mo = ctx.model('C01.call', False, len(kinds), kinds, data, table, list(sig))
    # --- chi
    try:
        umodel, ll = build(chi, kinds, grids, obs, n_mech, seed)
        constructed = True
    except Exception as e:  # noqa
        constructed = False
        cerr = core.errkind(e)
        ctx.errkinds.add(cerr)
    if not constructed:
        ctx.agree('C01.constructor', cerr, mo[0], inp)
        return
    ctx.agree('C01.constructor', 'ok', mo[0], inp)
    if mo[0] != 'ok':
        return
    params = np.concatenate([psi, sig])
    if ctx.cases % 3 == 0:
        # the caller goes on using the model object the likelihood was built from (re-ordered outputs, other
        # coefficients, sensitivities switched on): the likelihood keeps describing the model it was given
        try:
            if len(kinds) > 1:
                umodel.set_outputs(list(reversed(umodel.outputs())))
            umodel._b = umodel._b * 3.0 + 1.0
            umodel._c = umodel._c[::-1].copy() * 0.5
            umodel.enable_sensitivities(True)
        except Exception as e:  # noqa
            ctx.spec('C01.user_model_reused', False, inp, {'raised': repr(e)[:200]})
    if ctx.cases % 2 == 0:
        # an evaluation with sensitivities first: plain and pointwise evaluation afterwards must be unaffected
        try:
            with np.errstate(all='ignore'):
                ll.evaluateS1(params)
        except Exception:  # noqa  (C03 / C08 deal with evaluateS1 itself)
            pass
        if ctx.cases % 4 == 0:
            try:
                with np.errstate(all='ignore'):
                    pw0 = np.asarray(ll.compute_pointwise_ll(params), float)
                ctx.spec('C01.pointwise_after_evaluateS1', len(pw0) == sum(len(g) for g in grids), inp)
            except Exception as e:  # noqa
                ctx.spec('C01.pointwise_after_evaluateS1', False, inp, {'raised': repr(e)[:200]})
    try:
        with np.errstate(all='ignore'):
            v = float(ll(params))
        out = v
    except Exception as e:  # noqa
        out = core.errkind(e)
        ctx.errkinds.add(out)
    ctx.spec('C01.constructed_evaluable', not isinstance(out, str), inp, {'raised': out})
    ctx.agree('C01.call', out, mo[1], inp)
    ctx.branches.add('call:' + (out if isinstance(out, str) else core.fclass(out)))
    ctx.agree('C01.n_observations', int(np.sum(ll.n_observations())), mo[4], inp)
    ctx.agree('C01.n_parameters', ll.n_parameters(), n_mech + mo[5], inp)
    ctx.spec('C01.n_observations', list(ll.n_observations()) == [len(g) for g in grids], inp)
    if isinstance(out, str):
        return
    sv, spw = spec_value(kinds, grids, obs, model, psi, sig)
    if math.isnan(sv):
        return
    ctx.spec('C01.value_is_sum_over_measurements', core.close(v, sv), inp, {'chi': v, 'spec': sv})
    with np.errstate(all='ignore'):
        pw = np.asarray(ll.compute_pointwise_ll(params), float)
    if all(x is not None for x in mo[3]):
        ctx.agree('C01.pointwise', pw, mo[3], inp)
    ctx.spec('C01.pointwise_order', core.close(pw, spw), inp, {'chi': pw, 'spec': spw})
    if math.isfinite(v):
        ctx.spec('C01.pointwise_sum', core.close(float(np.sum(pw)), v), inp)
    ctx.spec('C01.pointwise_length', len(pw) == sum(len(g) for g in grids), inp)
    # results handed out earlier stay what they were when the likelihood is evaluated again elsewhere
    try:
        with np.errstate(all='ignore'):
            held = ll.compute_pointwise_ll(params)
            snap = np.array(held, float, copy=True)
            other = params * np.linspace(1.1, 1.4, len(params))
            held2 = ll.compute_pointwise_ll(other)
            ll(other)
            ll.evaluateS1(other)
        ctx.spec('C01.pointwise_result_stable',
                 np.array_equal(np.asarray(held, float), snap, equal_nan=True), inp,
                 {'first_result_then': snap, 'first_result_now': np.asarray(held, float)})
        del held2
    except Exception as e:  # noqa
        ctx.spec('C01.pointwise_result_stable', False, inp, {'raised': repr(e)[:200]})
    # whole numbers handed over as integers (parameters; and times / measurements at construction) are the same
    # numbers; the caller's arrays are left alone
    if ctx.cases % 3 == 1:
        before = params.copy()
        with np.errstate(all='ignore'):
            ll(params)
            ll.compute_pointwise_ll(params)
            ll.evaluateS1(params)
        ctx.spec('C01.arguments_unchanged', np.array_equal(params, before, equal_nan=True), inp)
        whole = np.where(params < 1.0, 1.0, 2.0)

        def f(x_):
            return (float(ll(x_)), np.asarray(ll.compute_pointwise_ll(x_), float))
        ctx.number_types('C01.whole_number_parameters', f, whole, inp)
        try:
            gi = [np.arange(len(g_)) + 1 for g_ in grids]                 # integer time grids 1..n
            oi = [np.round(o_) + 1 for o_ in obs]
            ems_f = [c04.classes(chi)[k][0]() for k in kinds]
            ems_i = [c04.classes(chi)[k][0]() for k in kinds]
            lf = chi.LogLikelihood(toy.ToyModel(len(kinds), n_mech, seed, offsets(kinds, seed)), ems_f,
                                   [list(map(float, o_)) for o_ in oi], [list(map(float, g_)) for g_ in gi])
            li = chi.LogLikelihood(toy.ToyModel(len(kinds), n_mech, seed, offsets(kinds, seed)), ems_i,
                                   [np.asarray(o_, dtype=np.int64) for o_ in oi],
                                   [np.asarray(g_, dtype=np.int64) for g_ in gi])
            with np.errstate(all='ignore'):
                a, b = float(lf(params)), float(li(params))
                pa, pb = lf.compute_pointwise_ll(params), li.compute_pointwise_ll(params)
            ctx.spec('C01.whole_number_data', core.close(a, b) and core.close(np.asarray(pa, float), np.asarray(pb, float)),
                     dict(inp, times=gi, obs=oi), {'float_data': a, 'integer_data': b})
        except Exception as e:  # noqa
            ctx.spec('C01.whole_number_data', False, dict(inp), {'raised': repr(e)[:200]})
    if ctx.cases % 4 == 2:
        other = params * np.linspace(1.1, 1.3, len(params))
        ctx.inplace_reuse('C01.array_changed_in_place_between_calls/LogLikelihood',
                          lambda a: (float(ll(a)), np.asarray(ll.compute_pointwise_ll(a), float)), params, other, inp)
        pr_ = pints.ComposedLogPrior(*[pints.GaussianLogPrior(1.0, 2.0) for _ in params])
        po_ = chi.LogPosterior(ll, pr_)
        ctx.inplace_reuse('C01.array_changed_in_place_between_calls/LogPosterior', lambda a: float(po_(a)),
                          params, other, inp)
        with np.errstate(all='ignore'):
            ctx.spec('C01.posterior', core.close(float(po_(other)), float(pr_(other)) + float(ll(other))), inp)
    # posterior = prior + likelihood
    if ctx.cases % 5 == 0:
        prior = pints.ComposedLogPrior(*[pints.GaussianLogPrior(1.0, 2.0) for _ in params])
        post = chi.LogPosterior(ll, prior)
        with np.errstate(all='ignore'):
            pv = float(post(params))
        ctx.spec('C01.posterior', core.close(pv, float(prior(params)) + v), inp, {'post': pv})


# ---------------------------------------------------------------------------------------------------------------
# likelihoods with fixed parameters (known assay error, known clearance, ...): the object is still the sum over
# all measurements, evaluated at the full vector (psi, sigma) in which the fixed entries take their fixed values
# and the free entries consume the argument in order

def widths_of(kinds):
    return [2 if k == 'CM' else 1 for k in kinds]


def gen_plan(rng, n_mech, kinds):
    """(pre, plan): `pre[o]` is None or the list of [position inside error model o, value] fixed on a
    chi.ReducedErrorModel BEFORE it is handed to the constructor (an empty list = wrapped, nothing fixed);
    `plan` is a history of fix_parameters requests, each a list of [position in the documented parameter
    order, value or None (= release)]"""
    widths = widths_of(kinds)
    n = n_mech + sum(widths)
    first = [n_mech + sum(widths[:o]) for o in range(len(kinds))]

    def val(j):
        if j >= n_mech and rng.random() < 0.03:
            return float(rng.choice([0.0, -0.5]))
        return float(rng.uniform(0.5, 1.5)) if j < n_mech else float(rng.uniform(0.2, 1.5))

    fixed = set()
    pre = [None] * len(kinds)
    if rng.random() < 0.3:
        for o in range(len(kinds)):
            if rng.random() < 0.6:
                loc = [j for j in range(widths[o]) if rng.random() < 0.7]
                pre[o] = [[j, val(first[o] + j)] for j in loc]
                fixed |= set(first[o] + j for j in loc)
    plan = []
    for _ in range(int(rng.integers(1, 4))):
        mode = rng.random()
        if mode < 0.3:
            idx = list(range(n_mech, n))                                   # the measurement error is known
        elif mode < 0.4:
            idx = list(range(n_mech))                                      # the mechanistic model is known
        elif mode < 0.5:
            o = int(rng.integers(len(kinds)))
            idx = list(range(first[o], first[o] + widths[o]))              # one output's error model
        elif mode < 0.7 and fixed:
            rel = sorted(fixed)
            k = int(rng.integers(1, len(rel) + 1))
            step = [[int(j), None] for j in rng.choice(rel, size=k, replace=False)]
            if rng.random() < 0.3:                                         # release and fix in one request
                j = int(rng.integers(n))
                if j not in [a for a, _ in step]:
                    step.append([j, val(j)])
            plan.append(step)
            for j, v in step:
                fixed.discard(j) if v is None else fixed.add(j)
            continue
        else:
            k = int(rng.integers(1, n + 1))
            idx = [int(j) for j in rng.choice(n, size=k, replace=False)]
        step = [[int(j), val(j)] for j in idx]
        if rng.random() < 0.15:
            step.append([int(rng.integers(n)), None])                     # a later binding of a name wins: dict()
            step = [e for a, e in enumerate(step) if e[0] not in [f[0] for f in step[a + 1:]]]
        plan.append(step)
        for j, v in step:
            fixed.discard(j) if v is None else fixed.add(j)
    return pre, plan


def run_reduced(ctx, chi, kinds, grids, obs, n_mech, psi, sig, seed, pre, plan):
    tagp = 'C01.fixed_parameters'
    inp = {'kinds': kinds, 'times': grids, 'obs': obs, 'psi': psi, 'sigma': sig, 'n_mech': n_mech,
           'toy_seed': seed, 'reduced_before_construction': pre, 'fix_history': plan}
    widths = widths_of(kinds)
    n_err = sum(widths)
    n = n_mech + n_err
    first = [n_mech + sum(widths[:o]) for o in range(len(kinds))]
    model = toy.ToyModel(len(kinds), n_mech, seed, offsets(kinds, seed))
    base = np.concatenate([np.asarray(psi, float), np.asarray(sig, float)])
    net = {}
    ems = []
    # the caller may hand over ONE error model object for several outputs (`[em] * n_outputs`): every output still
    # has its own error parameters
    share = bool(np.random.default_rng(seed * 7 + len(plan)).random() < 0.5)
    first_of_kind = {}
    inp['one_error_model_object_for_outputs_of_the_same_kind'] = share
    for o, k in enumerate(kinds):
        if share and pre[o] is None and k in first_of_kind:
            ems.append(ems[first_of_kind[k]])
            continue
        em = c04.classes(chi)[k][0]()
        if pre[o] is None:
            first_of_kind.setdefault(k, o)
        if pre[o] is not None:
            loc_names = em.get_parameter_names()
            em = chi.ReducedErrorModel(em)
            if pre[o]:
                em.fix_parameters({loc_names[j]: v for j, v in pre[o]})
            for j, v in pre[o]:
                net[first[o] + j] = float(v)
        ems.append(em)
    # the names under which the parameters are addressed: those of a fresh, unreduced likelihood of the same models
    twin = chi.LogLikelihood(toy.ToyModel(len(kinds), n_mech, seed, offsets(kinds, seed)),
                             [c04.classes(chi)[k][0]() for k in kinds], [list(o) for o in obs],
                             [list(g) for g in grids])
    names = list(twin.get_parameter_names())
    ll = chi.LogLikelihood(toy.ToyModel(len(kinds), n_mech, seed, offsets(kinds, seed)), ems,
                           [list(o) for o in obs], [list(g) for g in grids])
    n_meas = [len(g) for g in grids]
    data = [[[tbits(t) for t in grids[o]], list(obs[o])] for o in range(len(kinds))]
    steps = [None] + list(plan) if any(p is not None for p in pre) else list(plan)
    for s_no, step in enumerate(steps):
        if step is not None:
            ll.fix_parameters({names[j]: v for j, v in step})
            for j, v in step:
                if v is None:
                    net.pop(j, None)
                else:
                    net[j] = float(v)
        free = [j for j in range(n) if j not in net]
        full = base.copy()
        for j, v in net.items():
            full[j] = v
        x = full[free]
        sinp = dict(inp, step=s_no, fixed_now={names[j]: v for j, v in sorted(net.items())}, x=x)
        err_fixed = [j for j in net if j >= n_mech]
        cls = ('all-error-fixed' if len(err_fixed) == n_err else 'some-error-fixed' if err_fixed else
               'mechanistic-fixed' if net else 'all-released')
        if len(net) == n:
            cls = 'everything-fixed'
        ctx.case('fixed-parameters/' + cls,
                 nontrivial='fixed/%s/%s/%s' % (''.join(kinds), n_mech, sorted(net)) if net else False, sample=sinp)
        ctx.spec(tagp + '.n_parameters', ll.n_parameters() == len(free), sinp, {'chi': ll.n_parameters()})
        ctx.spec(tagp + '.n_observations', list(ll.n_observations()) == n_meas, sinp)
        # the model: every sub-model takes its own free entries off the argument and fills in its fixed ones
        cells_m = [[j in net, float(net.get(j, 0.0))] for j in range(n_mech)]
        cells_e = [[[j in net, float(net.get(j, 0.0))] for j in range(first[o], first[o] + widths[o])]
                   for o in range(len(kinds))]
        mf = ctx.model('C01.reduced_fill', cells_m, cells_e, list(map(float, x)))
        ctx.agree('C01.reduced_fill', list(full), list(mf[0]) + list(mf[1]) if len(mf) == 2 else mf[0], sinp)
        mo = None
        if len(mf) == 2:
            table = [[[tbits(t), model.value(np.asarray(mf[0], float), o, t)] for t in sorted(set(grids[o]))]
                     for o in range(len(kinds))]
            mo = ctx.model('C01.call', False, len(kinds), kinds, data, table, list(mf[1]))
        if (seed + s_no) % 2 == 0:
            try:        # an evaluation with sensitivities first (C03 / C08 judge evaluateS1 itself)
                with np.errstate(all='ignore'):
                    ll.evaluateS1(x)
            except Exception:  # noqa
                pass
        try:
            with np.errstate(all='ignore'):
                v = float(ll(x))
            out = v
        except Exception as e:  # noqa
            out = core.errkind(e)
        ctx.spec(tagp + '.evaluable', not isinstance(out, str), sinp, {'raised': out})
        if mo is not None and mo[0] == 'ok':
            ctx.agree('C01.reduced_call', out, mo[1], sinp)
        if isinstance(out, str):
            continue
        sv, spw = spec_value(kinds, grids, obs, model, full[:n_mech], list(full[n_mech:]))
        if math.isnan(sv):
            continue
        ctx.spec(tagp + '.value_is_sum_over_measurements', core.close(v, sv), sinp, {'chi': v, 'spec': sv})
        try:
            with np.errstate(all='ignore'):
                pw = np.asarray(ll.compute_pointwise_ll(x), float)
        except Exception as e:  # noqa
            ctx.spec(tagp + '.pointwise_evaluable', False, sinp, {'raised': repr(e)[:200]})
            continue
        if mo is not None and mo[0] == 'ok' and all(a is not None for a in mo[3]):
            ctx.agree('C01.reduced_pointwise', pw, mo[3], sinp)
        ctx.spec(tagp + '.pointwise_order', core.close(pw, spw), sinp, {'chi': pw, 'spec': spw})
        ctx.spec(tagp + '.pointwise_length', len(pw) == sum(n_meas), sinp)
        if math.isfinite(v):
            ctx.spec(tagp + '.pointwise_sum', core.close(float(np.sum(pw)), v), sinp)
        if len(free) > 0:
            prior = pints.ComposedLogPrior(*[pints.GaussianLogPrior(1.0, 2.0) for _ in free])
            try:
                with np.errstate(all='ignore'):
                    pv = float(chi.LogPosterior(ll, prior)(x))
                ctx.spec(tagp + '.posterior', core.close(pv, float(prior(x)) + sv), sinp,
                         {'post': pv, 'prior': float(prior(x)), 'spec': sv})
            except Exception as e:  # noqa
                ctx.spec(tagp + '.posterior', False, sinp, {'raised': repr(e)[:200]})


def malformed(ctx, chi):
    cases = [
        (['G'], [np.array([1.0, 0.5])], [np.array([1.0, 2.0])], 'decreasing'),
        (['G', 'LN'], [np.array([0.5, 1.0]), np.array([2.0, 1.0, 3.0])],
         [np.array([1.0, 2.0]), np.array([1.0, 2.0, 3.0])], 'decreasing-second'),
        (['G'], [np.array([0.5, 1.0])], [np.array([1.0, 2.0, 3.0])], 'shape'),
        (['G', 'G'], [np.array([0.5, 1.0]), np.array([0.5])], [np.array([1.0, 2.0]), np.array([1.0, 2.0])],
         'shape-second'),
    ]
    for kinds, grids, obs, name in cases:
        sig = [1.0] * len(kinds)
        run_case(ctx, chi, kinds, grids, obs, 2, np.array([1.0, 1.0]), sig, 0, tag=name)


def corpus(ctx, chi):
    # witnesses of C01_ties_counterexample and neighbours
    c = [
        (['G'], [np.array([1.0, 1.0, 2.0])], [np.array([1.0, 2.0, 3.0])]),
        (['G', 'CM'], [np.array([0.0, 1.0, 1.0]), np.array([1.0, 2.0])],
         [np.array([1.0, 2.0, 3.0]), np.array([1.5, 2.5])]),
        (['LN', 'M'], [np.array([2.0]), np.array([2.0, 2.0, 2.0])], [np.array([1.0]), np.array([1.0, 2.0, 0.5])]),
        (['G', 'G'], [np.array([0.0, 1.0]), np.array([0.5, 1.5])], [np.array([1.0, 2.0]), np.array([1.0, 2.0])]),
    ]
    for kinds, grids, obs in c:
        sig = []
        for k in kinds:
            sig += [0.7, 0.3] if k == 'CM' else [0.7]
        run_case(ctx, chi, kinds, grids, obs, 2, np.array([1.1, 0.8]), sig, 1, tag='corpus')


def run(ctx):
    chi = core.import_chi()
    corpus(ctx, chi)
    malformed(ctx, chi)
    n = 1200 if ctx.tier == 'quick' else 15000
    for i in range(n):
        rng = ctx.sub_rng(i)
        kinds, grids, obs, n_mech, psi, sig = gen_case(rng)
        ctx.guard(run_case, ctx, chi, kinds, grids, obs, n_mech, psi, sig, i)
        if rng.random() < 0.35:
            kinds, grids, obs, n_mech, psi, sig = gen_case(rng)
            sig = [abs(s_) + 0.2 if s_ <= 0 else s_ for s_ in sig]
            pre, plan = gen_plan(rng, n_mech, kinds)
            ctx.guard(run_reduced, ctx, chi, kinds, grids, obs, n_mech, psi, sig, i, pre, plan)


def replay(ctx, data):
    chi = core.import_chi()
    inp = data['failing']['input']
    grids = [np.array(g, float) for g in inp['times']]
    obs = [np.array(o, float) for o in inp['obs']]
    if 'fix_history' in inp:
        run_reduced(ctx, chi, inp['kinds'], grids, obs, inp['n_mech'], np.array(inp['psi'], float),
                    [float(s) for s in inp['sigma']], inp['toy_seed'], inp['reduced_before_construction'],
                    inp['fix_history'])
        print('spec failures on replay:', ctx.spec_bad[:2])
        print('disagreements on replay:', ctx.corr_bad[:2])
        return 1 if ctx.spec_bad else 0
    run_case(ctx, chi, inp['kinds'], grids, obs, inp['n_mech'], np.array(inp['psi'], float),
             [float(s) for s in inp['sigma']], inp['toy_seed'])
    print('spec failures on replay:', ctx.spec_bad[:2])
    print('disagreements on replay:', ctx.corr_bad[:2])
    return 1 if ctx.spec_bad else 0
