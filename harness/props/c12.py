"""C12 — population filters use the documented estimators; missing-data invariant; exact gradients"""
import json
import math
import numpy as np
from scipy import stats
from scipy.special import logsumexp as sp_logsumexp

import core
import oracle

REQUIRED_THEOREMS = [
    'C12_msum_eq_filterMap', 'C12_mean_var_are_documented', 'C12_bandwidth_is_documented',
    'C12_logsumexp', 'C12_softmax',
    'C12_gaussian_is_documented', 'C12_lognormal_is_documented', 'C12_gaussianKDE_is_documented',
    'C12_mixture_is_documented', 'C12_lognormalKDE_is_documented', 'C12_lognormalKDE_legacy_partial',
    'C12_lognormalKDE_jacobian_counterexample', 'C12_lognormalKDE_bandwidth_counterexample',
    'C12_spec_twin', 'C12_composed_sortTimes',
    'C12_nan_padding', 'C12_perm_individuals', 'C12_cell_multiset',
    'C12_time_reorder', 'C12_time_reorder_grad', 'C12_time_split', 'C12_composed_is_sum',
    'C12_argsort_inverse', 'C12_time_reorder_composed', 'C12_time_reorder_composed_grad', 'C12_composed_grad',
    'C12_gaussian_grad', 'C12_lognormal_grad', 'C12_gaussianKDE_grad', 'C12_mixture_grad',
    'C12_lognormalKDE_grad', 'C12_all_missing', 'C12_score_val', 'C12_sort_times_keeps_shared_data',
    'C12_sort_times_inplace_counterexample',
    'C12_nested_is_flat', 'C12_nested_n_times', 'C12_nested_time_reorder', 'C12_nested_time_reorder_grad',
    'C12_nested_flatten_counterexample', 'C12_shift_invariant', 'C12_shift_invariant_filter',
    'C12_scale_lognormal']
RULE = ('random filter (5 classes; mixtures with 2-4 kernels), 1-6 measured individuals, 1-3 observables, '
        '1-5 times, missing patterns leaving >= 1 value per cell (or none missing), 2-12 simulated '
        'individuals (multiples of n_kernels, >= 2 per kernel), then sort_times histories, random '
        'splits into ComposedPopulationFilter (same and mixed kinds) with and without a deferred time '
        'order; nested compositions (depth <= 3, <= 7 times, sub-filters with different numbers of measured '
        'individuals, every filter sorted with its own sort_times before it becomes a sub-filter); the same '
        'object evaluated with a second number of simulated individuals and the first one again; arrays of large '
        'magnitude and small spread (|value| / sd of a cell 1e3 - 1e7, offsets per cell of either sign; a common '
        'power-of-two scale for the log-normal filters) with a tolerance of 100 eps |value| / sd; '
        'a case is non-trivial when the array has a missing value or T >= 2; distinct = distinct '
        '(kind, shape, n_sim, masked?, composition, order class)')
ASSUMPTIONS = ['simulated measurements are inputs (the mechanistic model is not involved)',
               'numpy semantics modelled: mean / var(ddof=1) / masked-array reductions skip masked entries / '
               'reshape in C order / fancy indexing along the last axis / argsort of distinct integers',
               'cells without any measurement and simulated cells with zero variance are outside the '
               'property (the documented density does not exist there)',
               'floating point: the value at arrays of large magnitude m and spread sd has to agree with the '
               'documented density to 100 eps m / sd (relative) - the error of a backward stable evaluation of '
               'mean and variance; a formula that loses eps (m / sd)^2 (raw moments) is a violation',
               'a filter is sorted (sort_times) before it is made a sub-filter of a composed filter; sorting a '
               'sub-filter afterwards is not exercised']

KINDS = ['G', 'GKDE', 'MIX', 'LN', 'LNKDE']
NAMES = {'G': 'GaussianFilter', 'GKDE': 'GaussianKDEFilter', 'MIX': 'GaussianMixtureFilter',
         'LN': 'LogNormalFilter', 'LNKDE': 'LogNormalKDEFilter'}


def make(chi, kind, K, obs):
    if kind == 'MIX':
        return chi.GaussianMixtureFilter(obs, n_kernels=K)
    return getattr(chi, NAMES[kind])(obs)


# ----------------------------------------------------------------------------------------
# executable spec, written from the class docstrings (not from the code)
# ----------------------------------------------------------------------------------------
def doc_cell(kind, K, o, y, lnkde_bw='measured'):
    """sum over the non-missing measurements `o` of one (observable, time) cell of the documented
    log-density, statistics from the simulated values `y` of the same cell"""
    o = np.asarray(o, float)
    o = o[~np.isnan(o)]
    y = np.asarray(y, float)
    n = len(y)
    if len(o) == 0:
        return 0.0
    with np.errstate(all='ignore'):
        if kind == 'G':
            mu = np.sum(y) / n
            sd = math.sqrt(np.sum((y - mu) ** 2) / (n - 1))
            return float(np.sum(stats.norm.logpdf(o, loc=mu, scale=sd)))
        if kind == 'LN':
            ly = np.log(y)
            mu = np.sum(ly) / n
            sd = math.sqrt(np.sum((ly - mu) ** 2) / (n - 1))
            return float(np.sum(stats.lognorm.logpdf(o, s=sd, scale=math.exp(mu))))
        if kind == 'GKDE':
            mu = np.sum(y) / n
            bw = (4 / (3 * n)) ** (1 / 5) * math.sqrt(np.sum((y - mu) ** 2) / (n - 1))
            lp = stats.norm.logpdf(o[:, None], loc=y[None, :], scale=bw)
            return float(np.sum(sp_logsumexp(lp, axis=1) - math.log(n)))
        if kind == 'MIX':
            p = n // K
            tot = 0.0
            lps = []
            for k in range(K):
                b = y[k * p:(k + 1) * p]            # consecutive block
                mu = np.sum(b) / p
                sd = math.sqrt(np.sum((b - mu) ** 2) / (p - 1))
                lps.append(stats.norm.logpdf(o, loc=mu, scale=sd))
            tot = np.sum(sp_logsumexp(np.array(lps), axis=0) - math.log(K))
            return float(tot)
        if kind == 'LNKDE':
            if lnkde_bw == 'measured':
                lo = np.log(o)
                nj = len(lo)
                if nj < 2:
                    return math.nan
                mu = np.sum(lo) / nj
                bw = (4 / (3 * n)) ** (1 / 5) * math.sqrt(np.sum((lo - mu) ** 2) / (nj - 1))
            else:
                ly = np.log(y)
                mu = np.sum(ly) / n
                bw = (4 / (3 * n)) ** (1 / 5) * math.sqrt(np.sum((ly - mu) ** 2) / (n - 1))
            lp = stats.lognorm.logpdf(o[:, None], s=bw, scale=y[None, :])
            return float(np.sum(sp_logsumexp(lp, axis=1) - math.log(n)))
    raise ValueError(kind)


def doc_value(kind, K, obs, sim, lnkde_bw='measured'):
    obs = np.asarray(obs, float)
    sim = np.asarray(sim, float)
    tot = 0.0
    for r in range(obs.shape[1]):
        for j in range(obs.shape[2]):
            tot += doc_cell(kind, K, obs[:, r, j], sim[:, r, j], lnkde_bw)
    return tot


# ----------------------------------------------------------------------------------------
# helpers
# ----------------------------------------------------------------------------------------
def wire_obs(obs):
    return [[[None if math.isnan(x) else float(x) for x in row] for row in ind] for ind in obs.tolist()]


def wire_filt(kind, K, obs):
    m, R, T = obs.shape
    return [kind, int(K), int(m), int(R), int(T), wire_obs(obs)]


def chi_eval(f, sim):
    """(value, S1 value, gradient as plain array | None, error kind | None)"""
    try:
        with np.errstate(all='ignore'):
            v = f.compute_log_likelihood(sim.copy())
            s1, g = f.compute_sensitivities(sim.copy())
        v = float(np.ma.filled(v, np.nan)) if not np.ma.is_masked(v) else math.nan
        s1 = float(s1)
        g = np.asarray(np.ma.filled(g, np.nan), float)
        return v, s1, g, None
    except Exception as e:  # noqa
        return None, None, None, core.errkind(e)


def gen_obs(rng, m, R, T, masked):
    obs = rng.uniform(0.3, 4.0, (m, R, T))
    if masked:
        mask = rng.random((m, R, T)) < rng.uniform(0.15, 0.6)
        for r in range(R):
            for j in range(T):
                if mask[:, r, j].all():
                    mask[int(rng.integers(m)), r, j] = False
        if not mask.any() and m > 1:
            mask[int(rng.integers(m)), int(rng.integers(R)), int(rng.integers(T))] = True
            for r in range(R):
                for j in range(T):
                    if mask[:, r, j].all():
                        mask[0, r, j] = False
        obs[mask] = np.nan
    return obs


def gen_kind(rng):
    kind = KINDS[int(rng.integers(len(KINDS)))]
    K = int(rng.integers(2, 5)) if kind == 'MIX' else 0
    return kind, K


def gen_nsim(rng, Ks):
    """a number of simulated individuals in 2..12 compatible with every mixture in the composition"""
    base = 1
    for K in Ks:
        if K:
            base = base * K // math.gcd(base, K)
    if base == 1:
        return int(rng.integers(2, 13))
    cands = [n for n in range(2 * base, 13, base)]
    if not cands:
        return 2 * base
    return int(rng.choice(cands))


def perm_class(ord_):
    n = len(ord_)
    if list(ord_) == list(range(n)):
        return 'identity'
    inv = np.argsort(ord_)
    return 'involution' if list(inv) == list(ord_) else 'general'


def fd_checks(ctx, tag, f, sim, g, rng, inp, count=3):
    flat = sim.flatten()
    shape = sim.shape

    def val(x):
        with np.errstate(all='ignore'):
            return float(f.compute_log_likelihood(x.reshape(shape)))
    f0 = abs(val(flat))
    for k in rng.choice(len(flat), size=min(count, len(flat)), replace=False):
        hk = 1e-4 * max(0.05, abs(flat[int(k)]))
        # the last term is the round-off floor of a central difference of a function of size f0
        ok, est = oracle.grad_matches(val, flat, int(k), float(g.flatten()[int(k)]),
                                      h=hk, rtol=5e-5, atol=2e-6 + 2e-14 * f0 / hk)
        ctx.spec(tag, ok, inp, {'entry': np.unravel_index(int(k), shape), 'analytic': g.flatten()[int(k)],
                                'fd': est})


# ----------------------------------------------------------------------------------------
# call histories: one filter object evaluated with DIFFERENT numbers of simulated individuals
# ----------------------------------------------------------------------------------------
def other_nsim(rng, Ks, n):
    """a number of simulated individuals in 2..12 compatible with every mixture, different from `n`"""
    base = 1
    for K in Ks:
        if K:
            base = base * K // math.gcd(base, K)
    cands = [c for c in range(2 * base if base > 1 else 2, 13, base) if c != n]
    if not cands:
        cands = [c for c in range(2 * base, 25, base) if c != n]
    return int(rng.choice(cands)) if cands else None


def call_history(ctx, name, f, docfn, fresh, sim, rng, inp, Ks):
    """`f` has been evaluated at `sim` already.  It is now evaluated with another number of simulated
    individuals and then again with the first one: every result has to be the documented value at the array
    of THAT call (the estimators use the number of simulated individuals of the call), with the sensitivities of
    a fresh object"""
    n = sim.shape[0]
    n2 = other_nsim(rng, Ks, n)
    if n2 is None:
        return
    sim2 = rng.uniform(0.3, 4.0, (n2,) + sim.shape[1:])
    seq = [('other number of simulated individuals', sim2), ('first number again', sim)]
    first_sens = rng.random() < 0.5
    for what, x in seq:
        try:
            with np.errstate(all='ignore'):
                if first_sens:
                    s1, g = f.compute_sensitivities(x.copy())
                    v = f.compute_log_likelihood(x.copy())
                else:
                    v = f.compute_log_likelihood(x.copy())
                    s1, g = f.compute_sensitivities(x.copy())
            v, s1 = float(v), float(s1)
            g = np.asarray(np.ma.filled(g, np.nan), float)
            err = None
        except Exception as e:  # noqa
            v = s1 = g = None
            err = core.errkind(e)
        doc = docfn(x)
        if not math.isfinite(doc):
            continue
        _, _, gf, ef = chi_eval(fresh(), x)
        ok = err is None and core.close(v, doc) and core.close(s1, doc) and g.shape == x.shape and \
            (gf is None or core.close(g, gf, 1e-8, 1e-10))
        ctx.spec('C12.call_history/' + name, ok, dict(inp, n_sim_sequence=[n, n2, n], sim_second_call=sim2),
                 {'call': what, 'n_sim': x.shape[0], 'chi': v, 'S1': s1, 'documented': doc, 'error': err})


# ----------------------------------------------------------------------------------------
# large offset / small spread: simulated values that agree in their leading digits
# ----------------------------------------------------------------------------------------
EPS = 2.220446049250313e-16


def gen_offset_case(rng, kind, K):
    """measurements and simulated values whose spread within a cell is small against their magnitude.
    Returns (obs, sim, centred obs, centred sim, constant, per-value factor of the sensitivities, ratio) with
    documented(obs, sim) = documented(centred) + constant: the Gaussian-type densities are invariant under a
    common shift, the log-normal ones change by -log(a) per measurement under a common scale a (here a power of
    two, so that centred and actual arrays are related exactly)"""
    m = int(rng.integers(1, 6))
    R = int(rng.integers(1, 3))
    T = int(rng.integers(1, 4))
    n = gen_nsim(rng, [K])
    zo = rng.normal(0, 1, (m, R, T))
    zs = rng.normal(0, 1, (n, R, T))
    mask = np.zeros((m, R, T), bool)
    if m >= 2 and rng.random() < 0.6:
        mask = rng.random((m, R, T)) < 0.3
        for r in range(R):
            for j in range(T):
                if mask[:, r, j].all():
                    mask[int(rng.integers(m)), r, j] = False
    if kind in ('LN', 'LNKDE'):
        spread = 10 ** rng.uniform(-3, -1, (1, R, T))
        oc = np.exp(spread * zo)
        sc = np.exp(spread * zs)
        k = rng.integers(300, 1000, (1, R, T)) * rng.choice([-1, 1], (1, R, T))
        a = np.ldexp(1.0, k)
        obs, sim = oc * a, sc * a                      # exact
        ratio = float(np.max(np.abs(k) * math.log(2) / spread))
        n_meas = (~mask).sum(axis=0, keepdims=True)
        const = -float(np.sum(n_meas * k * math.log(2)))
        gfac = 1.0 / a
    else:
        spread = 10 ** rng.uniform(-2, 1, (1, R, T))
        ratio_c = 10 ** rng.uniform(4, 7, (1, R, T))
        if R * T > 1 and rng.random() < 0.5:
            ratio_c[0, int(rng.integers(R)), int(rng.integers(T))] = 1.0     # an ordinary cell among them
        c = spread * ratio_c * rng.choice([-1, 1], (1, R, T))
        obs, sim = c + spread * zo, c + spread * zs
        oc, sc = obs - c, sim - c                      # exact (Sterbenz)
        ratio = float(np.max(ratio_c))
        const = 0.0
        gfac = np.ones((1, R, T))
    obs = obs.copy()
    oc = oc.copy()
    obs[mask] = np.nan
    oc[mask] = np.nan
    return obs, sim, oc, sc, const, gfac, ratio


def magnitude_over_spread(kind, K, obs, sim):
    """largest |value| / (empirical standard deviation of the simulated values the estimators use) over all
    cells and kernel blocks (log-values for the log-normal filters): the condition number of the statistics"""
    with np.errstate(all='ignore'):
        x, o = (np.log(sim), np.log(obs)) if kind in ('LN', 'LNKDE') else (sim, obs)
        n = x.shape[0]
        nb = K if kind == 'MIX' else 1
        p_ = n // nb
        omax = np.nanmax(np.abs(o), axis=0)
        worst = 0.0
        for b in range(nb):
            xb = x[b * p_:(b + 1) * p_]
            sd = np.sqrt(np.sum((xb - np.sum(xb, axis=0) / p_) ** 2, axis=0) / (p_ - 1))
            worst = max(worst, float(np.max(np.maximum(np.max(np.abs(xb), axis=0), omax) / sd)))
    return worst


def run_offset(ctx, chi, rng, i):
    """the documented value at inputs of large magnitude and small spread.  A (backward) stable evaluation of
    the estimators has an error of a few eps * |value| / spread in the statistics - that is the tolerance; a
    formula that cancels (raw moments) loses eps * (|value| / spread)**2"""
    kind, K = gen_kind(rng) if i >= 5 else (KINDS[i % 5], 2 + i % 3 if KINDS[i % 5] == 'MIX' else 0)
    name = NAMES[kind]
    obs, sim, oc, sc, const, gfac, ratio = gen_offset_case(rng, kind, K)
    ratio = max(ratio, magnitude_over_spread(kind, K, obs, sim))
    if not math.isfinite(ratio):
        return
    n_meas = int((~np.isnan(obs)).sum())
    inp = {'filter': name, 'n_kernels': K, 'obs': obs, 'sim': sim, 'magnitude_over_spread': ratio}
    ctx.case('%s/large-offset' % kind, nontrivial='%s/offset/%s/%d/1e%d' % (kind, obs.shape, sim.shape[0],
                                                                            int(math.log10(ratio))), sample=inp)
    f = make(chi, kind, K, obs.copy())
    v, s1, g, err = chi_eval(f, sim)
    doc = doc_value(kind, K, oc, sc, 'simulated') + const
    mo_c = ctx.model('C12.filter', wire_filt(kind, K, oc), [], sc.tolist())
    if not (math.isfinite(doc) and isinstance(mo_c[0], float) and math.isfinite(mo_c[0])):
        return
    ctx.agree('C12.offset.spec_twin', doc, mo_c[0] + const, inp, rtol=1e-8)
    tol_v = 1e-9 + 100 * EPS * ratio
    ctx.spec('C12.large_offset/documented/' + name,
             err is None and core.close(v, doc, tol_v) and core.close(s1, doc, tol_v), inp,
             {'chi': v, 'S1': s1, 'documented (evaluated on the centred arrays)': doc, 'error': err,
              'tolerance (relative)': tol_v})
    if err is not None:
        return
    # the model on the very same arrays (its estimators are the two-pass formulas)
    mo = ctx.model('C12.filter', wire_filt(kind, K, obs), [], sim.tolist())
    ctx.agree('C12.offset.value', v, mo[0], inp, rtol=tol_v)
    # sensitivities: those of the centred problem (model), times d centred / d actual
    gref = np.array(mo_c[1]) * gfac
    scale = float(np.max(np.abs(gref))) if gref.size else 0.0
    tol_g = 1e-8 + 300 * EPS * ratio
    dev = float(np.max(np.abs(g - gref))) if g.shape == gref.shape else math.inf
    ctx.spec('C12.large_offset/grad/' + name, g.shape == sim.shape and dev <= tol_g * scale, inp,
             {'max deviation': dev, 'largest sensitivity': scale, 'tolerance (relative)': tol_g,
              'n_measurements': n_meas})


# ----------------------------------------------------------------------------------------
# one simple filter: correspondence, documented value, invariances, gradient
# ----------------------------------------------------------------------------------------
def both_calls(f, shape):
    """flat vector -> [log-likelihood, S1 score, sensitivities] (the dtype of the input is kept)"""
    def fn(flat):
        a = np.asarray(flat).reshape(shape)
        v = f.compute_log_likelihood(a)
        s, g = f.compute_sensitivities(a)
        v = -math.inf if np.ma.is_masked(v) else float(v)
        return [v, float(s), np.asarray(np.ma.filled(g, np.nan), float)]
    return fn


def whole_sim(rng, n, R, T, Ks):
    """whole-number simulated measurements with positive variance in every cell and kernel block"""
    for _ in range(30):
        a = rng.integers(1, 10, (n, R, T)).astype(float)
        ok = bool((a.var(axis=0) > 0).all())
        for K in Ks:
            if K:
                p_ = n // K
                ok = ok and all((a[k * p_:(k + 1) * p_].var(axis=0) > 0).all() for k in range(K))
        if ok:
            return a
    return None


def api_hygiene(ctx, name, f, sim, rng, inp, Ks):
    """what a caller may rely on besides the numbers: its arrays are not written to, the dtype / container of
    whole-number input does not matter, an input array may be changed in place between calls, and a result
    that is held is not changed by later calls"""
    shape = sim.shape
    fn = both_calls(f, shape)
    s_arg = sim.copy()
    with np.errstate(all='ignore'):
        r1 = fn(s_arg.reshape(-1))
    ctx.spec('C12.arguments_unchanged/simulated_obs/' + name, np.array_equal(s_arg, sim), inp,
             {'after compute_log_likelihood and compute_sensitivities': s_arg})
    other = sim * rng.uniform(0.8, 1.25, shape)
    held = [r1[0], r1[1], r1[2].copy()]
    with np.errstate(all='ignore'):
        fn(other.reshape(-1))
    ctx.spec('C12.results_held/' + name, core.close(held, r1, 1e-12), inp,
             {'result of the first call': held, 'the same object after a second call': r1})
    ctx.inplace_reuse('C12.inplace_reuse/' + name, fn, sim.reshape(-1), other.reshape(-1), inp)
    w = whole_sim(rng, shape[0], shape[1], shape[2], Ks)
    if w is not None:
        ctx.number_types('C12.number_types/' + name, fn, w.reshape(-1), dict(inp, whole_number_sim=w))


def sibling_kind(rng, n):
    kind = KINDS[int(rng.integers(len(KINDS)))]
    if kind != 'MIX':
        return kind, 0
    ks = [K for K in (2, 3, 4) if n % K == 0 and n // K >= 2]
    if not ks:
        return 'G', 0
    return 'MIX', int(rng.choice(ks))


def run_simple(ctx, chi, rng, kind, K, obs, sim, tag='gen'):
    name = NAMES[kind]
    m, R, T = obs.shape
    n = sim.shape[0]
    masked = bool(np.isnan(obs).any())
    inp = {'filter': name, 'n_kernels': K, 'obs': obs, 'sim': sim}
    ctx.case('%s/%s/%s' % (kind, 'masked' if masked else 'plain', tag),
             nontrivial=('%s/%s/%d/%s' % (kind, obs.shape, n, masked)) if (masked or T >= 2) else False,
             sample=inp)
    f = make(chi, kind, K, obs.copy())
    v, s1, g, err = chi_eval(f, sim)
    mo = ctx.model('C12.filter', wire_filt(kind, K, obs), [], sim.tolist())
    ctx.branches.add('%s:%s' % (kind, core.fclass(mo[0])))
    if err is not None:
        ctx.errkinds.add(err)
        ctx.agree('C12.filter.error', err, mo[0], inp)
        return None
    ctx.agree('C12.filter.value', v, mo[0], inp)
    ctx.agree('C12.filter.S1value', s1, mo[0], inp)
    if isinstance(mo[0], float) and math.isfinite(mo[0]):
        ctx.agree('C12.filter.grad', g, np.array(mo[1]), inp, rtol=1e-8, atol=1e-10)
    # ---- the property on the real code
    ctx.spec('C12.S1_value/' + name, core.close(v, s1), inp, {'ll': v, 'S1': s1})
    ctx.spec('C12.grad_shape/' + name, g.shape == sim.shape, inp, {'shape': g.shape})
    every_cell = bool((~np.isnan(obs)).any(axis=0).all())
    if not every_cell or not math.isfinite(v):
        return f, v, g
    # documented value; for the log-normal KDE: the log-normal kernel density with the rule-of-thumb
    # bandwidth of the SIMULATED log-values (what the class computes since 95a9ff7)
    doc = doc_value(kind, K, obs, sim, 'simulated')
    ctx.spec('C12.documented/' + name, core.close(v, doc), inp, {'chi': v, 'documented': doc})
    if math.isfinite(mo[2]):
        ctx.agree('C12.spec_twin', doc, mo[2], inp, rtol=1e-8)
    if kind == 'LNKDE':
        # the class docstring takes the bandwidth from the MEASURED log-values: known finding
        docm = doc_value(kind, K, obs, sim, 'measured')
        if not math.isnan(docm):
            ctx.spec('C12.documented_bandwidth/' + name, core.close(v, docm), inp,
                     {'chi': v, 'documented with the bandwidth of the measured values': docm,
                      'documented with the bandwidth of the simulated values': doc})
            if math.isfinite(mo[3]) and math.isfinite(docm):
                ctx.agree('C12.spec_twin_measured_bandwidth', docm, mo[3], inp, rtol=1e-8)
    fd_checks(ctx, 'C12.grad/' + name, f, sim, g, rng, inp)
    api_hygiene(ctx, name, f, sim, rng, inp, [K])
    call_history(ctx, name, f, lambda x: doc_value(kind, K, obs, x, 'simulated'),
                 lambda: make(chi, kind, K, obs.copy()), sim, rng, inp, [K])
    # NaN padding (appended and interleaved all-missing individuals) and permutation of individuals
    extra = int(rng.integers(1, 4))
    padded = np.concatenate([obs, np.full((extra, R, T), np.nan)], axis=0)
    v2, _, g2, e2 = chi_eval(make(chi, kind, K, padded), sim)
    ctx.spec('C12.nan_padding/' + name, e2 is None and core.close(v2, v) and core.close(g2, g, 1e-8, 1e-10),
             inp, {'extra': extra, 'chi': v, 'padded': v2, 'err': e2})
    perm = rng.permutation(m + extra)
    v3, _, g3, e3 = chi_eval(make(chi, kind, K, padded[perm]), sim)
    ctx.spec('C12.perm_individuals/' + name, e3 is None and core.close(v3, v) and core.close(g3, g, 1e-8, 1e-10),
             inp, {'perm': perm, 'chi': v, 'permuted': v3, 'err': e3})
    if masked and m >= 2:
        # a different arrangement of the same cell contents: compress every cell to the front
        comp = np.full((m, R, T), np.nan)
        for r in range(R):
            for j in range(T):
                vals = obs[:, r, j][~np.isnan(obs[:, r, j])]
                vals = vals[rng.permutation(len(vals))]
                comp[:len(vals), r, j] = vals
        v4, _, g4, e4 = chi_eval(make(chi, kind, K, comp), sim)
        ctx.spec('C12.cell_multiset/' + name, e4 is None and core.close(v4, v) and core.close(g4, g, 1e-8, 1e-10),
                 inp, {'chi': v, 'rearranged': v4})
    return f, v, g


def run_sort(ctx, chi, rng, kind, K, obs, sim, v, g):
    """sort_times histories on a simple filter"""
    name = NAMES[kind]
    m, R, T = obs.shape
    n_calls = int(rng.integers(1, 3))
    ords = [rng.permutation(T) for _ in range(n_calls)]
    # ONE float array handed to several filters (np.asarray does not copy): the filter that is sorted, a
    # sibling built before and a sibling built after
    arr = obs.copy()
    snap = arr.copy()
    sk, sK = sibling_kind(rng, sim.shape[0])
    sib = make(chi, sk, sK, arr)
    vb, _, gb, eb = chi_eval(sib, sim)
    f = make(chi, kind, K, arr)
    ord_args = [np.array(o) for o in ords]
    total = np.arange(T)
    for o in ord_args:
        f.sort_times(o)
        total = total[o]
    sim2 = sim[:, :, total]
    inp_sh = {'filter': name, 'n_kernels': K, 'sibling': NAMES[sk], 'sibling_n_kernels': sK, 'obs': obs, 'sim': sim,
              'orders': ords}
    ctx.spec('C12.arguments_unchanged/observations/' + name, np.array_equal(arr, snap, equal_nan=True), inp_sh,
             {'the caller\'s array after sort_times': arr})
    ctx.spec('C12.arguments_unchanged/order/' + name, all(np.array_equal(a, b) for a, b in zip(ord_args, ords)),
             inp_sh, {})
    va, _, ga, ea = chi_eval(sib, sim)
    ctx.spec('C12.shared_data/sibling_built_before/' + name, ea == eb and core.close(va, vb, 1e-12) and
             (gb is None or core.close(ga, gb, 1e-12)), inp_sh,
             {'sibling before sort_times of the other filter': vb, 'after': va, 'error': ea})
    vc, _, gc, ec = chi_eval(make(chi, sk, sK, arr), sim)
    ctx.spec('C12.shared_data/sibling_built_after/' + name, ec == eb and core.close(vc, vb, 1e-12) and
             (gb is None or core.close(gc, gb, 1e-12)), inp_sh,
             {'sibling built before': vb, 'sibling built from the same array after sort_times': vc, 'error': ec})
    if eb is None:
        ms = ctx.model('C12.sort_shared', wire_filt(kind, K, obs), sk, int(sK), [int(t) for t in total], sim.tolist())
        if len(ms) == 3:
            ctx.agree('C12.sort_shared.sibling_before', vb, ms[0], inp_sh)
            ctx.agree('C12.sort_shared.sibling_after', va, ms[1], inp_sh)
    inp = inp_sh
    ctx.case('%s/sort_times/%s' % (kind, perm_class(total)),
             nontrivial='%s/sort/%d/%d/%s' % (kind, T, n_calls, perm_class(total)) if T >= 2 else False)
    v2, s2, g2, err = chi_eval(f, sim2)
    mo = ctx.model('C12.filter', wire_filt(kind, K, obs), [o.tolist() for o in ords], sim2.tolist())
    ctx.agree('C12.sort.value', v2 if err is None else err, mo[0], inp)
    if err is None and isinstance(mo[0], float) and math.isfinite(mo[0]):
        ctx.agree('C12.sort.grad', g2, np.array(mo[1]), inp, rtol=1e-8, atol=1e-10)
    ctx.spec('C12.time_reorder/' + name, err is None and core.close(v2, v) and
             core.close(g2, g[:, :, total], 1e-8, 1e-10), inp,
             {'chi': v, 'after sort_times on consistently reordered input': v2, 'err': err})
    # the same through the constructor
    v3, _, g3, e3 = chi_eval(make(chi, kind, K, obs[:, :, total]), sim2)
    ctx.spec('C12.time_reorder/' + name, e3 is None and core.close(v3, v) and
             core.close(g3, g[:, :, total], 1e-8, 1e-10), inp, {'chi': v, 'reordered data': v3})


def sort_errors(ctx, chi, rng, kind, K, obs, sim):
    T = obs.shape[2]
    bad = [list(range(T)) + [0], [0] * T if T >= 2 else [0, 0]]
    for o in bad:
        f = make(chi, kind, K, obs.copy())
        try:
            f.sort_times(o)
            out = 'ok'
        except Exception as e:  # noqa
            out = core.errkind(e)
        mo = ctx.model('C12.filter', wire_filt(kind, K, obs), [o], sim.tolist())
        ctx.errkinds.add(out)
        ctx.agree('C12.sort.error', out, mo[0], {'filter': NAMES[kind], 'order': o, 'T': T})
        ctx.case('sort_times/malformed')


# ----------------------------------------------------------------------------------------
# composed filters
# ----------------------------------------------------------------------------------------
def split_points(rng, T):
    if T == 1:
        return [0, 1]
    k = int(rng.integers(1, min(T, 3) + 1))
    cuts = sorted(rng.choice(np.arange(1, T), size=k - 1, replace=False).tolist()) if k > 1 else []
    return [0] + cuts + [T]


def run_composed(ctx, chi, rng, obs, sim_for, same_kind):
    """obs: (m, R, T) split into consecutive time blocks, one filter per block"""
    m, R, T = obs.shape
    cuts = split_points(rng, T)
    blocks = [(cuts[i], cuts[i + 1]) for i in range(len(cuts) - 1)]
    if same_kind:
        kind, K = gen_kind(rng)
        kinds = [(kind, K)] * len(blocks)
    else:
        kinds = [gen_kind(rng) for _ in blocks]
    n = gen_nsim(rng, [K for _, K in kinds])
    sim = sim_for(n)
    # the sub-filters are handed VIEWS of one array of the caller
    arr = obs.copy()
    filters = [make(chi, k, K, arr[:, :, a:b]) for (k, K), (a, b) in zip(kinds, blocks)]
    C = chi.ComposedPopulationFilter(filters)
    use_order = rng.random() < 0.7
    ord_ = rng.permutation(T) if use_order else None
    if use_order and rng.random() < 0.15:
        ord_ = np.arange(T)
    inp = {'filters': [[NAMES[k], K, [a, b]] for (k, K), (a, b) in zip(kinds, blocks)], 'obs': obs,
           'sim': sim, 'order': ord_}
    pc = 'none' if ord_ is None else perm_class(ord_)
    ctx.case('composed/%s/%d-blocks/order-%s' % ('same' if same_kind else 'mixed', len(blocks), pc),
             nontrivial='composed/%s/%s/%s/%d' % ([k for k, _ in kinds], blocks, pc, n))
    v0, s0, g0, e0 = chi_eval(C, sim)          # before any sort_times
    if ord_ is not None:
        C.sort_times(ord_)
        sim_in = sim[:, :, ord_]
    else:
        sim_in = sim
    v, s1, g, err = chi_eval(C, sim_in)
    wf = [wire_filt(k, K, obs[:, :, a:b]) for (k, K), (a, b) in zip(kinds, blocks)]
    mo = ctx.model('C12.comp', wf, None if ord_ is None else ord_.tolist(), sim_in.tolist())
    ctx.branches.add('comp:' + core.fclass(mo[0]) + (':deferred' if len(mo) > 2 and mo[2] else ''))
    if err is not None:
        ctx.agree('C12.comp.error', err, mo[0], inp)
        return
    ctx.agree('C12.comp.value', v, mo[0], inp)
    if isinstance(mo[0], float) and math.isfinite(mo[0]):
        ctx.agree('C12.comp.grad', g, np.array(mo[1]), inp, rtol=1e-8, atol=1e-10)
    ctx.agree('C12.comp.n_times', int(C.n_times()), T, inp)
    # ---- property
    ctx.spec('C12.composed/S1_value', core.close(v, s1), inp, {'ll': v, 'S1': s1})
    doc = sum(doc_value(k, K, obs[:, :, a:b], sim[:, :, a:b], 'simulated')
              for (k, K), (a, b) in zip(kinds, blocks))
    if math.isfinite(v):
        ctx.spec('C12.composed/documented_sum', core.close(v0, doc), inp, {'chi': v0, 'documented': doc})
        ctx.spec('C12.composed/time_reorder', core.close(v, v0) and
                 core.close(g, g0 if ord_ is None else g0[:, :, ord_], 1e-8, 1e-10), inp,
                 {'unsorted': v0, 'deferred order on consistently reordered input': v})
        fd_checks(ctx, 'C12.composed/grad', C, sim_in, g, rng, inp, count=3)
        api_hygiene(ctx, 'composed', C, sim_in, rng, inp, [K for _, K in kinds])

        def doc_in(x):
            xc = x
            if ord_ is not None:
                xc = np.empty_like(x)
                xc[:, :, ord_] = x             # column j of the input holds time point ord_[j]
            return sum(doc_value(k, K, obs[:, :, a:b], xc[:, :, a:b], 'simulated')
                       for (k, K), (a, b) in zip(kinds, blocks))

        def fresh():
            D = chi.ComposedPopulationFilter([make(chi, k, K, obs[:, :, a:b].copy())
                                              for (k, K), (a, b) in zip(kinds, blocks)])
            if ord_ is not None:
                D.sort_times(ord_)
            return D
        call_history(ctx, 'composed', C, doc_in, fresh, sim_in, rng, inp, [K for _, K in kinds])
        ctx.spec('C12.arguments_unchanged/observations/composed', np.array_equal(arr, obs, equal_nan=True), inp,
                 {'the caller\'s array after sort_times and evaluations': arr})
        if same_kind:
            kind, K = kinds[0]
            vs, _, gs, es = chi_eval(make(chi, kind, K, obs.copy()), sim)
            ctx.spec('C12.split/' + NAMES[kind], es is None and core.close(v0, vs) and
                     core.close(g0, gs, 1e-8, 1e-10), inp, {'single filter': vs, 'composed': v0})


# ----------------------------------------------------------------------------------------
# nested compositions: composed filters (with their own deferred time order) as sub-filters
# ----------------------------------------------------------------------------------------
def gen_leaf(rng, R, tmax=3):
    kind, K = gen_kind(rng)
    m = int(rng.integers(1, 5))
    t = int(rng.integers(1, max(1, min(3, tmax)) + 1))
    obs = gen_obs(rng, m, R, t, rng.random() < 0.5)
    srt = rng.permutation(t) if (t >= 2 and rng.random() < 0.3) else None
    return {'kind': kind, 'K': K, 'obs': obs, 'sort': srt}


def gen_node(rng, R, depth, budget):
    """a ComposedPopulationFilter of 1-3 sub-filters (simple filters or composed filters) with at most `budget`
    time points; `order` is the argument of its sort_times call (None: never called)"""
    children = []
    for _ in range(int(rng.integers(1, 4))):
        left = budget - tree_T({'children': children})
        if left <= 0:
            break
        if depth > 0 and left >= 2 and rng.random() < 0.45:
            children.append(gen_node(rng, R, depth - 1, min(left, 4)))
        else:
            children.append(gen_leaf(rng, R, left))
    node = {'children': children}
    T = tree_T(node)
    u = rng.random()
    node['order'] = None if u < 0.15 else (np.arange(T) if (u < 0.25 or T < 2) else rng.permutation(T))
    return node


def is_leaf(node):
    return 'kind' in node


def tree_T(node):
    return node['obs'].shape[2] if is_leaf(node) else sum(tree_T(c) for c in node['children'])


def tree_Ks(node):
    return [node['K']] if is_leaf(node) else [K for c in node['children'] for K in tree_Ks(c)]


def tree_depth(node):
    return 0 if is_leaf(node) else 1 + max(tree_depth(c) for c in node['children'])


def leaf_obs(node):
    """the measurements of a simple filter in the order of its time points after its own sort_times"""
    return node['obs'] if node['sort'] is None else node['obs'][:, :, node['sort']]


def tree_build(chi, node):
    """bottom-up: every filter is sorted BEFORE it becomes a sub-filter"""
    if is_leaf(node):
        f = make(chi, node['kind'], node['K'], node['obs'].copy())
        if node['sort'] is not None:
            f.sort_times(np.array(node['sort']))
        return f
    C = chi.ComposedPopulationFilter([tree_build(chi, c) for c in node['children']])
    if node['order'] is not None:
        C.sort_times(np.array(node['order']))
    return C


def tree_ref(chi, node, sim, want_grad=True):
    """documented value of a (nested) composition and the sensitivities assembled from FRESH simple filters.
    Column j of `sim` holds the simulated measurements of the node's time point order[j] (its time points are
    the concatenated time points of its sub-filters)"""
    if is_leaf(node):
        o = leaf_obs(node)
        val = doc_value(node['kind'], node['K'], o, sim, 'simulated')
        g = chi_eval(make(chi, node['kind'], node['K'], o.copy()), sim)[2] if want_grad else None
        return val, g
    canon = sim
    if node['order'] is not None:
        canon = np.empty_like(sim)
        canon[:, :, node['order']] = sim
    tot, off, gs = 0.0, 0, []
    for c in node['children']:
        t = tree_T(c)
        v, g = tree_ref(chi, c, canon[:, :, off:off + t], want_grad)
        tot += v
        gs.append(g)
        off += t
    if not want_grad or any(g is None for g in gs):
        return tot, None
    gc = np.concatenate(gs, axis=2)
    return tot, (gc if node['order'] is None else gc[:, :, node['order']])


def tree_wire(node):
    if is_leaf(node):
        return ['L', wire_filt(node['kind'], node['K'], node['obs']),
                [] if node['sort'] is None else [[int(t) for t in node['sort']]]]
    return ['N', [tree_wire(c) for c in node['children']],
            None if node['order'] is None else [int(t) for t in node['order']]]


def tree_show(node):
    if is_leaf(node):
        return {'filter': NAMES[node['kind']], 'n_kernels': node['K'], 'obs': node['obs'], 'sort_times': node['sort']}
    return {'composed': [tree_show(c) for c in node['children']], 'sort_times': node['order']}


def run_nested(ctx, chi, rng, i):
    R = int(rng.integers(1, 3))
    root = gen_node(rng, R, 2, 6)
    inner = [k for k, c in enumerate(root['children']) if not is_leaf(c)]
    if not inner:
        # at least one sub-filter is a composed filter, with an order of its own where it has >= 2 times
        k = int(rng.integers(len(root['children'])))
        sub = gen_node(rng, R, 1, 3)
        Ts = tree_T(sub)
        if Ts >= 2 and (sub['order'] is None or perm_class(sub['order']) == 'identity'):
            sub['order'] = np.roll(np.arange(Ts), int(rng.integers(1, Ts)))
        root['children'][k] = sub
        root['order'] = None if rng.random() < 0.4 else rng.permutation(tree_T(root))
        inner = [k]
    T = tree_T(root)
    Ks = tree_Ks(root)
    n = int(rng.choice([c for c in range(2, 13) if all(not K or (c % K == 0 and c // K >= 2) for K in Ks)][:4]))
    sim = rng.uniform(0.3, 4.0, (n, R, T)) * rng.uniform(0.5, 2.0, (1, 1, T))
    inp = {'tree': tree_show(root), 'sim': sim}
    sorted_inner = any(root['children'][k]['order'] is not None and
                       perm_class(root['children'][k]['order']) != 'identity' for k in inner)
    ctx.case('nested/depth-%d/%s/outer-%s' % (tree_depth(root), 'inner-sorted' if sorted_inner else 'inner-unsorted',
                                              'none' if root['order'] is None else perm_class(root['order'])),
             nontrivial='nested/%s/%d' % (json.dumps(jsonable_tree(root)), n), sample=None)
    # the inner composed filter on its own, before it is nested
    k0 = inner[0]
    sub = root['children'][k0]
    subf = tree_build(chi, sub)
    simsub = rng.uniform(0.3, 4.0, (n, R, tree_T(sub)))
    vs0, _, gs0, es0 = chi_eval(subf, simsub)
    subs = [subf if k == k0 else tree_build(chi, c) for k, c in enumerate(root['children'])]
    C = chi.ComposedPopulationFilter(subs)
    if root['order'] is not None:
        C.sort_times(np.array(root['order']))
    v, s1, g, err = chi_eval(C, sim)
    mo = ctx.model('C12.nested', tree_wire(root), sim.tolist())
    if err is not None:
        ctx.agree('C12.nested.error', err, mo[0], inp)
        ctx.spec('C12.nested/evaluates', False, inp, {'error': err})
        return
    ctx.agree('C12.nested.value', v, mo[0], inp)
    if isinstance(mo[0], float) and math.isfinite(mo[0]):
        ctx.agree('C12.nested.grad', g, np.array(mo[1]), inp, rtol=1e-8, atol=1e-10)
    ctx.agree('C12.nested.n_times', int(C.n_times()), mo[2], inp)
    ctx.spec('C12.nested/n_times', int(C.n_times()) == T and int(C.n_observables()) == R, inp,
             {'n_times': int(C.n_times()), 'time points of the sub-filters': T})
    doc, gref = tree_ref(chi, root, sim)
    if not (math.isfinite(doc) and math.isfinite(v)):
        return
    ctx.spec('C12.nested/documented_sum', core.close(v, doc), inp, {'chi': v, 'documented': doc})
    ctx.spec('C12.nested/S1_value', core.close(s1, doc), inp, {'S1': s1, 'documented': doc})
    ctx.spec('C12.nested/grad', g.shape == sim.shape and gref is not None and core.close(g, gref, 1e-8, 1e-10), inp,
             {'chi': g, 'sensitivities of fresh simple filters at the columns they model': gref})
    fd_checks(ctx, 'C12.nested/grad_fd', C, sim, g, rng, inp, count=2)
    # the inner filter still works on its own, unchanged by having been nested and evaluated
    vs1, _, gs1, es1 = chi_eval(subf, simsub)
    docsub = tree_ref(chi, sub, simsub, want_grad=False)[0]
    ctx.spec('C12.nested/inner_on_its_own', es0 is None and es1 is None and core.close(vs0, vs1, 1e-12) and
             core.close(gs0, gs1, 1e-12) and (not math.isfinite(docsub) or core.close(vs0, docsub)), inp,
             {'before nesting': vs0, 'after': vs1, 'documented': docsub})
    call_history(ctx, 'nested', C, lambda x: tree_ref(chi, root, x, want_grad=False)[0],
                 lambda: tree_build(chi, root), sim, rng, inp, Ks)


def jsonable_tree(node):
    if is_leaf(node):
        return [node['kind'], node['K'], list(node['obs'].shape), node['sort'] is not None]
    return [[jsonable_tree(c) for c in node['children']], None if node['order'] is None else perm_class(node['order'])]


def composed_errors(ctx, chi, rng):
    obs_a = rng.uniform(0.5, 2, (2, 1, 2))
    obs_b = rng.uniform(0.5, 2, (2, 2, 1))
    try:
        chi.ComposedPopulationFilter([chi.GaussianFilter(obs_a), chi.GaussianFilter(obs_b)])
        out = 'ok'
    except Exception as e:  # noqa
        out = core.errkind(e)
    mo = ctx.model('C12.comp', [wire_filt('G', 0, obs_a), wire_filt('G', 0, obs_b)], None,
                   rng.uniform(0.5, 2, (2, 1, 3)).tolist())
    ctx.agree('C12.comp.constructor', out, mo[0], {'R': [1, 2]})
    C = chi.ComposedPopulationFilter([chi.GaussianFilter(obs_a), chi.GaussianFilter(obs_a)])
    for o in ([0, 1, 2], [0, 1, 1, 2]):
        try:
            C.sort_times(o)
            out = 'ok'
        except Exception as e:  # noqa
            out = core.errkind(e)
        mo = ctx.model('C12.comp', [wire_filt('G', 0, obs_a), wire_filt('G', 0, obs_a)], o,
                       rng.uniform(0.5, 2, (2, 1, 4)).tolist())
        ctx.agree('C12.comp.sort_error', out, mo[0], {'order': o})
        ctx.errkinds.add(out)
    ctx.case('composed/malformed')


# ----------------------------------------------------------------------------------------
# boundary stream
# ----------------------------------------------------------------------------------------
def boundary(ctx, chi, rng):
    for kind in KINDS:
        K = 2 if kind == 'MIX' else 0
        name = NAMES[kind]
        # every measurement missing -> -inf, gradient of the input's shape
        obs = np.full((2, 2, 3), np.nan)
        sim = rng.uniform(0.5, 3, (4, 2, 3))
        f = make(chi, kind, K, obs)
        v, s1, g, err = chi_eval(f, sim)
        mo = ctx.model('C12.filter', wire_filt(kind, K, obs), [], sim.tolist())
        inp = {'filter': name, 'obs': obs, 'sim': sim}
        ctx.agree('C12.filter.all_missing', v if err is None else err, mo[0], inp)
        ctx.spec('C12.all_missing/' + name, err is None and v == -math.inf and s1 == -math.inf and
                 g.shape == sim.shape, inp, {'value': v, 'S1': s1})
        ctx.case('boundary/all-missing/' + kind)
        # zero variance in a cell without missing values -> nan
        obs = rng.uniform(0.5, 3, (2, 1, 2))
        sim = rng.uniform(0.5, 3, (4, 1, 2))
        sim[:, 0, 1] = 1.5
        f = make(chi, kind, K, obs)
        v, s1, g, err = chi_eval(f, sim)
        mo = ctx.model('C12.filter', wire_filt(kind, K, obs), [], sim.tolist())
        if kind == 'GKDE':
            # exp(-0/0) - chi's value is nan as well; class only
            pass
        ctx.agree('C12.filter.zero_variance', core.fclass(v) if err is None else err,
                  'nan' if mo[0] == 'undef' else core.fclass(mo[0]), {'filter': name, 'sim': sim})
        ctx.case('boundary/zero-variance/' + kind)
    # mixture: number of simulated individuals not a multiple of the number of kernels
    obs = rng.uniform(0.5, 3, (2, 1, 2))
    sim = rng.uniform(0.5, 3, (5, 1, 2))
    f = chi.GaussianMixtureFilter(obs, n_kernels=2)
    v, s1, g, err = chi_eval(f, sim)
    mo = ctx.model('C12.filter', wire_filt('MIX', 2, obs), [], sim.tolist())
    ctx.agree('C12.filter.kernel_multiple', err, mo[0], {'n_sim': 5, 'n_kernels': 2})
    ctx.errkinds.add(str(err))
    ctx.case('boundary/kernel-multiple')


WITNESS = {'obs': [[[2.0]], [[3.0]]], 'sim': [[[2.0]], [[3.0]]]}


def witness(ctx, chi):
    """replay of C12_lognormalKDE_jacobian_counterexample on chi: the LEGACY class exceeded the documented
    value by log 2 + log 3 on this input; the repaired class must return the documented value"""
    obs = np.array(WITNESS['obs'])
    sim = np.array(WITNESS['sim'])
    f = chi.LogNormalKDEFilter(obs)
    v = float(f.compute_log_likelihood(sim))
    s1 = float(f.compute_sensitivities(sim)[0])
    doc = doc_value('LNKDE', 0, obs, sim, 'simulated')
    inp = {'filter': 'LogNormalKDEFilter', 'n_kernels': 0, 'obs': obs, 'sim': sim, 'witness': True}
    ctx.spec('C12.documented/LogNormalKDEFilter', core.close(v, doc) and core.close(s1, doc), inp,
             {'chi': v, 'S1': s1, 'documented': doc, 'legacy value': doc + float(np.sum(np.log(obs)))})
    ctx.case('witness/lnkde')


def simple_case(ctx, chi, rng, kind, K, obs, sim, i):
    res = run_simple(ctx, chi, rng, kind, K, obs, sim)
    if res is None:
        return
    f, v, g = res
    if math.isfinite(v):
        run_sort(ctx, chi, rng, kind, K, obs, sim, v, g)
    if i % 10 == 0:
        sort_errors(ctx, chi, rng, kind, K, obs, sim)


def run(ctx):
    chi = core.import_chi()
    quick = ctx.tier == 'quick'
    n_simple = 150 if quick else 2500
    n_comp = 90 if quick else 1500
    ctx.guard(boundary, ctx, chi, ctx.sub_rng(10 ** 6))
    ctx.guard(composed_errors, ctx, chi, ctx.sub_rng(10 ** 6 + 1))
    ctx.guard(witness, ctx, chi)
    for i in range(n_simple):
        rng = ctx.sub_rng(i)
        kind, K = gen_kind(rng) if i >= 10 else (KINDS[i % 5], 2 if KINDS[i % 5] == 'MIX' else 0)
        m = int(rng.integers(1, 7))
        R = int(rng.integers(1, 4))
        T = int(rng.integers(1, 6))
        n = gen_nsim(rng, [K])
        masked = rng.random() < 0.7 and m >= 1
        obs = gen_obs(rng, m, R, T, masked)
        sim = rng.uniform(0.3, 4.0, (n, R, T))
        if rng.random() < 0.25:
            sim = sim * rng.uniform(0.2, 3.0, (1, R, T))
        ctx.guard(simple_case, ctx, chi, rng, kind, K, obs, sim, i)
    for i in range(40 if quick else 400):
        ctx.guard(run_offset, ctx, chi, ctx.sub_rng(700000 + i), i)
    for i in range(30 if quick else 250):
        ctx.guard(run_nested, ctx, chi, ctx.sub_rng(800000 + i), i)
    for i in range(n_comp):
        rng = ctx.sub_rng(500000 + i)
        m = int(rng.integers(1, 7))
        R = int(rng.integers(1, 4))
        T = int(rng.integers(1, 6))
        obs = gen_obs(rng, m, R, T, rng.random() < 0.7)
        base = rng.uniform(0.3, 4.0, (12, R, T))
        ctx.guard(run_composed, ctx, chi, rng, obs, lambda n: base[:n].copy(), same_kind=(i % 2 == 0))


def replay(ctx, data):
    chi = core.import_chi()
    bad = data.get('failing', {})
    inp = bad.get('input', {})
    print('tag:', bad.get('tag'))
    print('detail:', json.dumps(bad.get('detail'))[:1500])

    def arr(x):
        return np.array([[[math.nan if (v is None or v == 'nan') else v for v in row] for row in ind]
                         for ind in x], float)
    if 'filter' in inp:
        kind = [k for k, v in NAMES.items() if v == inp['filter']][0]
        K = inp.get('n_kernels', 2) or 2
        obs = arr(inp['obs'])
        sim = arr(inp['sim'])
        f = make(chi, kind, K, obs)
        v, s1, g, err = chi_eval(f, sim)
        print('chi value', v, 'S1', s1, 'error', err)
        print('documented', doc_value(kind, K, obs, sim))
        if kind == 'LNKDE':
            print('documented (bandwidth of the simulated values)', doc_value(kind, K, obs, sim, 'simulated'))
        print('model', ctx.model('C12.filter', wire_filt(kind, K, obs), [], sim.tolist())[:1])
        print('chi gradient', None if g is None else g.tolist())
    elif 'filters' in inp:
        obs = arr(inp['obs'])
        sim = arr(inp['sim'])
        fs = []
        for nm, K, (a, b) in inp['filters']:
            kind = [k for k, v in NAMES.items() if v == nm][0]
            fs.append(make(chi, kind, K, obs[:, :, a:b]))
        C = chi.ComposedPopulationFilter(fs)
        print('chi composed value (no order)', chi_eval(C, sim)[0])
        if inp.get('order') is not None:
            o = np.array(inp['order'])
            C.sort_times(o)
            print('chi composed value (deferred order, reordered input)', chi_eval(C, sim[:, :, o])[0])
    elif 'tree' in inp:
        def node_of(t):
            if 'filter' in t:
                kind = [k for k, v in NAMES.items() if v == t['filter']][0]
                return {'kind': kind, 'K': t.get('n_kernels') or 0, 'obs': arr(t['obs']),
                        'sort': None if t.get('sort_times') is None else np.array(t['sort_times'])}
            return {'children': [node_of(c) for c in t['composed']],
                    'order': None if t.get('sort_times') is None else np.array(t['sort_times'])}
        root = node_of(inp['tree'])
        sim = arr(inp['sim'])
        v, s1, g, err = chi_eval(tree_build(chi, root), sim)
        print('chi nested value', v, 'S1', s1, 'error', err)
        print('documented sum', tree_ref(chi, root, sim, want_grad=False)[0])
        print('model', ctx.model('C12.nested', tree_wire(root), sim.tolist())[:1])
    if ctx.lean is not None:
        ctx.lean.close()
    return 0
