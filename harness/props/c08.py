"""C08 — fixing parameters is exact substitution, reversible and order-independent"""
import copy
import math
import numpy as np
import pints

import core
import refsim
import toy

REQUIRED_THEOREMS = [
    'C08_history_independent', 'C08_eval_substitution', 'C08_grad_restriction', 'C08_names',
    'C08_counts', 'C08_order_independent', 'C08_release_restores', 'C08_buffer_garbage_irrelevant',
    'C08_composite', 'C08_resized_history', 'C08_resized_observables', 'C08_resize_positional_counterexample',
    'C08_sim_protocol_kept', 'C08_sens_columns_are_free', 'C08_sens_columns_count', 'C08_sim_slips_counterexample']
RULE = ('random histories (length 0-12; thorough: also all histories of length <=3 over a small alphabet) '
        'of fix / re-fix / release dictionaries on every reducible object (Reduced error / mechanistic / '
        'population models, LogLikelihood, PredictiveModel, PopulationPredictiveModel); after every '
        'call names, counts, values, pointwise values, restricted gradients and seeded samples are compared '
        'with the unfixed object under substitution; non-trivial = history with a re-fix or a release of a '
        'previously fixed name; distinct = distinct (object kind, history shape). Lives of reduced population '
        'models around heterogeneous blocks (any position, 1-4 sub-models) in which the number of modelled '
        'individuals changes between the calls (set_n_ids, HierarchicalLogLikelihood over the model, controller '
        'receiving the model; also renamed dimensions): after every event compared with a FRESH unfixed model '
        'at the net dictionary; non-trivial = a fixed pair carried over / dropped by a change of the parameter list. '
        'Library ODE models (plain SBML / PKPD with administration and dosing regimen, parameters renamed by the user; '
        'harness/refsim.py as solver) as ReducedMechanisticModel and inside a LogLikelihood: same histories, sensitivities '
        'left on / off before the fix calls, first evaluation before or after the first fix call')
ASSUMPTIONS = ['the wrapped evaluation is an arbitrary function of the full parameter vector (theorem '
               'C08_eval_substitution is parametric in it)',
               'dict semantics: last binding of a key wins; unknown names are ignored',
               'when the parameter list of a wrapped population model changes (number of individuals), the fixed '
               'name-value pairs whose names are still parameters stay fixed, the others are forgotten '
               '(C08_resized_history assumes distinct parameter names and that a change of the list changes its length)',
               'library ODE models: harness/refsim.py stands in for the native solver; the simulator state machine '
               '(lean/ChiModel/ReducedSim.lean: new simulator on every sensitivity request, protocol set again, request by '
               'public name) is proved about but not driven through the correspondence (C08_sens_columns_are_free assumes '
               'distinct public names)']


# ----------------------------------------------------------------------------------------------
# adapters: one per kind of reducible object
# ----------------------------------------------------------------------------------------------
class Adapter(object):
    kind = '?'

    def names(self):            # full names (fresh object)
        raise NotImplementedError

    def fix(self, d):
        raise NotImplementedError

    def reported(self):         # (names, n_parameters, n_fixed or None)
        raise NotImplementedError

    def evals(self, free):      # dict label -> value of the reduced object
        raise NotImplementedError

    def ref_evals(self, full, free_mask):
        raise NotImplementedError

    def full_seen(self):        # the vector the wrapped object received, if observable
        return None

    def draw(self, rng, name):
        return float(rng.uniform(0.5, 1.5))

    def tag_kind(self):
        return self.kind.split('/')[0]

    def disturb_copy(self, rng):
        """a copy of the object is taken and fixed / released on: the original is a different object"""
        o = getattr(self, 'obj', None)
        if o is None:
            return
        c = o.copy() if hasattr(o, 'copy') else copy.deepcopy(o)
        names = self.names()
        d = {}
        for j in rng.choice(len(names), size=int(rng.integers(1, len(names) + 1)), replace=False):
            d[names[j]] = None if rng.random() < 0.3 else self.draw(rng, names[j])
        try:
            c.fix_parameters(d)
        except ValueError:
            pass


class RecEM(object):
    """mixin: records the parameters the wrapped error model receives"""
    last = None

    def compute_log_likelihood(self, parameters, model_output, observations):
        type(self).last = np.array(parameters, float).copy()
        return super().compute_log_likelihood(parameters, model_output, observations)


def em_classes(chi):
    return [chi.GaussianErrorModel, chi.MultiplicativeGaussianErrorModel,
            chi.ConstantAndMultiplicativeGaussianErrorModel, chi.LogNormalErrorModel]


class ErrAdapter(Adapter):
    kind = 'ReducedErrorModel'

    def __init__(self, chi, rng):
        base = em_classes(chi)[int(rng.integers(4))]
        self.Rec = type('Rec' + base.__name__, (RecEM, base), {})
        self.ref = base()
        self.obj = chi.ReducedErrorModel(self.Rec())
        n = int(rng.integers(1, 6))
        self.yb = rng.uniform(0.5, 2.0, n)
        self.ob = rng.uniform(0.5, 2.0, n)
        self.S = rng.normal(size=(n, int(rng.integers(0, 6))))     # width != number of error parameters too
        self.kind = 'ReducedErrorModel/' + base.__name__

    def names(self):
        return self.ref.get_parameter_names()

    def fix(self, d):
        self.obj.fix_parameters(d)

    def reported(self):
        return self.obj.get_parameter_names(), self.obj.n_parameters(), self.obj.n_fixed_parameters()

    def evals(self, free):
        o = self.obj
        v = o.compute_log_likelihood(free, self.yb, self.ob)
        self._seen = self.Rec.last
        return {'value': v, 'pointwise': o.compute_pointwise_ll(free, self.yb, self.ob),
                'grad': o.compute_sensitivities(free, self.yb, self.S, self.ob)[1],
                'S1score': o.compute_sensitivities(free, self.yb, self.S, self.ob)[0],
                'sample': o.sample(free, self.yb, n_samples=3, seed=11)}

    def ref_evals(self, full, mask):
        r = self.ref
        g = np.asarray(r.compute_sensitivities(full, self.yb, self.S, self.ob)[1]).flatten()
        gm = np.concatenate([np.ones(self.S.shape[1], bool), mask])
        return {'value': r.compute_log_likelihood(full, self.yb, self.ob),
                'pointwise': r.compute_pointwise_ll(full, self.yb, self.ob),
                'grad': g[gm], 'S1score': r.compute_sensitivities(full, self.yb, self.S, self.ob)[0],
                'sample': r.sample(full, self.yb, n_samples=3, seed=11)}

    def full_seen(self):
        return self._seen


class MechAdapter(Adapter):
    kind = 'ReducedMechanisticModel'

    def __init__(self, chi, rng):
        n_out, n_par = int(rng.integers(1, 3)), int(rng.integers(1, 5))
        seed = int(rng.integers(1000))
        self.inner = toy.ToyModel(n_out, n_par, seed)
        self.ref = toy.ToyModel(n_out, n_par, seed)
        self.obj = chi.ReducedMechanisticModel(self.inner)
        self.times = np.sort(rng.uniform(0, 5, int(rng.integers(1, 5))))

    def names(self):
        return self.ref.parameters()

    def fix(self, d):
        self.obj.fix_parameters(d)

    def reported(self):
        return self.obj.parameters(), self.obj.n_parameters(), self.obj.n_fixed_parameters()

    def evals(self, free):
        self.flip = not getattr(self, 'flip', False)
        out = {}
        try:
            if not self.obj.has_sensitivities():
                self.obj.enable_sensitivities(True)
            v2, s = self.obj.simulate(free, self.times)
            out['S1score'] = v2
            out['grad'] = s
        except ValueError:
            out['grad'] = 'err:valueError'
        try:
            self.obj.enable_sensitivities(False)
        except Exception:
            pass
        out['value'] = self.obj.simulate(free, self.times)
        self._seen = self.seen_now()
        if self.flip:
            # leave the sensitivities switched on for the next fix / release call
            try:
                self.obj.enable_sensitivities(True)
            except ValueError:
                pass
        return out

    def seen_now(self):
        return np.array(self.inner.last_parameters, float)

    def ref_evals(self, full, mask):
        self.ref.enable_sensitivities(False)
        v = self.ref.simulate(full, self.times)
        self.ref.enable_sensitivities(True)
        _, s = self.ref.simulate(full, self.times)
        self.ref.enable_sensitivities(False)
        return {'value': v, 'S1score': v, 'grad': s[:, :, mask]}

    def full_seen(self):
        return self._seen


# ----------------------------------------------------------------------------------------------
# mechanistic models that are ODE systems from the model library (SBMLModel / PKPDModel): route of
# administration, dosing regimen, user-defined parameter names.  harness/refsim.py stands in for the absent
# native solver (installed in run()).  The reference is always a FRESH unfixed model of the same recipe.
# ----------------------------------------------------------------------------------------------
def gen_lib_recipe(rng):
    which = ['pk1', 'pk1', 'pk1', 'koch', 'koch_reparametrised'][int(rng.integers(5))]
    rec = {'model': which, 'administration': None, 'regimen': None, 'regimen_set_through_wrapper': False,
           'renamed': {}}
    if which == 'pk1':
        rec['administration'] = [None, 'direct', 'direct', 'depot'][int(rng.integers(4))]
        if rec['administration'] is not None and rng.random() < 0.8:
            reg = {'dose': float(rng.uniform(2.0, 20.0)), 'start': float(rng.choice([0.0, 0.25, 0.5, 1.0])),
                   'duration': float(rng.choice([0.05, 0.1, 0.5])), 'period': None, 'num': None}
            if rng.random() < 0.5:
                reg['period'] = float(rng.choice([1.0, 1.5, 2.0]))
                reg['num'] = None if rng.random() < 0.4 else int(rng.integers(1, 4))
            rec['regimen'] = reg
            rec['regimen_set_through_wrapper'] = bool(rng.random() < 0.3)
    rec['rename_p'] = [0.0, 0.0, 0.5, 1.0][int(rng.integers(4))]
    rec['rename_tag'] = 'N%d' % int(rng.integers(100))
    rec['rename_draws'] = [float(x) for x in rng.random(8)]
    return rec


def lib_model(chi, rec, regimen=True):
    from chi.library import ModelLibrary
    lib = ModelLibrary()
    if rec['model'] == 'pk1':
        m = lib.one_compartment_pk_model()
        if rec['administration'] is not None:
            m.set_administration('central', direct=rec['administration'] == 'direct')
    elif rec['model'] == 'koch':
        m = lib.tumour_growth_inhibition_model_koch()
    else:
        m = lib.tumour_growth_inhibition_model_koch_reparametrised()
    ren = {n: '%s_%d' % (rec['rename_tag'], j) for j, n in enumerate(m.parameters())
           if rec['rename_draws'][j % 8] < rec['rename_p']}
    if ren:
        m.set_parameter_names(ren)
    rec['renamed'] = ren
    if regimen and rec['regimen'] is not None:
        m.set_dosing_regimen(**rec['regimen'])
    return m


class LibMechAdapter(MechAdapter):
    """ReducedMechanisticModel around a library ODE model (plain SBML or PKPD with a route of administration
    and a dosing regimen; parameters under their SBML names or renamed by the user)"""
    kind = 'ReducedMechanisticModel/library-model'
    rtol = 1e-6
    no_zero = True          # a compartment of size zero has no concentration
    eval_first_p = 0.6      # some lives start with fix calls before anything was evaluated

    def __init__(self, chi, rng):
        rec = self.recipe = gen_lib_recipe(rng)
        through = rec['regimen_set_through_wrapper']
        self.inner = lib_model(chi, rec, regimen=not through)
        self.ref = lib_model(chi, rec)
        self.obj = chi.ReducedMechanisticModel(self.inner)
        if through and rec['regimen'] is not None:
            self.obj.set_dosing_regimen(**rec['regimen'])
        self.times = np.sort(rng.choice(np.arange(1, 21) * 0.25, int(rng.integers(1, 5)), replace=False))
        self.kind = 'ReducedMechanisticModel/library-model/' + lib_kind(rec)
        if rng.random() < 0.4:
            self.obj.enable_sensitivities(True)     # switched on by the user before anything else happens

    def mech_names(self):
        return list(self.ref.parameters())

    def tag_kind(self):
        return 'ReducedMechanisticModel.library_model'

    def seen_now(self):
        return None


def lib_kind(rec):
    return '%s%s%s%s' % (rec['model'], '' if rec['administration'] is None else '+' + rec['administration'],
                         '+regimen' if rec['regimen'] is not None else '',
                         '+renamed' if rec['renamed'] else '')


def pop_models(chi, rng):
    k = int(rng.integers(6))
    nd = int(rng.integers(1, 3))
    if k == 0:
        return chi.GaussianModel(n_dim=nd, centered=bool(rng.integers(2)))
    if k == 1:
        return chi.LogNormalModel(n_dim=nd, centered=bool(rng.integers(2)))
    if k == 2:
        return chi.PooledModel(n_dim=nd)
    if k == 3:
        return chi.TruncatedGaussianModel(n_dim=nd)
    if k == 4:
        return chi.ComposedPopulationModel([chi.GaussianModel(n_dim=1), chi.PooledModel(n_dim=nd),
                                            chi.LogNormalModel(n_dim=1), chi.PooledModel(n_dim=1)])
    return chi.ComposedPopulationModel([chi.LogNormalModel(n_dim=1, centered=False),
                                        chi.GaussianModel(n_dim=nd)])


class PopAdapter(Adapter):
    kind = 'ReducedPopulationModel'

    def __init__(self, chi, rng):
        self.ref = pop_models(chi, rng)
        self.obj = chi.ReducedPopulationModel(copy.deepcopy(self.ref))
        self.n_ids = int(rng.integers(1, 4))
        self.ref.set_n_ids(self.n_ids)
        self.obj.set_n_ids(self.n_ids)
        self.psi = rng.uniform(0.5, 1.5, (self.n_ids, self.ref.n_dim()))
        self.kind = 'ReducedPopulationModel/' + type(self.ref).__name__

    def names(self):
        return self.ref.get_parameter_names()

    def fix(self, d):
        self.obj.fix_parameters(d)

    def reported(self):
        return self.obj.get_parameter_names(), self.obj.n_parameters(), self.obj.n_fixed_parameters()

    def rename(self, rng):
        """rename the dimensions on wrapper and reference (every parameter name changes); returns the
        old -> new name map (position by position)"""
        old = self.ref.get_parameter_names()
        tag = 'r%d' % int(rng.integers(1000))
        dims = ['%s%d' % (tag, d) for d in range(self.ref.n_dim())]
        self.ref.set_dim_names(dims)
        self.obj.set_dim_names(dims)
        new = self.ref.get_parameter_names()
        return dict(zip(old, new)) if len(set(old)) == len(old) else None

    def special_dims_spec(self, net):
        """get_special_dims() of the reduced model = the unreduced model's blocks with the population
        parameter range re-indexed into the FREE parameter vector"""
        names = self.ref.get_parameter_names()
        fixed = np.array([n in net for n in names], bool)
        want = []
        for sd in self.ref.get_special_dims()[0]:
            a, b = int(sd[2]), int(sd[3])
            want.append([int(sd[0]), int(sd[1]), a - int(fixed[:a].sum()), b - int(fixed[:b].sum()), bool(sd[4])])
        got = [[int(x[0]), int(x[1]), int(x[2]), int(x[3]), bool(x[4])] for x in self.obj.get_special_dims()[0]]
        return got, want

    def prepare(self, full, rng):
        """individual parameters for the next evaluation: mostly consistent with the pooled / heterogeneous
        values of the full vector (computed on the UNFIXED reference), so that the scores are finite and the
        gradients are compared; sometimes arbitrary (the score is -inf where such a dimension is present)"""
        n_ids = self.n_ids
        raw = rng.uniform(0.5, 1.5, (n_ids, self.ref.n_dim()))
        self.psi = raw
        if rng.random() < 0.7:
            try:
                psi = np.array(self.ref.compute_individual_parameters(np.asarray(full, float), raw), float)
                if psi.shape == raw.shape and np.all(np.isfinite(psi)):
                    self.psi = psi
            except Exception:  # noqa
                pass

    def evals(self, free):
        o = self.obj
        free = np.asarray(free, float)
        out = {'value': o.compute_log_likelihood(free, self.psi)}
        sc, g = o.compute_sensitivities(free, self.psi, reduce=True)
        out['S1score'] = sc
        out['grad'] = g
        out['sample'] = o.sample(free, n_samples=3, seed=5)
        out['indiv'] = np.array(o.compute_individual_parameters(free, self.psi), float)
        return out

    def ref_evals(self, full, mask):
        r = self.ref
        full = np.asarray(full, float)
        sc, g = r.compute_sensitivities(full, self.psi, reduce=True)
        g = np.asarray(g, float)
        n_bottom = len(g) - len(mask)
        gm = np.concatenate([np.ones(n_bottom, bool), mask])
        return {'value': r.compute_log_likelihood(full, self.psi), 'S1score': sc, 'grad': g[gm],
                'sample': r.sample(full, n_samples=3, seed=5),
                'indiv': np.array(r.compute_individual_parameters(full, self.psi), float)}


POP_PARTS = ['G', 'Gn', 'LN', 'LNn', 'P', 'TG', 'H']


def pop_part(chi, code, d):
    if code == 'G':
        return chi.GaussianModel(n_dim=d)
    if code == 'Gn':
        return chi.GaussianModel(n_dim=d, centered=False)
    if code == 'LN':
        return chi.LogNormalModel(n_dim=d)
    if code == 'LNn':
        return chi.LogNormalModel(n_dim=d, centered=False)
    if code == 'P':
        return chi.PooledModel(n_dim=d)
    if code == 'TG':
        return chi.TruncatedGaussianModel(n_dim=d)
    return chi.HeterogeneousModel(n_dim=d)


class PopResizeAdapter(PopAdapter):
    """a reduced population model around a heterogeneous block (one parameter per individual and dimension) at
    any position among other sub-models: between the fix / re-fix / release calls the NUMBER OF MODELLED
    INDIVIDUALS changes — by set_n_ids, by building a HierarchicalLogLikelihood over the model, by handing the
    model to a ProblemModellingController with data — so the wrapped model's parameter list grows / shrinks
    in the middle.  The name-value pairs fixed so far stay fixed as far as their names are still parameters;
    the reference is always a FRESH unfixed model of the same recipe at the new number of individuals."""
    kind = 'ReducedPopulationModel/n_ids-changes'

    def __init__(self, chi, rng):
        self.chi = chi
        k = int(rng.integers(1, 5))
        parts = [(POP_PARTS[int(rng.integers(len(POP_PARTS)))], int(rng.integers(1, 3))) for _ in range(k)]
        if not any(c == 'H' for c, _ in parts):
            parts[int(rng.integers(k))] = ('H', int(rng.integers(1, 3)))
        if sum(d for _, d in parts) < 2:
            parts.insert(int(rng.integers(2)), (POP_PARTS[int(rng.integers(6))], 1))
        self.parts = parts
        D = sum(d for _, d in parts)
        self.dim_names = ['d%d' % j for j in range(D)]
        self.n_ids = int(rng.integers(1, 5))
        self.ref = self.fresh(self.n_ids)
        if rng.random() < 0.5:
            # the wrapped model has its size when it is wrapped
            self.obj = chi.ReducedPopulationModel(self.fresh(self.n_ids))
        else:
            # wrapped first, sized through the wrapper
            self.obj = chi.ReducedPopulationModel(self.fresh(None))
            self.obj.set_n_ids(self.n_ids)
        self.changed = False
        self.owner_report = None
        self.kind = 'ReducedPopulationModel/n_ids-changes/' + '-'.join('%s%d' % p for p in parts)

    def fresh(self, n_ids, dim_names=None):
        ms = [pop_part(self.chi, c, d) for c, d in self.parts]
        m = ms[0] if len(ms) == 1 else self.chi.ComposedPopulationModel(ms)
        if n_ids is not None:
            m.set_n_ids(n_ids)
        m.set_dim_names(list(self.dim_names if dim_names is None else dim_names))
        return m

    def tag_kind(self):
        return 'ReducedPopulationModel' + ('.after_n_ids_change' if self.changed else '')

    def names_beyond(self):
        """names of individuals that are not modelled (yet)"""
        cur = set(self.ref.get_parameter_names())
        return [n for n in self.fresh(self.n_ids + 1).get_parameter_names() if n not in cur]

    def rename(self, rng):
        old = self.ref.get_parameter_names()
        tag = 'r%d' % int(rng.integers(1000))
        self.dim_names = ['%s%d' % (tag, d) for d in range(len(self.dim_names))]
        self.obj.set_dim_names(list(self.dim_names))
        self.ref = self.fresh(self.n_ids)
        return dict(zip(old, self.ref.get_parameter_names()))

    def change_n_ids(self, rng):
        """returns (description, old -> new name map or None): the number of individuals changes by one of
        the public routes; the controller also renames the dimensions after its bottom-level parameters"""
        chi = self.chi
        n1 = int(rng.integers(1, 6))
        route = ['set_n_ids', 'HierarchicalLogLikelihood', 'controller'][int(rng.integers(3))]
        D = len(self.dim_names)
        m = None
        self.owner_report = None
        if route == 'set_n_ids':
            self.obj.set_n_ids(n1)
        elif route == 'HierarchicalLogLikelihood':
            lls = [chi.LogLikelihood(toy.ToyModel(1, D - 1, 5), chi.GaussianErrorModel(), [1.0, 2.0], [1.0, 2.0])
                   for _ in range(n1)]
            hll = chi.HierarchicalLogLikelihood(lls, self.obj)
            # the life goes on with the model the likelihood holds (whether or not it is the object handed in)
            self.obj = hll.get_population_model()
            self.owner_report = ('HierarchicalLogLikelihood', list(hll.get_parameter_names(exclude_bottom_level=True)),
                                 int(hll.n_parameters(exclude_bottom_level=True)))
            self.keep_alive = hll
        else:
            import pandas as pd
            c = chi.ProblemModellingController(toy.ToyModel(1, D - 1, 5), [chi.GaussianErrorModel()])
            c.set_data(pd.DataFrame([{'ID': 'p%d' % i, 'Time': 1.0, 'Observable': 'obs0', 'Value': 1.0 + i}
                                     for i in range(n1)]), output_observable_dict={'out0': 'obs0'})
            bottom = list(c.get_parameter_names())
            c.set_population_model(self.obj)
            n = int(c.get_n_parameters())
            self.owner_report = ('ProblemModellingController', list(c.get_parameter_names()), n)
            if n > 0:
                # the life goes on with the model the controller works with
                c.set_log_prior(ControllerAdapter.flat(n))
                self.obj = ControllerAdapter.first(c.get_log_posterior()).get_log_likelihood().get_population_model()
            self.keep_alive = c
            # the same reference recipe before and after the renaming, at the NEW number of individuals
            before = self.fresh(n1).get_parameter_names()
            self.dim_names = bottom
            m = dict(zip(before, self.fresh(n1).get_parameter_names()))
        self.n_ids = n1
        self.ref = self.fresh(n1)
        self.changed = True
        return {'n_ids': n1, 'by': route}, m


def make_ll(chi, rng):
    n_out, n_par = int(rng.integers(1, 3)), int(rng.integers(1, 4))
    seed = int(rng.integers(1000))
    ems_idx = [int(rng.integers(4)) for _ in range(n_out)]
    times = [np.sort(rng.choice(np.arange(1, 20) * 0.25, int(rng.integers(1, 5)), replace=False))
             for _ in range(n_out)]
    obs = [rng.uniform(0.5, 3.0, len(t)) for t in times]

    def build():
        return chi.LogLikelihood(toy.ToyModel(n_out, n_par, seed), [em_classes(chi)[i]() for i in ems_idx],
                                 [list(o) for o in obs], [list(t) for t in times])
    return build


class LLAdapter(Adapter):
    kind = 'LogLikelihood'

    def __init__(self, chi, rng):
        build = make_ll(chi, rng)
        self.obj, self.ref = build(), build()

    def names(self):
        return self.ref.get_parameter_names()

    def fix(self, d):
        self.obj.fix_parameters(d)

    def reported(self):
        return self.obj.get_parameter_names(), self.obj.n_parameters(), None

    def evals(self, free):
        o = self.obj
        out = {}
        # the order of the evaluation kinds varies: evaluateS1 leaves the sensitivities of the
        # mechanistic model switched on, a plain call switches them off — both states must be
        # followed by fix / release calls
        self.flip = not getattr(self, 'flip', False)
        def s1():
            if isinstance(out.get('grad'), str):
                return      # keep the first failure
            try:
                sc, g = o.evaluateS1(free)
                out['S1score'] = sc
                out['grad'] = g
            except ValueError:
                out['grad'] = 'err:valueError'
        if self.flip:
            out['value'] = o(free)
            out['pointwise'] = o.compute_pointwise_ll(free)
            s1()
        else:
            s1()
            out['value'] = o(free)
            out['pointwise'] = o.compute_pointwise_ll(free)
            s1()
        return out

    def ref_evals(self, full, mask):
        r = self.ref
        sc, g = r.evaluateS1(full)
        return {'value': r(full), 'pointwise': r.compute_pointwise_ll(full), 'S1score': sc,
                'grad': np.asarray(g)[mask]}


class LibLLAdapter(LLAdapter):
    """LogLikelihood over a library ODE model (see LibMechAdapter), handed in bare or already wrapped"""
    kind = 'LogLikelihood/library-model'
    rtol = 1e-6
    no_zero = True
    eval_first_p = 0.6

    def __init__(self, chi, rng):
        rec = self.recipe = gen_lib_recipe(rng)
        rec['regimen_set_through_wrapper'] = False
        idx = int(rng.integers(4))
        times = np.sort(rng.choice(np.arange(1, 21) * 0.25, int(rng.integers(1, 5)), replace=False))
        obs = rng.uniform(0.5, 3.0, len(times))
        wrapped = bool(rng.random() < 0.3)

        def build(wrap):
            m = lib_model(chi, rec)
            if wrap:
                m = chi.ReducedMechanisticModel(m)
            return chi.LogLikelihood(m, em_classes(chi)[idx](), list(obs), list(times))
        self.obj, self.ref = build(wrapped), build(False)
        self._mech = list(lib_model(chi, rec).parameters())
        self.kind = 'LogLikelihood/library-model/' + lib_kind(rec)

    def mech_names(self):
        return list(self._mech)

    def tag_kind(self):
        return 'LogLikelihood.library_model'


class SharedLLAdapter(LLAdapter):
    """the likelihood is built from ingredients the caller keeps using: reduced wrappers (some with a
    parameter fixed beforehand — that fix is the first call of the history) handed to a SIBLING likelihood as
    well; between the calls of the history the sibling and the ingredients are fixed, released and evaluated.
    Only the calls made on the object itself may matter."""
    kind = 'LogLikelihood/shared-ingredients'

    def __init__(self, chi, rng):
        self.chi = chi
        n_out, n_par = int(rng.integers(1, 3)), int(rng.integers(1, 4))
        seed = int(rng.integers(1000))
        ems_idx = [int(rng.integers(4)) for _ in range(n_out)]
        times = [np.sort(rng.choice(np.arange(1, 20) * 0.25, int(rng.integers(1, 5)), replace=False))
                 for _ in range(n_out)]
        obs = [rng.uniform(0.5, 3.0, len(t)) for t in times]
        self.ref = chi.LogLikelihood(toy.ToyModel(n_out, n_par, seed), [em_classes(chi)[i]() for i in ems_idx],
                                     [list(o) for o in obs], [list(t) for t in times])
        names = self.ref.get_parameter_names()
        mech = toy.ToyModel(n_out, n_par, seed)
        pre = []
        if rng.random() < 0.6:
            mech = chi.ReducedMechanisticModel(mech)
            if n_par > 1 and rng.random() < 0.6:
                n = names[int(rng.integers(n_par))]
                v = float(rng.uniform(0.5, 1.5))
                mech.fix_parameters({n: v})
                pre.append((n, v))
        ems = []
        at = n_par
        for i in ems_idx:
            em = em_classes(chi)[i]()
            k = em.n_parameters()
            if rng.random() < 0.6:
                em = chi.ReducedErrorModel(em)
                # (with several outputs the likelihood prefixes the names with the output, also of a
                #  parameter fixed beforehand: repaired finding C17-pre-reduced-error-model-names)
                if rng.random() < 0.7:
                    j = int(rng.integers(k))
                    v = float(rng.uniform(0.2, 1.5))
                    em.fix_parameters({em.get_parameter_names()[j]: v})
                    pre.append((names[at + j], v))
            ems.append(em)
            at += k
        self.pre_ops = [pre] if pre else []
        self.mech, self.ems = mech, ems
        self.obj = chi.LogLikelihood(mech, ems, [list(o) for o in obs], [list(t) for t in times])
        self.sibling = chi.LogLikelihood(mech, ems, [list(o) for o in obs], [list(t) for t in times])
        self.irng = np.random.default_rng(int(rng.integers(2 ** 31)))
        self.interfere()

    def interfere(self):
        r = self.irng
        names = self.ref.get_parameter_names()

        def some():
            d = {}
            for j in r.choice(len(names), size=int(r.integers(1, len(names) + 1)), replace=False):
                d[names[j]] = None if r.random() < 0.3 else self.draw(r, names[j])
            return d
        for _ in range(int(r.integers(1, 4))):
            c = r.random()
            with np.errstate(all='ignore'):
                try:
                    if c < 0.4:
                        self.sibling.fix_parameters(some())
                    elif c < 0.55 and isinstance(self.mech, self.chi.ReducedMechanisticModel):
                        self.mech.fix_parameters(some())
                    elif c < 0.8:
                        for em in self.ems:
                            if isinstance(em, self.chi.ReducedErrorModel):
                                loc = em.get_error_model().get_parameter_names()
                                em.fix_parameters({loc[int(r.integers(len(loc)))]:
                                                   None if r.random() < 0.3 else float(r.uniform(0.2, 1.5))})
                    else:
                        x = r.uniform(0.5, 1.5, self.sibling.n_parameters())
                        if len(x):
                            self.sibling(x)
                            self.sibling.evaluateS1(x)
                except ValueError:
                    pass        # what happens to the sibling is not the subject here

    def fix(self, d):
        self.obj.fix_parameters(d)
        self.interfere()


class PredAdapter(Adapter):
    kind = 'PredictiveModel'

    def __init__(self, chi, rng):
        n_out, n_par = int(rng.integers(1, 3)), int(rng.integers(1, 4))
        seed = int(rng.integers(1000))
        idx = [int(rng.integers(4)) for _ in range(n_out)]
        self.obj = chi.PredictiveModel(toy.ToyModel(n_out, n_par, seed), [em_classes(chi)[i]() for i in idx])
        self.ref = chi.PredictiveModel(toy.ToyModel(n_out, n_par, seed), [em_classes(chi)[i]() for i in idx])
        self.times = rng.uniform(0, 5, int(rng.integers(1, 4)))

    def names(self):
        return self.ref.get_parameter_names()

    def fix(self, d):
        self.obj.fix_parameters(d)

    def reported(self):
        return self.obj.get_parameter_names(), self.obj.n_parameters(), None

    def evals(self, free):
        return {'sample': self.obj.sample(free, self.times, n_samples=2, seed=3, return_df=False)}

    def ref_evals(self, full, mask):
        return {'sample': self.ref.sample(full, self.times, n_samples=2, seed=3, return_df=False)}


class PopPredAdapter(Adapter):
    kind = 'PopulationPredictiveModel'

    def __init__(self, chi, rng):
        seed = int(rng.integers(1000))
        idx = int(rng.integers(4))

        def build():
            pm = chi.PredictiveModel(toy.ToyModel(1, 2, seed), [em_classes(chi)[idx]()])
            n_bottom = pm.n_parameters()
            pop = chi.ComposedPopulationModel(
                [chi.LogNormalModel(n_dim=1), chi.PooledModel(n_dim=1)] +
                [chi.GaussianModel(n_dim=1) if False else chi.PooledModel(n_dim=1)
                 for _ in range(n_bottom - 2)])
            return chi.PopulationPredictiveModel(pm, pop)
        self.obj, self.ref = build(), build()
        self.times = rng.uniform(0, 5, 2)

    def names(self):
        return self.ref.get_parameter_names()

    def fix(self, d):
        self.obj.fix_parameters(d)

    def reported(self):
        return self.obj.get_parameter_names(), self.obj.n_parameters(), None

    def evals(self, free):
        return {'sample': self.obj.sample(free, self.times, n_samples=3, seed=3, return_df=False)}

    def ref_evals(self, full, mask):
        return {'sample': self.ref.sample(full, self.times, n_samples=3, seed=3, return_df=False)}

    def draw(self, rng, name):
        return float(rng.uniform(0.3, 0.8))


TAG22 = 'C08.sensitivities_with_all_mechanistic_parameters_fixed'


class ControllerAdapter(Adapter):
    """the problem controller: fix_parameters on the controller, then the posterior / predictive model it hands
    out are compared with those of an unfixed twin controller at the substituted vector"""
    kind = 'ProblemModellingController'

    def __init__(self, chi, rng):
        import pandas as pd
        n_out, n_par = int(rng.integers(1, 3)), int(rng.integers(1, 4))
        seed = int(rng.integers(1000))
        ems_idx = [int(rng.integers(4)) for _ in range(n_out)]
        rows = []
        for o in range(n_out):
            for t in np.sort(rng.choice(np.arange(1, 20) * 0.25, int(rng.integers(1, 5)), replace=False)):
                rows.append({'ID': 7, 'Time': float(t), 'Observable': 'obs%d' % o, 'Value': float(rng.uniform(0.5, 3.0))})
        df = pd.DataFrame(rows)
        if rng.random() < 0.5:
            # a frame glued from pieces: row labels repeat / are not 0..n-1
            df.index = rng.integers(0, 3, len(df))
        self.times = [0.5, 1.5]

        def build():
            c = chi.ProblemModellingController(toy.ToyModel(n_out, n_par, seed), [em_classes(chi)[i]() for i in ems_idx])
            c.set_data(df, output_observable_dict={'out%d' % o: 'obs%d' % o for o in range(n_out)})
            return c
        self.obj, self.refc = build(), build()
        self.ref_names = list(self.refc.get_parameter_names())
        self.refc.set_log_prior(self.flat(len(self.ref_names)))
        self.ref_post = self.first(self.refc.get_log_posterior())
        self.ref_pred = self.refc.get_predictive_model()

    @staticmethod
    def flat(n):
        pr = [pints.UniformLogPrior(-1000.0, 1000.0) for _ in range(n)]
        return pints.ComposedLogPrior(*pr) if n > 1 else pr[0]

    @staticmethod
    def first(p):
        return p[0] if isinstance(p, (list, tuple)) else p

    def names(self):
        return self.ref_names

    def fix(self, d):
        self.obj.fix_parameters(d)

    def reported(self):
        return list(self.obj.get_parameter_names()), self.obj.get_n_parameters(), None

    def evals(self, free):
        self.obj.set_log_prior(self.flat(len(free)))
        post = self.first(self.obj.get_log_posterior())
        ll = post.get_log_likelihood()
        out = {'value': ll(free), 'pointwise': ll.compute_pointwise_ll(free),
               'names_of_posterior': list(post.get_parameter_names())}
        try:
            sc, g = ll.evaluateS1(free)
            out['S1score'], out['grad'] = sc, g
        except ValueError:
            out['grad'] = 'err:valueError'
        pm = self.obj.get_predictive_model()
        out['names_of_predictive_model'] = list(pm.get_parameter_names())
        out['sample'] = pm.sample(free, self.times, n_samples=2, seed=5, return_df=False)
        return out

    def ref_evals(self, full, mask):
        ll = self.ref_post.get_log_likelihood()
        sc, g = ll.evaluateS1(full)
        free_names = [n for n, m in zip(self.ref_names, mask) if m]
        return {'value': ll(full), 'pointwise': ll.compute_pointwise_ll(full), 'S1score': sc,
                'grad': np.asarray(g)[mask], 'names_of_posterior': free_names,
                'names_of_predictive_model': free_names,
                'sample': self.ref_pred.sample(full, self.times, n_samples=2, seed=5, return_df=False)}


def all_mech_fixed(names, net, ad=None):
    mech = ad.mech_names() if hasattr(ad, 'mech_names') else [n for n in names if n.startswith('psi')]
    return bool(mech) and all(n in net for n in mech)


ADAPTERS = [ErrAdapter, MechAdapter, PopAdapter, LLAdapter, PredAdapter, PopPredAdapter, SharedLLAdapter,
            ControllerAdapter]
LIB_ADAPTERS = [LibMechAdapter, LibLLAdapter]
N_LIB = {'quick': 80, 'thorough': 600}


# ----------------------------------------------------------------------------------------------
def gen_history(rng, names, ad, length):
    ops = []
    for _ in range(length):
        k = int(rng.integers(1, len(names) + 1))
        chosen = list(rng.choice(len(names), size=k, replace=False))
        d = []
        for j in chosen:
            val = None if rng.random() < 0.35 else ad.draw(rng, names[j])
            if val is not None and rng.random() < 0.08 and not getattr(ad, 'no_zero', False):
                val = 0.0          # a parameter fixed at zero is fixed (zero is not "no value")
            d.append((names[j], val))
        if rng.random() < 0.15:
            d.append(('not-a-parameter', 1.0))
        if rng.random() < 0.1 and d:
            d.append((d[0][0], ad.draw(rng, d[0][0])))     # duplicate key in the pair list: last wins
        ops.append(d)
    return ops


def net_of(ops):
    net = {}
    for d in ops:
        for n, v in d:
            net[n] = v
    return {n: v for n, v in net.items() if v is not None}


def history_shape(ops):
    seen = set()
    refix = release = False
    for d in ops:
        for n, v in d:
            if n in seen and v is not None:
                refix = True
            if n in seen and v is None:
                release = True
            if v is not None:
                seen.add(n)
    return 'len%d%s%s' % (min(len(ops), 6), '+refix' if refix else '', '+release' if release else '')


def compare(ctx, ad, ops_so_far, rng, inp, net=None, segs=None):
    """`ops_so_far`: the history on a constant parameter list; or (`net`, `segs`): the net dictionary of a life
    in which the parameter list changed and the life as stretches [names, ops] for the Lean model"""
    names = ad.names()
    if net is None:
        net = net_of(ops_so_far)
    tk = ad.tag_kind()
    free_names = [n for n in names if n not in net]
    mask = np.array([n not in net for n in names], bool)
    rep_names, rep_n, rep_fixed = ad.reported()
    ctx.spec('C08.names/' + tk, list(rep_names) == free_names, inp,
             {'reported': list(rep_names), 'expected': free_names})
    ctx.spec('C08.count/' + tk, rep_n == len(free_names), inp, {'reported': rep_n})
    if rep_fixed is not None:
        ctx.spec('C08.n_fixed/' + tk, rep_fixed == len(names) - len(free_names), inp)
    if hasattr(ad, 'special_dims_spec'):
        try:
            got_sd, want_sd = ad.special_dims_spec(net)
            ctx.spec('C08.special_dims_reindexed/ReducedPopulationModel', got_sd == want_sd, inp,
                     {'reported': got_sd, 'expected': want_sd})
        except Exception as e:  # noqa
            ctx.spec('C08.special_dims_reindexed/ReducedPopulationModel', False, inp, {'raised': repr(e)[:200]})
    free = np.array([ad.draw(rng, n) for n in free_names])
    it = iter(free)
    full = np.array([net[n] if n in net else next(it) for n in names], float)
    grad_probe = np.arange(len(names), dtype=float) + 1.0
    if segs is None:
        mo = ctx.model('C08.history', names, [[[n, v] for n, v in d] for d in ops_so_far], list(free),
                       list(grad_probe))
    else:
        mo = ctx.model('C08.segments', [[list(ns), [[[n, v] for n, v in d] for d in ops]] for ns, ops in segs],
                       list(free), list(grad_probe))
    ctx.agree('C08.names', list(rep_names), mo[2], inp)
    ctx.agree('C08.count', rep_n, mo[3], inp)
    if rep_fixed is not None:
        ctx.agree('C08.n_fixed', rep_fixed, mo[4], inp)
    # model vs python spec of the model's own output (cheap cross-check of the transport)
    ctx.agree('C08.model_full_vs_net', list(full), mo[1], inp)
    if len(free_names) == 0:
        ctx.branches.add('all-fixed')
        return
    gerr = werr = None
    if hasattr(ad, 'prepare'):
        with np.errstate(all='ignore'):
            ad.prepare(full, rng)
    try:
        with np.errstate(all='ignore'):
            got = ad.evals(free)
    except Exception as e:  # noqa
        gerr = e
    try:
        with np.errstate(all='ignore'):
            want = ad.ref_evals(full, mask)
    except Exception as e:  # noqa
        werr = e
    if gerr is not None or werr is not None:
        # a refusal (e.g. sampling with a scale fixed at zero) must be the unfixed object's refusal too
        ctx.spec('C08.eval_raises/' + tk, type(gerr) is type(werr), inp,
                 {'reduced_object': repr(gerr)[:200], 'unfixed_at_substituted': repr(werr)[:200]})
        return
    seen = ad.full_seen()
    if seen is not None:
        ctx.agree('C08.full_vector_seen_by_wrapped_object', list(seen), mo[1], inp)
    finite = True
    for key in ('value', 'S1score'):
        if key in want and np.ndim(want[key]) == 0 and not math.isfinite(float(want[key])):
            finite = False
    for label, w in want.items():
        if label not in got:
            continue
        if label == 'grad' and not finite:
            continue        # gradients are unspecified (np.empty) where the score is not finite
        g = got[label]
        if isinstance(g, str):
            # sensitivities cannot be requested when every mechanistic parameter is fixed (#22)
            ctx.spec(TAG22 if all_mech_fixed(names, net, ad) else 'C08.grad_raises/' + tk,
                     False, inp, {'raised': g})
            continue
        if label.startswith('names'):
            ctx.spec('C08.%s/%s' % (label, tk), list(g) == list(w), inp,
                     {'reported': list(g), 'expected': list(w)})
            continue
        ok = core.close(np.asarray(g, float), np.asarray(w, float), rtol=getattr(ad, 'rtol', 1e-9))
        ctx.spec('C08.%s/%s' % (label, tk), ok, inp,
                 {'reduced': np.asarray(g, float), 'unfixed_at_substituted': np.asarray(w, float)})


def run_history(ctx, chi, A, rng, length, ops=None):
    ad = A(chi, rng)
    names = ad.names()
    if ops is None:
        ops = gen_history(rng, names, ad, length)
    # calls made before the object existed (a parameter fixed on an ingredient) head the history
    pre = [list(d) for d in getattr(ad, 'pre_ops', [])]
    inp = {'object': ad.kind, 'names': names, 'history': [[[n, v] for n, v in d] for d in ops]}
    if pre:
        inp['fixed_on_the_ingredients_beforehand'] = [[[n, v] for n, v in d] for d in pre]
    shape = history_shape(pre + ops)
    ctx.case(ad.kind + '/' + shape, nontrivial=(ad.kind.split('/')[0] + '/' + shape)
             if ('refix' in shape or 'release' in shape) else False, sample=inp)
    if not hasattr(ad, 'eval_first_p') or rng.random() < ad.eval_first_p:
        compare(ctx, ad, pre, rng, dict(inp, step=0))
    else:
        inp['first_evaluation_after_the_first_fix_call'] = True
    for k in range(len(ops)):
        if hasattr(ad, 'rename') and rng.random() < 0.25:
            # the dimensions are renamed between two fix calls: all names change, positions stay; the
            # history so far and the calls to come are expressed in the new names
            try:
                m = ad.rename(rng)
            except Exception as e:  # noqa
                ctx.spec('C08.rename_raises/ReducedPopulationModel', False, dict(inp, step=k), {'raised': repr(e)[:200]})
                return
            if m is not None:
                ops = [[(m.get(n, n), v) for n, v in d] for d in ops]
                names = [m.get(n, n) for n in names]
                inp = dict(inp, names=names, history=[[[n, v] for n, v in d] for d in ops], renamed_before_step=k + 1)
        try:
            ad.fix(dict(ops[k]))
        except Exception as e:  # noqa
            # a history whose step raises: #22 (fix_parameters while sensitivities are on and every
            # mechanistic parameter ends up fixed) or some other defect
            is22 = all_mech_fixed(names, net_of(pre + ops[:k + 1]), ad) and 'None of the parameters' in str(e)
            ctx.spec(TAG22 if is22 else 'C08.fix_raises/' + ad.tag_kind(), False,
                     dict(inp, step=k + 1), {'raised': repr(e)[:200]})
            return
        if rng.random() < 0.3:
            try:
                ad.disturb_copy(rng)
            except Exception as e:  # noqa
                ctx.spec('C08.copy_raises/' + ad.tag_kind(), False, dict(inp, step=k + 1), {'raised': repr(e)[:200]})
        compare(ctx, ad, pre + ops[:k + 1], rng, dict(inp, step=k + 1))


def run_resized_life(ctx, chi, A, rng, length):
    """fix / re-fix / release calls interleaved with changes of the number of modelled individuals (and
    renamings of the dimensions); after every event the object is compared with a fresh unfixed model at the
    net dictionary: last write wins, None releases, a request for a name that is no parameter at the time is
    ignored, and a pair whose name stops being a parameter is forgotten"""
    ad = A(chi, rng)
    names = list(ad.names())
    net = {}
    segs = [[names, []]]
    events = []
    inp = {'object': ad.kind, 'n_ids': ad.n_ids, 'names': names, 'events': events}
    shape = {'fix': 0, 'n_ids': 0, 'grow': False, 'shrink': False, 'carried': False, 'dropped': False}
    compare(ctx, ad, None, rng, dict(inp, step=0), net=dict(net), segs=segs)
    for k in range(length):
        c = rng.random()
        try:
            if c < 0.3:
                n0 = ad.n_ids
                desc, m = ad.change_n_ids(rng)
                events.append(['change_n_ids', desc])
                names = list(ad.names()) if m is None else list(m.keys())
                shape['n_ids'] += 1
                shape['grow'] |= ad.n_ids > n0
                shape['shrink'] |= ad.n_ids < n0
                if ad.n_ids != n0 and net:
                    shape['carried'] |= any(n in names for n in net)
                    shape['dropped'] |= any(n not in names for n in net)
                net = {n: v for n, v in net.items() if n in names}
                if names != segs[-1][0]:
                    segs.append([names, []])
                if m is not None:
                    net = {m[n]: v for n, v in net.items()}
                    names = list(ad.names())
                    if names != segs[-1][0]:
                        segs.append([names, []])
                if ad.owner_report is not None:
                    # what the new owner of the model reports: the free parameters, in order
                    owner, o_names, o_n = ad.owner_report
                    want = [n for n in names if n not in net]
                    ctx.spec('C08.names_reported_by_owner_of_resized_model/' + owner,
                             o_names == want and o_n == len(want), dict(inp, step=k + 1, events=[list(e) for e in events]),
                             {'reported': o_names, 'count': o_n, 'expected': want})
            elif c < 0.4:
                m = ad.rename(rng)
                events.append(['set_dim_names', list(ad.dim_names)])
                net = {m[n]: v for n, v in net.items()}
                names = list(ad.names())
                segs.append([names, []])
            else:
                d = gen_history(rng, names, ad, 1)[0]
                if rng.random() < 0.2:
                    beyond = ad.names_beyond()
                    if beyond:
                        d.append((beyond[int(rng.integers(len(beyond)))], ad.draw(rng, '')))
                events.append(['fix_parameters', [[n, v] for n, v in d]])
                shape['fix'] += 1
                ad.fix(dict(d))
                for n, v in d:
                    if n in names:
                        if v is None:
                            net.pop(n, None)
                        else:
                            net[n] = v
                segs[-1][1].append(d)
        except Exception as e:  # noqa
            ctx.spec('C08.event_raises/' + ad.tag_kind(), False, dict(inp, step=k + 1), {'raised': repr(e)[:200]})
            return
        if len(set(names)) != len(names):
            ctx.branches.add('n_ids-changes/duplicate-names')
        if rng.random() < 0.2:
            try:
                ad.disturb_copy(rng)
            except Exception as e:  # noqa
                ctx.spec('C08.copy_raises/' + ad.tag_kind(), False, dict(inp, step=k + 1), {'raised': repr(e)[:200]})
        compare(ctx, ad, None, rng, dict(inp, names=names, step=k + 1, events=[list(e) for e in events]),
                net=dict(net), segs=[[list(ns), list(ops)] for ns, ops in segs])
    key = 'fix%d/n_ids%d%s%s%s%s' % (min(shape['fix'], 3), min(shape['n_ids'], 3), '+grow' if shape['grow'] else '',
                                   '+shrink' if shape['shrink'] else '', '+carried' if shape['carried'] else '',
                                   '+dropped' if shape['dropped'] else '')
    ctx.case('ReducedPopulationModel/n_ids-changes/' + key,
             nontrivial=('ReducedPopulationModel/n_ids-changes/' + key) if (shape['carried'] or shape['dropped']) else False,
             sample=dict(inp, events=[list(e) for e in events]))


def exhaustive(ctx, chi):
    """all histories of length <= 3 over single-name requests {fix a, release a, fix b, release b}"""
    import itertools
    rng = ctx.sub_rng(777)
    for A in (ErrAdapter, MechAdapter, LLAdapter):
        for L in range(1, 4):
            for combo in itertools.product(range(4), repeat=L):
                sub = np.random.default_rng([ctx.seed, 8, L] + list(combo))
                ad0 = A(chi, np.random.default_rng(3))
                names = ad0.names()
                a, b = names[0], names[-1]
                alphabet = [[(a, 0.7)], [(a, None)], [(b, 1.2)], [(b, None)]]
                ops = [alphabet[c] for c in combo]

                class Fixed(A):
                    def __init__(self, chi, rng):
                        A.__init__(self, chi, np.random.default_rng(3))
                run_history(ctx, chi, Fixed, sub, L, ops=ops)
    del rng


def run(ctx):
    chi = core.import_chi()
    n = 960 if ctx.tier == 'quick' else 9600
    for i in range(n):
        rng = ctx.sub_rng(i)
        A = ADAPTERS[i % len(ADAPTERS)]
        ctx.guard(run_history, ctx, chi, A, rng, int(rng.integers(0, 13 if ctx.tier == 'thorough' else 9)))
    for i in range(n // 8):
        rng = ctx.sub_rng(100000 + i)
        ctx.guard(run_resized_life, ctx, chi, PopResizeAdapter, rng,
                  int(rng.integers(1, 13 if ctx.tier == 'thorough' else 9)))
    refsim.install()
    for i in range(N_LIB[ctx.tier]):
        rng = ctx.sub_rng(200000 + i)
        ctx.guard(run_history, ctx, chi, LIB_ADAPTERS[i % len(LIB_ADAPTERS)], rng, int(rng.integers(1, 5)))
    if ctx.tier == 'thorough':
        exhaustive(ctx, chi)


def replay(ctx, data):
    chi = core.import_chi()
    inp = data['failing']['input']
    print('failing case:', str(inp)[:1500])
    kinds = {a.kind: a for a in ADAPTERS}
    print('re-running the quick generator stream to reproduce (seed %s)' % data.get('seed'))
    ctx.seed = int(data.get('seed', 0))
    run(ctx)
    bad = [b for b in ctx.spec_bad if b['tag'] == data['failing']['tag']]
    print('reproduced' if bad else 'not reproduced', bad[:1])
    return 1 if bad else 0
