"""C15 — predictive models sample the stated generative process, correctly labelled.

Exact replay, not statistics: for a seed the harness asks the Lean model (C16's symbolic generator)
which primitive variates every entry reads, draws those streams itself with real numpy generators,
pushes them through the model's transformations (`C15.transform`, `C15.pop`), its posterior row
selection (`C15.posterior`), allocation (`C15.pam`) and table assembly (`C15.table`), and compares
the resulting long table with the one the real predictive classes return (sorted tuples).
"""
import math

import numpy as np
import pandas as pd
import pints
import xarray as xr
from scipy.stats import truncnorm

import core
import toy
from props import seedkit as K
from props import c16

REQUIRED_THEOREMS = [
    'C15_predictive_entries', 'C15_predictive_law', 'C15_predictive_law_gaussian',
    'C15_predictive_law_multiplicative', 'C15_predictive_law_lognormal', 'C15_population_law',
    'C15_population_law_gaussian', 'C15_population_law_lognormal', 'C15_population_two_stage',
    'C15_posterior_joint', 'C15_posterior_kept_draws', 'C15_posterior_joint_counterexample', 'C15_history_independent',
    'C15_history_cache_counterexample', 'C15_pam_weights',
    'C15_table_labels', 'C15_table_labels_pam', 'C15_times_ascending', 'C15_nids', 'C15_nids_counterexample',
    'C15_prior_inner_seed', 'C15_prior_own_seed_per_sample']
RULE = ('PredictiveModel, PopulationPredictiveModel (elementary / covariate-wrapped / composed population models, '
        'centred and non-centred), Prior-, Posterior- and PAM predictive models over individual- and '
        'population-level models; 1-3 outputs with mixed error models on a toy mechanistic model with '
        'time-dependent closed-form outputs; unsorted time vectors with ties; posterior datasets with 1-3 chains, '
        '2-4 draws, 1-3 individuals, NaN-padded draws, population-level variables, transposed and mixed dimension '
        'orders; sample sizes equal to and different from the stored n_ids; dosing regimens and covariates; '
        'sequences of 2-3 calls on one PosteriorPredictiveModel / PAMPredictiveModel object for different individuals, '
        'sample sizes, time vectors and seeds, each checked completely, and a later call on every other predictive object '
        'compared with a freshly built one; integer seeds incl. the boundary values 0, 1, 2 as Python ints, numpy integer '
        'scalars and bools, in first and later calls; non-trivial = >= 2 outputs or samples; distinct = distinct (class, structure, sizes)')
ASSUMPTIONS = [
    'primitive samplers are ideal (as in C16); the laws of the transformations are proved for a standard normal '
    'variate (Mathlib gaussianReal); truncated-Gaussian and heterogeneous sub-models enter through C06 / the '
    'consumption model only',
    'the mechanistic model is an arbitrary function (toy model with closed-form outputs)',
    'the dosing-regimen table itself is C10\'s subject: here only its placement in the returned table']

AS_IS = c16.AS_IS          # the model of the code as it is; the pre-fix variants are not compared with chi
WORLD = ('LS', 12345, 0)


# ----------------------------------------------------------------------------------------
# helpers
# ----------------------------------------------------------------------------------------
def tbits(t):
    return core.f2bits(float(t) + 0.0)


def model_sorted_times(ctx, times):
    rep = ctx.model('C15.sortTimes', [tbits(t) for t in times])
    return [core.bits2f(b) for b in rep[0]]


def canon_rows(df, outputs, cov_names=()):
    """measurement rows (id, time, observable, value), covariate rows, dose rows — sorted"""
    meas, covs, doses = [], [], []
    has_dose = 'Dose' in df.columns
    for rec in df.to_dict('records'):
        ob = rec.get('Observable')
        _id = rec.get('ID')
        _id = None if _id is None or (isinstance(_id, float) and math.isnan(_id)) else int(_id)
        if isinstance(ob, str) and ob in outputs:
            meas.append((_id, float(rec['Time']), ob, float(rec['Value'])))
        elif isinstance(ob, str) and ob in cov_names:
            covs.append((_id, ob, float(rec['Value'])))
        elif has_dose and not (isinstance(rec.get('Dose'), float) and math.isnan(rec.get('Dose'))):
            doses.append((_id, float(rec['Time']), float(rec['Duration']), float(rec['Dose'])))
        else:
            meas.append((_id, rec.get('Time'), 'UNLABELLED:%r' % (ob,), rec.get('Value')))
    key = lambda r: tuple((x is None, x) for x in r)
    return sorted(meas, key=key), sorted(covs, key=key), sorted(doses, key=key)


def rows_close(a, b):
    if len(a) != len(b):
        return False
    for x, y in zip(a, b):
        if len(x) != len(y):
            return False
        for u, v in zip(x, y):
            if isinstance(u, float) and isinstance(v, float):
                if not core.close(u, v):
                    return False
            elif u != v:
                return False
    return True


def ascending_in_table(df, outputs):
    """within every (ID, observable) the rows come with non-decreasing times, in the order returned"""
    last = {}
    for _id, t, ob in zip(df['ID'], df['Time'], df['Observable']):
        if not (isinstance(ob, str) and ob in outputs):
            continue
        key = (_id, ob)
        if key in last and float(t) < last[key]:
            return False
        last[key] = float(t)
    return True


def label_spec(ctx, tag, meas, n, outputs, times, inp, df=None):
    """the labelling part of the property, on the returned table alone"""
    if df is not None:
        ctx.spec(tag + '.times_ascending', ascending_in_table(df, outputs), inp)
    ts = sorted(float(t) for t in times)
    ok = len(meas) == n * len(outputs) * len(ts)
    groups = {}
    for (_id, t, ob, v) in meas:
        groups.setdefault((_id, ob), []).append(t)
    ok = ok and set(groups) == {(i + 1, ob) for i in range(n) for ob in outputs}
    for key, tl in groups.items():
        ok = ok and sorted(tl) == ts
    ctx.spec(tag, bool(ok), inp, {'rows': len(meas), 'expected': n * len(outputs) * len(ts)})


def transform_batch(ctx, items):
    if not items:
        return []
    return ctx.model('C15.transform', [[k, [float(s) for s in sig], float(yb), [float(v) for v in z]]
                                       for (k, sig, yb, z) in items])[0]


def sig_slices(kinds, sig):
    out, start = [], 0
    for k in kinds:
        out.append(list(sig[start:start + K.em_nparams(k)]))
        start += K.em_nparams(k)
    return out


def expected_dose_events(regimen, T):
    """(time, duration, dose) of every dose the configured regimen applies up to T — from the regimen's own
    numbers, not from chi's table"""
    if not regimen:
        return []
    p, num = regimen.get('period'), regimen.get('num')
    rows, k = [], 0
    while True:
        t = regimen['start'] + k * (p or 0.0)
        if t > T or (num and k >= num) or (not p and k >= 1):
            break
        rows.append((float(t), float(regimen['duration']), float(regimen['dose'])))
        k += 1
    return rows


def dose_events_spec(ctx, tag, doses, regimen, times, include, inp):
    """the dose rows of the returned table are exactly the dose events of the configured regimen up to the
    last requested time, for every sample ID that carries dose rows (or once, without ID)"""
    exp = sorted(expected_dose_events(regimen, float(np.max(times)))) if include else []
    groups = {}
    for r in doses:
        groups.setdefault(r[0], []).append(tuple(r[1:]))
    ok = (not exp and not doses) or (bool(groups) and all(rows_close(sorted(g), exp) for g in groups.values()))
    ctx.spec(tag, bool(ok), inp, {'dose rows': doses[:6], 'dose events of the regimen': exp[:6]})


def averaged_dose_rows(ctx, tag, avg_model, doses, times, include, inp, regimen='chi'):
    """prior / posterior / PAM models: the dose events are appended once for all samples (no ID)"""
    if regimen != 'chi':
        dose_events_spec(ctx, tag.replace('.dose_rows', '.dose_events'), doses, regimen, times, include, inp)
    reg = avg_model.get_dosing_regimen(final_time=float(np.max(times)))
    want = []
    if include and reg is not None:
        want = sorted((None, float(a), float(b), float(c)) for a, b, c in zip(reg['Time'], reg['Duration'], reg['Dose']))
    key = lambda r: tuple((x is None, x) for x in r)
    ctx.spec(tag, rows_close(sorted(doses, key=key), sorted(want, key=key)), inp,
             {'doses': doses[:4], 'want': want[:4]})


REGIMEN = dict(dose=2.0, start=1.0, duration=0.5, period=2.0, num=3)


def history_independent(ctx, tag, used_obj, fresh_obj, call, outputs, inp, args, box, cov_names=()):
    """the object was sampled before, and the SAME argument arrays (`box`) are handed over again together with
    other times / sample sizes / seeds: the further call must return what a freshly built object returns for fresh
    copies of the original argument values, and must leave the arrays as they were"""
    K.set_world(WORLD)
    a = canon_rows(call(used_obj, box), outputs, cov_names)
    box.check(ctx, tag.replace('history_independent', 'arguments_unchanged'), dict(inp, later_call=args))
    K.set_world(WORLD)
    b = canon_rows(call(fresh_obj, K.ArgBox(**box.orig)), outputs, cov_names)
    ok = all(rows_close(x, y) for x, y in zip(a, b))
    ctx.spec(tag, ok, dict(inp, later_call=args), {'used_object': a[0][:3], 'fresh_object': b[0][:3]})


class Recorder:
    """a PredictiveModel that remembers the parameter vectors it is asked to sample with"""

    @staticmethod
    def make(chi):
        class RecordingPredictiveModel(chi.PredictiveModel):
            seen = None

            def sample(self, parameters, *args, **kwargs):
                if self.seen is not None:
                    self.seen.append(np.array(parameters, float))
                return super().sample(parameters, *args, **kwargs)
        return RecordingPredictiveModel


def build(chi, spec, dosed=False, record=False):
    cls = K.DosedToy if dosed else toy.ToyModel
    mech = cls(len(spec['kinds']), spec['n_mech'], spec['toy_seed'])
    ems = [K.em_class(chi, k)() for k in spec['kinds']]
    PM = Recorder.make(chi) if record else chi.PredictiveModel
    pm = PM(mech, ems)
    if record:
        pm.seen = []
    if spec['type'] == 'indiv':
        return pm, pm, mech, None
    pop = K.build_pop(chi, spec['pop'])
    return chi.PopulationPredictiveModel(pm, pop), pm, mech, pop


def gen_spec(rng, n, allow_pop=True, allow_hetero=False, allow_trunc=True, allow_cov=True):
    n_out = int(rng.choice([1, 2, 2, 3]))
    kinds = [K.KINDS[int(rng.integers(4))] for _ in range(n_out)]
    n_mech = int(rng.integers(1, 3))
    spec = {'type': 'indiv', 'kinds': kinds, 'n_mech': n_mech, 'toy_seed': int(rng.integers(1000)), 'flat': False,
            'sig': c16.gen_sig(rng, kinds), 'psi': [float(x) for x in rng.uniform(0.6, 1.4, n_mech)]}
    if allow_pop and rng.random() < 0.55:
        spec['type'] = 'pop'
        spec['pop'] = c16.gen_pop(rng, n_mech + len(spec['sig']), n, positive_from=n_mech,
                                  allow_trunc=allow_trunc, allow_hetero=allow_hetero, allow_cov=allow_cov)
        spec['pop']['composed'] = True
        spec['theta'] = c16.pop_params(rng, spec['pop'])
    return spec


def gen_times(rng):
    nT = int(rng.integers(1, 5))
    t = [float(x) for x in rng.choice(np.arange(1, 41) * 0.25, size=nT, replace=False)]
    if nT > 1 and rng.random() < 0.25:
        t[int(rng.integers(nT))] = t[0]          # a tie
    return t


SEED_FORMS = {'int': int, 'np.int64': np.int64, 'np.int32': np.int32, 'bool': bool}


def gen_seed(rng, hi=1 << 31, force=None):
    """an integer seed as a caller may hold it: (its integer value — what the model and the replay are told,
    the object handed to chi, the form of that object).  Boundary values (0 is a valid and falsy integer seed,
    1, 2) and numpy integer scalars / Python bools (ints with the values 0 and 1) are regular seeds."""
    s = int(rng.integers(hi))
    if rng.random() < 0.2:
        s = int(rng.choice([0, 0, 0, 1, 2]))
    form = 'int'
    r = rng.random()
    if r < 0.3:
        form = 'np.int64' if r < 0.2 else 'np.int32'
    if s in (0, 1) and rng.random() < 0.25:
        form = 'bool'
    if force is not None:
        s = int(force)
        if form == 'bool' and s not in (0, 1):
            form = 'int'
    return s, SEED_FORMS[form](s), form


# ----------------------------------------------------------------------------------------
# prediction of values from the model's reads
# ----------------------------------------------------------------------------------------
def pop_dim_reads(ctx, pop, n, gen_wire, world):
    m = K.ModelRun(ctx.model('C16.run', True, True, ['population', K.pop_wire(pop), n], gen_wire, K.world_wire(world)))
    return {(c['unit'], c['out']): c['par'] for c in m.cells}, m


def patient_vector(ctx, pop, theta, reads_by_dim, i, rp, python=False):
    """the individual parameters of patient i from the variates at the modelled reads"""
    vec = []
    d0 = p0 = 0
    for sub in pop['subs']:
        npar = K.sub_nparams(sub, pop['n_ids'], pop['n_cov'])
        pr = theta[p0:p0 + npar]
        e, w = sub['elem'], sub['nDim']
        for d in range(w):
            rd = reads_by_dim[(i, d0 + d)]
            z = [rp.value(r) for r in rd]
            if any(v is None for v in z):
                return None
            if e in ('gaussian', 'logNormal'):
                if python:
                    v = pr[d] + pr[w + d] * z[0]
                    v = math.exp(v) if e == 'logNormal' else v
                else:
                    v = ctx.model('C15.pop', e == 'logNormal', bool(sub.get('centered', True)),
                                  float(pr[d]), float(pr[w + d]), float(z[0]))[1]
            elif e == 'pooled':
                v = pr[d]
            elif e == 'hetero':
                v = pr[int(z[0]) * w + d]  # the drawn individual's row of the stored parameters
            else:
                mu, sg = pr[d], pr[w + d]
                v = float(truncnorm.ppf(z[0], a=-mu / sg, b=np.inf, loc=mu, scale=sg))
            vec.append(float(v))
        d0 += w
        p0 += npar
    return vec


def predict_entries(ctx, spec, mech, ts, cells, rp, params_of_unit, python=False):
    """{(unit, out, time): value} from the cells' noise reads and the parameter vector of their unit"""
    kinds = spec['kinds']
    n_mech = spec['n_mech']
    items, labels = [], []
    cache = {}
    for c in cells:
        u = c['unit']
        if u not in cache:
            p = params_of_unit(u)
            if p is None:
                return None
            yb = mech.simulate(p[:n_mech], ts)
            cache[u] = (yb, sig_slices(kinds, p[n_mech:]))
        yb, sl = cache[u]
        z = [rp.value(r) for r in c['noise']]
        if any(v is None for v in z):
            return None
        items.append((kinds[c['out']], sl[c['out']], float(yb[c['out']][c['time']]), z))
        labels.append((u, c['out'], c['time']))
    if python:
        vals = [float(K.em_transform(k, sg, yb, z)) for (k, sg, yb, z) in items]
    else:
        vals = transform_batch(ctx, items)
    return dict(zip(labels, vals))


def table_from_entries(ctx, kind, outputs, ts, n, entries, counts=None):
    """the model's table assembly applied to predicted entries -> sorted measurement rows"""
    rep = ctx.model('C15.table', kind, len(outputs), len(ts), n, counts if counts is not None else None)[0]
    rows = []
    for r in rep:
        if kind == 'population':
            (i, t, o), (so, st, ss) = r
            v = entries[(ss, so, st)]
        else:
            i, t, o = r
            v = entries[(i - 1, o, t)]
        rows.append((i, float(ts[t]), outputs[o], float(v)))
    key = lambda r: tuple((x is None, x) for x in r)
    return sorted(rows, key=key)


# ----------------------------------------------------------------------------------------
# A. PredictiveModel
# ----------------------------------------------------------------------------------------
def case_predictive(ctx, chi, rng, k, force_seed=None):
    n = int(rng.integers(1, 4))
    spec = gen_spec(rng, n, allow_pop=False)
    times = gen_times(rng)
    dosed = bool(rng.random() < 0.4)
    pm, _, mech, _ = build(chi, spec, dosed=dosed)
    regimen = None
    if dosed:
        regimen = dict(dose=float(rng.choice([1.0, 2.5])), start=float(rng.choice([0.0, 1.0, 30.0])),
                       duration=float(rng.choice([0.01, 0.5])), period=float(rng.choice([1.0, 2.5])),
                       num=int(rng.choice([1, 2, 3])))
        pm.set_dosing_regimen(**regimen)
    params = spec['psi'] + spec['sig']
    s, s_obj, s_form = gen_seed(rng, force=force_seed)
    nS = None if rng.random() < 0.15 else n
    n1 = 1 if nS is None else nS
    include = bool(rng.random() < 0.6)
    inp = {'case': k, 'class': 'PredictiveModel', 'spec': spec, 'times': times, 'n': nS, 'seed': s,
           'seed_form': s_form, 'regimen': regimen, 'include_regimen': include}
    ctx.case('PredictiveModel/%d-outputs/%s' % (len(spec['kinds']), 'dosed' if dosed else 'plain'),
             nontrivial=('PredictiveModel/%s/%d/%d' % (''.join(spec['kinds']), len(times), n1))
             if len(spec['kinds']) > 1 or n1 > 1 else False, sample=inp)
    times2 = gen_times(rng)
    box = K.ArgBox(parameters=params, times=times, times2=times2)
    K.set_world(WORLD)
    df = pm.sample(box['parameters'], box['times'], n_samples=nS, seed=s_obj, include_regimen=include)
    box.check(ctx, 'C15.arguments_unchanged/PredictiveModel', inp)
    outputs = pm.get_output_names()
    meas, _, doses = canon_rows(df, outputs)
    ts = model_sorted_times(ctx, times)
    ctx.agree('C15.sorted_times', sorted(float(t) for t in times), ts, inp)
    label_spec(ctx, 'C15.table_labels/PredictiveModel', meas, n1, outputs, times, inp, df)
    m = K.model_run(ctx, AS_IS, ['predictive', spec['kinds'], len(times), n1], s, WORLD)
    rp = K.Replay(WORLD, s, {}).run(m.calls)
    ent = predict_entries(ctx, spec, mech, ts, m.cells, rp, lambda u: params)
    pred = table_from_entries(ctx, 'predictive', outputs, ts, n1, ent)
    ctx.agree('C15.table/PredictiveModel', meas, pred, inp)
    ent_py = predict_entries(ctx, spec, mech, ts, m.cells, rp, lambda u: params, python=True)
    ctx.spec('C15.predictive_law/PredictiveModel', rows_close(
        meas, table_from_entries(ctx, 'predictive', outputs, ts, n1, ent_py)), inp)
    # array form agrees with the table
    arr = K.array_entries(pm.sample(box['parameters'], box['times'], n_samples=nS, seed=s_obj, return_df=False))
    box.check(ctx, 'C15.arguments_unchanged/PredictiveModel', inp)
    ctx.spec('C15.array_equals_table/PredictiveModel',
             rows_close(meas, table_from_entries(ctx, 'predictive', outputs, ts, n1, arr)), inp)
    # dose rows
    reg = pm.get_dosing_regimen(final_time=float(np.max(times)))
    want = []
    if include and reg is not None:
        regrows = [(float(a), float(b), float(c)) for a, b, c in zip(reg['Time'], reg['Duration'], reg['Dose'])]
        for (i, j) in ctx.model('C15.table', 'doses', len(regrows), 0, n1, None)[0]:
            want.append((i,) + regrows[j])
    ctx.agree('C15.dose_rows/PredictiveModel', doses, sorted(want), inp)
    ctx.spec('C15.table_labels/PredictiveModel.dose_rows',
             rows_close(doses, sorted(want)), inp, {'doses': doses[:4], 'want': want[:4]})
    dose_events_spec(ctx, 'C15.table_labels/PredictiveModel.dose_events', doses, regimen, times, include, inp)
    # a later call on the same object
    fresh, _, _, _ = build(chi, spec, dosed=dosed)
    if dosed:
        fresh.set_dosing_regimen(**regimen)
    s2, s2_obj, s2_form = gen_seed(rng)
    a2 = {'times': times2, 'n': int(rng.integers(1, 4)), 'seed': s2, 'seed_form': s2_form,
          'include_regimen': bool(rng.random() < 0.6)}
    history_independent(ctx, 'C15.history_independent/PredictiveModel', pm, fresh,
                        lambda o, b: o.sample(b['parameters'], b['times2'], n_samples=a2['n'], seed=s2_obj,
                                              include_regimen=a2['include_regimen']), outputs, inp, a2, box)


# ----------------------------------------------------------------------------------------
# B. PopulationPredictiveModel
# ----------------------------------------------------------------------------------------
def pop_params_of_unit(ctx, spec, n, gen_wire, world, rp, python=False):
    reads, mp = pop_dim_reads(ctx, spec['pop'], n, gen_wire, world)
    return (lambda u: patient_vector(ctx, spec['pop'], spec['theta'], reads, u, rp, python)), reads, mp


def case_population(ctx, chi, rng, k, force_seed=None):
    n = int(rng.integers(1, 5))
    spec = gen_spec(rng, n, allow_pop=True, allow_hetero=True)
    if spec['type'] != 'pop':
        spec['type'] = 'pop'
        spec['pop'] = c16.gen_pop(rng, spec['n_mech'] + len(spec['sig']), n, positive_from=spec['n_mech'],
                                  allow_hetero=True)
        spec['pop']['composed'] = True
        spec['theta'] = c16.pop_params(rng, spec['pop'])
    # the population model was last used with another number of individuals
    stored = int(rng.choice([1, 2, 3, 7]))
    if any(sub['elem'] == 'hetero' for sub in spec['pop']['subs']):
        # a heterogeneous sub-model has one parameter row per stored individual
        spec['pop']['n_ids'] = stored
        spec['theta'] = c16.pop_params(rng, spec['pop'])
    times = gen_times(rng)
    dosed = bool(rng.random() < 0.3)
    ppm, pm, mech, pop = build(chi, spec, dosed=dosed, record=True)
    pop.set_n_ids(stored)
    if dosed:
        ppm.set_dosing_regimen(dose=2.0, start=1.0, duration=0.5, period=2.0, num=3)
    cov = c16.pop_covariates(rng, spec['pop'], n)
    s, s_obj, s_form = gen_seed(rng, force=force_seed)
    include = bool(rng.random() < 0.5)
    inp = {'case': k, 'class': 'PopulationPredictiveModel', 'spec': spec, 'times': times, 'n': n, 'seed': s,
           'seed_form': s_form, 'stored_n_ids': stored, 'cov': cov, 'include_regimen': include}
    cls = '+'.join(('cov:' if x.get('cov') else '') + x['elem'] + ('' if x.get('centered', True) else '/nc')
                   for x in spec['pop']['subs'])
    ctx.case('PopulationPredictiveModel/' + cls, nontrivial='PopulationPredictiveModel/%s/%d' % (cls, n), sample=inp)
    n2 = int(rng.integers(1, 5))
    times2, cov2 = gen_times(rng), c16.pop_covariates(rng, spec['pop'], n2)
    box = K.ArgBox(parameters=spec['theta'], times=times, covariates=cov, times2=times2, covariates2=cov2)
    K.set_world(WORLD)
    pm.seen = []
    try:
        df = ppm.sample(box['parameters'], box['times'], n_samples=n, seed=s_obj, covariates=box['covariates'],
                        include_regimen=include)
    except Exception as e:  # noqa
        ctx.spec('C15.sample_size/PopulationPredictiveModel', False, inp, {'raised': repr(e)[:200]})
        return
    ctx.spec('C15.sample_size/PopulationPredictiveModel', True, inp)
    box.check(ctx, 'C15.arguments_unchanged/PopulationPredictiveModel', inp)
    outputs = ppm.get_output_names()
    cov_names = pop.get_covariate_names() if cov is not None else []
    meas, covs, doses = canon_rows(df, outputs, cov_names)
    ts = model_sorted_times(ctx, times)
    label_spec(ctx, 'C15.table_labels/PopulationPredictiveModel', meas, n, outputs, times, inp, df)
    m = K.model_run(ctx, AS_IS, ['popPredictive', K.pop_wire(spec['pop']), spec['kinds'], len(times), n], s, WORLD)
    bounds = {'ids': spec['pop']['n_ids']}
    rp = K.Replay(WORLD, s, bounds).run(m.calls)
    pof, reads, mp = pop_params_of_unit(ctx, spec, n, ['gen', ['S', s], 0], WORLD, rp)
    # two-stage: the recorded patients are the transformed population draws
    patients = [pof(i) for i in range(n)]
    ctx.agree('C15.patients/PopulationPredictiveModel', [list(v) for v in pm.seen], patients, inp)
    pof_py, _, _ = pop_params_of_unit(ctx, spec, n, ['gen', ['S', s], 0], WORLD, rp, python=True)
    ctx.spec('C15.population_law/two_stage', core.close([list(v) for v in pm.seen], [pof_py(i) for i in range(n)]),
             inp, {'recorded': [list(v) for v in pm.seen][:2]})
    union = {}
    for (i, d), rd in sorted(reads.items()):
        union.setdefault(i, []).extend(rd)
    mine = {}
    for c in m.cells:
        mine[c['unit']] = c['par']
    ctx.agree('C15.patient_reads', sorted(mine.items()), sorted((i, union.get(i, [])) for i in mine), inp)
    ent = predict_entries(ctx, spec, mech, ts, m.cells, rp, pof)
    ctx.agree('C15.table/PopulationPredictiveModel', meas,
              table_from_entries(ctx, 'population', outputs, ts, n, ent), inp)
    ent_py = predict_entries(ctx, spec, mech, ts, m.cells, rp, pof_py, python=True)
    ctx.spec('C15.population_law/PopulationPredictiveModel', rows_close(
        meas, table_from_entries(ctx, 'population', outputs, ts, n, ent_py)), inp)
    # covariate rows
    want = []
    if cov is not None:
        for (i, cidx) in ctx.model('C15.table', 'covariates', len(cov_names), 0, n, None)[0]:
            want.append((i, cov_names[cidx], float(cov[i - 1][cidx])))
    ctx.agree('C15.covariate_rows', covs, sorted(want), inp)
    ctx.spec('C15.table_labels/PopulationPredictiveModel.covariate_rows', rows_close(covs, sorted(want)), inp)
    reg = ppm.get_dosing_regimen(final_time=float(np.max(times)))
    want = []
    if include and reg is not None:
        regrows = [(float(a), float(b), float(c)) for a, b, c in zip(reg['Time'], reg['Duration'], reg['Dose'])]
        for (i, j) in ctx.model('C15.table', 'doses', len(regrows), 0, n, None)[0]:
            want.append((i,) + regrows[j])
    ctx.agree('C15.dose_rows/PopulationPredictiveModel', doses, sorted(want), inp)
    ctx.spec('C15.table_labels/PopulationPredictiveModel.dose_rows', rows_close(doses, sorted(want)), inp)
    dose_events_spec(ctx, 'C15.table_labels/PopulationPredictiveModel.dose_events', doses,
                     REGIMEN if dosed else None, times, include, inp)
    # a later call on the same object (another sample size, other times)
    fresh, _, _, fpop = build(chi, spec, dosed=dosed)
    fpop.set_n_ids(stored)
    if dosed:
        fresh.set_dosing_regimen(dose=2.0, start=1.0, duration=0.5, period=2.0, num=3)
    s2, s2_obj, s2_form = gen_seed(rng)
    a2 = {'times': times2, 'n': n2, 'seed': s2, 'seed_form': s2_form, 'cov': cov2,
          'include_regimen': bool(rng.random() < 0.5)}
    history_independent(ctx, 'C15.history_independent/PopulationPredictiveModel', ppm, fresh,
                        lambda o, b: o.sample(b['parameters'], b['times2'], n_samples=a2['n'], seed=s2_obj,
                                              covariates=b['covariates2'], include_regimen=a2['include_regimen']),
                        outputs, inp, a2, box, cov_names)


def case_population_broadcast_covariates(ctx, chi, rng, k):
    """covariates of shape (n_cov,) are documented to be broadcast to every sample"""
    n = int(rng.integers(2, 4))
    spec = gen_spec(rng, n, allow_pop=True, allow_cov=False)
    spec['type'] = 'pop'
    n_dim = spec['n_mech'] + len(spec['sig'])
    spec['pop'] = {'subs': [{'elem': 'logNormal', 'nDim': n_dim, 'cov': True, 'centered': True}], 'composed': True,
                   'n_ids': 1, 'n_cov': 2}
    spec['theta'] = c16.pop_params(rng, spec['pop'])
    ppm, pm, mech, pop = build(chi, spec)
    cov = [float(x) for x in rng.uniform(-1, 1, 2)]
    inp = {'case': k, 'class': 'PopulationPredictiveModel', 'covariates_shape': '(n_cov,)', 'n': n, 'spec': spec}
    ctx.case('PopulationPredictiveModel/covariates-broadcast', nontrivial='cov-broadcast/%d' % n, sample=inp)
    box = K.ArgBox(parameters=spec['theta'], times=[1.0, 2.0], covariates=cov)
    try:
        df = ppm.sample(box['parameters'], box['times'], n_samples=n, seed=1, covariates=box['covariates'])
        box.check(ctx, 'C15.arguments_unchanged/PopulationPredictiveModel', inp)
        _, covs, _ = canon_rows(df, ppm.get_output_names(), pop.get_covariate_names())
        ok = len(covs) == n * 2 and all(abs(v - cov[pop.get_covariate_names().index(nm)]) < 1e-12
                                        for (_, nm, v) in covs)
        detail = {'rows': covs[:4]}
    except Exception as e:  # noqa
        ok, detail = False, {'raised': repr(e)[:200]}
    ctx.spec('C15.table_labels/covariates_broadcast', ok, inp, detail)


# ----------------------------------------------------------------------------------------
# C. PriorPredictiveModel
# ----------------------------------------------------------------------------------------
def inner_predict(ctx, spec, mech, ts, cells, rp, n, unit_params, gen_of_unit, world, python=False):
    """entries of an averaged model: unit k uses parameter vector unit_params[k] of the wrapped model; for a
    population-level model that vector is theta and patient 0 of a fresh population draw is used"""
    if spec['type'] == 'indiv':
        return predict_entries(ctx, spec, mech, ts, cells, rp, lambda u: unit_params[u], python)
    vec = {}
    for u in sorted(set(c['unit'] for c in cells)):
        reads, _ = pop_dim_reads(ctx, spec['pop'], n, gen_of_unit(u), world)
        vec[u] = patient_vector(ctx, spec['pop'], unit_params[u], reads, 0, rp, python)
        if vec[u] is None:
            return None
    return predict_entries(ctx, spec, mech, ts, cells, rp, lambda u: vec[u], python)


def standardised_noise(kind, sig, ybar, v):
    """the standard-normal variate behind a measurement, where the error model's sampler is invertible"""
    if kind == 'G':
        return (v - ybar) / sig[0]
    if kind == 'M':
        return (v - ybar) / (ybar * sig[0])
    if kind == 'LN':
        return (math.log(v / ybar) + sig[0] ** 2 / 2) / sig[0]
    return None


def own_noise_per_sample(ctx, tag, spec, mech, ts, outputs, meas, params, n, inp):
    """every sample ID is one draw of the error model around the mechanistic output at ITS parameter set: the
    measurement noise (standardised residuals about the ID's own curve, from the parameter sets the prior gives
    under this seed) of two sample IDs is never the same vector.  Individual-level wrapped models, outputs with
    an invertible sampler (one variate per value)."""
    if spec['type'] != 'indiv' or n < 2:
        return
    n_mech, kinds = spec['n_mech'], spec['kinds']
    z = {}
    try:
        for u in range(n):
            p = params[u]
            yb = mech.simulate(p[:n_mech], ts)
            sl = sig_slices(kinds, p[n_mech:])
            vals = {}
            for (_id, t, ob, v) in meas:
                if _id == u + 1:
                    vals.setdefault(outputs.index(ob), []).append(v)     # meas is sorted by (id, time, ...)
            vec = []
            for o, kind in enumerate(kinds):
                if kind == 'CM' or len(vals.get(o, [])) != len(ts):
                    continue
                vec += [standardised_noise(kind, sl[o], float(yb[o][j]), float(v)) for j, v in enumerate(vals[o])]
            z[u] = vec
    except (ValueError, ZeroDivisionError, KeyError, IndexError):
        return                  # not a draw around this curve at all: the law spec reports it
    if not z or not z[0]:
        return
    same = [(a + 1, b + 1) for a in range(n) for b in range(a + 1, n)
            if len(z[a]) == len(z[b]) and np.allclose(z[a], z[b], rtol=1e-9, atol=1e-9)]
    ctx.spec(tag, not same, inp, {'sample IDs with the same measurement noise': same[:6],
                                  'standardised noise': [[round(x, 6) for x in z[u][:4]] for u in sorted(z)[:3]]})


def case_prior(ctx, chi, rng, k, force_seed=None):
    n = int(rng.integers(1, 4))
    if force_seed is not None:
        n = max(n, 2)          # several sample IDs under the boundary seed
    spec = gen_spec(rng, n, allow_pop=True, allow_hetero=True, allow_trunc=False, allow_cov=False)
    if spec['type'] == 'pop':
        for sub in spec['pop']['subs']:
            if sub['elem'] == 'gaussian':
                sub['elem'] = 'logNormal'
        spec['theta'] = c16.pop_params(rng, spec['pop'])
    times = gen_times(rng)
    dosed = bool(rng.random() < 0.3)
    include = bool(rng.random() < 0.6)
    model, pm, mech, pop = build(chi, spec, dosed=dosed)
    base = spec['psi'] + spec['sig'] if spec['type'] == 'indiv' else spec['theta']
    prior = c16.lognormal_prior(base)
    prm = chi.PriorPredictiveModel(model, prior)
    if dosed:
        prm.set_dosing_regimen(**REGIMEN)
    s, s_obj, s_form = gen_seed(rng, hi=1 << 30, force=force_seed)
    inp = {'case': k, 'class': 'PriorPredictiveModel', 'spec': spec, 'times': times, 'n': n, 'seed': s,
           'seed_form': s_form, 'dosed': dosed, 'include_regimen': include}
    ctx.case('PriorPredictiveModel/%s' % spec['type'], nontrivial='Prior/%s/%d/%d' % (spec['type'], len(spec['kinds']), n),
             sample=inp)
    times2 = gen_times(rng)
    box = K.ArgBox(times=times, times2=times2)
    K.set_world(WORLD)
    df = prm.sample(box['times'], n_samples=n, seed=s_obj, include_regimen=include)
    box.check(ctx, 'C15.arguments_unchanged/PriorPredictiveModel', inp)
    outputs = model.get_output_names()
    meas, _, doses = canon_rows(df, outputs)
    ts = model_sorted_times(ctx, times)
    label_spec(ctx, 'C15.table_labels/PriorPredictiveModel', meas, n, outputs, times, inp, df)
    averaged_dose_rows(ctx, 'C15.table_labels/PriorPredictiveModel.dose_rows', prm, doses, times, include, inp,
                       regimen=REGIMEN if dosed else None)
    bounds = {'ids': spec['pop']['n_ids']} if spec['type'] == 'pop' else {}
    # a complete parameter set per sample, drawn from the prior
    keep = np.random.get_state()
    np.random.seed(s)
    direct = [[float(x) for x in prior.sample().flatten()] for _ in range(n)]
    np.random.set_state(keep)

    def attempt(var):
        m = K.model_run(ctx, var, ['priorPredictive', K.spec_wire(spec), len(times), n], s, WORLD)
        rp = K.Replay(WORLD, s, bounds, prior).run(m.calls)
        rows = {}
        for c in m.cells:
            v = rp.value(c['par'][0])
            rows[c['unit']] = [float(x) for x in np.asarray(v).ravel()]
        preds = []
        for py in (False, True):
            ent = inner_predict(ctx, spec, mech, ts, m.cells, rp, n, rows,
                                lambda u: ['gen', ['S', s + u + 1], 0], WORLD, python=py)
            preds.append(table_from_entries(ctx, 'averaged', outputs, ts, n, ent))
        return rows, preds

    rows, preds = attempt(AS_IS)
    ctx.spec('C15.prior_draws', core.close([rows[u] for u in sorted(rows)], direct[:len(rows)]), inp)
    ctx.agree('C15.table/PriorPredictiveModel', meas, preds[0], inp)
    ctx.spec('C15.prior_predictive_law', rows_close(meas, preds[1]), inp)
    own_noise_per_sample(ctx, 'C15.prior_predictive_law/own_noise_per_sample', spec, mech, ts, outputs, meas, direct, n, inp)
    # a later call on the same object
    fmodel, _, _, _ = build(chi, spec, dosed=dosed)
    fresh = chi.PriorPredictiveModel(fmodel, prior)
    if dosed:
        fresh.set_dosing_regimen(**REGIMEN)
    s2, s2_obj, s2_form = gen_seed(rng, hi=1 << 30)
    a2 = {'times': times2, 'n': int(rng.integers(1, 4)), 'seed': s2, 'seed_form': s2_form,
          'include_regimen': bool(rng.random() < 0.6)}
    history_independent(ctx, 'C15.history_independent/PriorPredictiveModel', prm, fresh,
                        lambda o, b: o.sample(b['times2'], n_samples=a2['n'], seed=s2_obj,
                                              include_regimen=a2['include_regimen']), outputs, inp, a2, box)


# ----------------------------------------------------------------------------------------
# D. PosteriorPredictiveModel
# ----------------------------------------------------------------------------------------
def posterior_wire(ds, names, ids):
    out = []
    for nm in names:
        da = ds[nm]
        has_ind = 'individual' in da.dims
        draw_major = list(da.dims).index('draw') < list(da.dims).index('chain')
        a = da.transpose('chain', 'draw', 'individual').values if has_ind else \
            da.transpose('chain', 'draw').values[:, :, None]
        vals = [[[None if math.isnan(x) else float(x) for x in d] for d in ch] for ch in a]
        out.append([bool(has_ind), bool(draw_major), vals])
    return out


def joint_rows(ds, names, ids, individual):
    """all complete (chain, draw) rows of the posterior restricted to the individual, computed label-wise"""
    rows = []
    for c in ds.chain.values:
        for d in ds.draw.values:
            row = []
            for nm in names:
                da = ds[nm]
                if 'individual' in da.dims:
                    v = float(da.sel(chain=c, draw=d, individual=individual).values)
                else:
                    v = float(da.sel(chain=c, draw=d).values)
                row.append(v)
            if not any(math.isnan(x) for x in row):
                rows.append(row)
    return rows


def case_posterior(ctx, chi, rng, k, layout=None, force_seed=None):
    n = int(rng.integers(1, 5))
    spec = gen_spec(rng, n, allow_pop=True, allow_hetero=True, allow_trunc=True, allow_cov=False)
    times = gen_times(rng)
    dosed = bool(rng.random() < 0.3)
    include = bool(rng.random() < 0.6)
    model, pm, mech, pop = build(chi, spec, record=True, dosed=dosed)
    model_names = model.get_parameter_names()
    # the dataset may name its variables differently (param_map)
    param_map = {}
    r_map = rng.random()
    if r_map < 0.3:
        for nm in model_names:
            if rng.random() < 0.6:
                param_map[nm] = 'post ' + nm
    elif r_map < 0.55 and len(model_names) >= 2:
        # the dataset uses the model's own names for OTHER parameters: a cycle (a->b, b->c, c->a) or a chain
        # (a->b, b->c, c->'post c') — every name is still looked up exactly once
        sel = [int(j) for j in rng.choice(len(model_names), size=int(rng.integers(2, len(model_names) + 1)),
                                          replace=False)]
        cyc = bool(rng.random() < 0.6)
        for a, b in zip(sel, sel[1:] + ([sel[0]] if cyc else [])):
            param_map[model_names[a]] = model_names[b]
        if not cyc:
            param_map[model_names[sel[-1]]] = 'post ' + model_names[sel[-1]]
    names = [param_map.get(nm, nm) for nm in model_names]
    base = spec['psi'] + spec['sig'] if spec['type'] == 'indiv' else spec['theta']
    n_chains, n_draws = int(rng.integers(1, 4)), int(rng.integers(2, 5))
    pad = int(rng.choice([0, 0, 1])) if n_draws > 2 else 0
    ids = None if spec['type'] == 'pop' else ['id%d' % i for i in range(int(rng.integers(1, 4)))]
    jit = rng.uniform(0.9, 1.1, size=(len(names), n_chains, n_draws, 3))
    layout = layout or str(rng.choice(['chain-major', 'chain-major', 'draw-major']))
    order = None
    if layout == 'draw-major':
        order = {nm: True for nm in names}
    elif layout == 'mixed':
        order = {nm: (j % 2 == 1) for j, nm in enumerate(names)}
        n_chains = max(n_chains, 2)
        jit = rng.uniform(0.9, 1.1, size=(len(names), n_chains, n_draws, 3))
    pop_level = [nm for nm in names if 'Sigma' in nm] if ids is not None else list(names)
    ds = K.make_posterior(names, n_chains, n_draws, ids, lambda p, c, d, i: float(base[p] * jit[p, c, d, i]),
                          pop_level=pop_level, pad=pad, order=order)
    ppm = chi.PosteriorPredictiveModel(model, ds, param_map=param_map or None)
    if dosed:
        ppm.set_dosing_regimen(**REGIMEN)
    outputs = model.get_output_names()
    base_inp = {'case': k, 'class': 'PosteriorPredictiveModel', 'spec': spec, 'chains': n_chains, 'draws': n_draws,
                'pad': pad, 'ids': ids, 'layout': layout, 'param_map': param_map, 'dosed': dosed}
    ctx.case('PosteriorPredictiveModel/%s/%s' % (spec['type'], layout),
             nontrivial='Posterior/%s/%s/%dx%d/%s' % (spec['type'], layout, n_chains, n_draws, pad), sample=base_inp)

    def one_call(individual, times, n, seed3, include, history):
        """one call of `sample` on the (same) object, checked completely: a result may depend on the arguments of
        this call only, not on what the object was asked before"""
        s, s_obj, s_form = seed3
        ind_idx = 0 if individual is None else ids.index(individual)
        inp = dict(base_inp, times=times, n=n, seed=s, seed_form=s_form, individual=individual, include_regimen=include,
                   earlier_calls_on_this_object=history)
        K.set_world(WORLD)
        pm.seen = []
        box = K.ArgBox(times=times)
        df = ppm.sample(box['times'], n_samples=n, individual=individual, seed=s_obj, include_regimen=include)
        box.check(ctx, 'C15.arguments_unchanged/PosteriorPredictiveModel', inp)
        outputs = model.get_output_names()
        meas, _, doses = canon_rows(df, outputs)
        ts = model_sorted_times(ctx, times)
        label_spec(ctx, 'C15.table_labels/PosteriorPredictiveModel', meas, n, outputs, times, inp, df)
        averaged_dose_rows(ctx, 'C15.table_labels/PosteriorPredictiveModel.dose_rows', ppm, doses, times, include, inp,
                           regimen=REGIMEN if dosed else None)
        # the parameter vectors handed to the wrapped model
        if spec['type'] == 'indiv':
            drawn = [list(v) for v in pm.seen]
        else:
            drawn = None
        jr = joint_rows(ds, names, ids, individual if individual is not None else (ids[0] if ids else None))
        bounds0 = {'ids': spec['pop']['n_ids']} if spec['type'] == 'pop' else {}
        m = K.model_run(ctx, AS_IS, ['posteriorPredictive', K.spec_wire(spec), len(times), n], s, WORLD)

        def attempt(wire):
            """the model of the selection code on this layout of the variables"""
            ok, cols, lay, kept = ctx.model('C15.posterior', wire, ind_idx)
            if not ok:
                return {'ok': False}
            n_rows = len(cols[0])
            matrix = [[cols[q][r_] for q in range(len(names))] for r_ in range(n_rows)]
            rp = K.Replay(WORLD, s, dict(bounds0, rows=n_rows)).run(m.calls)
            unit_params, row_call = {}, {}
            for c in m.cells:
                idx = int(rp.value(c['par'][0]))
                unit_params[c['unit']] = matrix[idx]
                row_call[c['unit']] = c['par'][0][1]
            preds = []
            for py in (False, True):
                ent = inner_predict(ctx, spec, mech, ts, m.cells, rp, n, unit_params,
                                    lambda u: ['gen', ['S', s], row_call[u] + 1], WORLD, python=py)
                preds.append(None if ent is None else table_from_entries(ctx, 'averaged', outputs, ts, n, ent))
            return {'ok': True, 'params': unit_params, 'preds': preds}

        # every variable is transposed to (chain, draw, ...) before it is flattened: the model is given the
        # variables with their own dimension orders and does the same
        res = attempt(posterior_wire(ds, names, ids))
        ctx.agree('C15.posterior.accepts', True, res['ok'], inp)
        if not res['ok']:
            return
        unit_params = res['params']
        if drawn is not None:
            ctx.agree('C15.posterior.drawn_rows', drawn, [unit_params[u] for u in sorted(unit_params)], inp)
            is_joint = all(any(core.close(v, r) for r in jr) for v in drawn)
        else:
            is_joint = all(any(core.close(unit_params[u], r) for r in jr) for u in unit_params)
        ctx.spec('C15.posterior_joint/%s' % ('mixed_dim_order' if layout == 'mixed' else 'consistent_dim_order'),
                 is_joint, inp, {'drawn': (drawn or [])[:2]})
        if res['preds'][0] is not None:
            ctx.agree('C15.table/PosteriorPredictiveModel', meas, res['preds'][0], inp)
        if res['preds'][1] is not None:
            ctx.spec('C15.posterior_predictive_law', rows_close(meas, res['preds'][1]), inp)



    # a sequence of calls on one object: other individuals, sample sizes, time vectors, seeds
    individual = None if ids is None or rng.random() < 0.3 else ids[int(rng.integers(len(ids)))]
    history = []
    for call_no in range(1 + int(rng.integers(1, 3))):
        seed3 = gen_seed(rng, force=force_seed if call_no == 0 else None)
        one_call(individual, times, n, seed3, include, list(history))
        history.append({'individual': individual, 'n': n, 'times': times, 'seed': seed3[0], 'seed_form': seed3[2]})
        if ids is not None and len(ids) > 1:
            others = [i_ for i_ in ids if i_ != (individual if individual is not None else ids[0])]
            individual = others[int(rng.integers(len(others)))] if rng.random() < 0.8 else None
        if rng.random() < 0.5:
            n = int(rng.integers(1, 5))
        if rng.random() < 0.5:
            times = gen_times(rng)
        include = bool(rng.random() < 0.6)


# ----------------------------------------------------------------------------------------
# E. PAMPredictiveModel
# ----------------------------------------------------------------------------------------
def case_pam(ctx, chi, rng, k, force_seed=None):
    n = int(rng.integers(2, 8))
    spec = gen_spec(rng, n, allow_pop=False)
    times = gen_times(rng)
    dosed = bool(rng.random() < 0.35)
    model, pm, mech, _ = build(chi, spec, record=True, dosed=dosed)
    names = model.get_parameter_names()
    base = spec['psi'] + spec['sig']
    n_models = int(rng.integers(2, 4))
    n_chains, n_draws = int(rng.integers(1, 3)), int(rng.integers(2, 4))
    posts, dss = [], []
    for mdl in range(n_models):
        jit = rng.uniform(0.9, 1.1, size=(len(names), n_chains, n_draws, 2))
        ds = K.make_posterior(names, n_chains, n_draws, ['a', 'b'],
                              lambda p, c, d, i, mdl=mdl, jit=jit: float((base[p] + (10.0 * mdl if p == 0 else 0.0))
                                                                        * jit[p, c, d, i]),
                              pop_level=[nm for nm in names if 'Sigma' in nm])
        dss.append(ds)
        posts.append(chi.PosteriorPredictiveModel(model, ds))
    weights = [float(x) for x in rng.uniform(0.2, 2.0, n_models)]
    pam = chi.PAMPredictiveModel(posts, weights)
    if dosed:
        pam.set_dosing_regimen(**REGIMEN)
    outputs = model.get_output_names()
    ctx.case('PAMPredictiveModel/%d-models%s' % (n_models, '/dosed' if dosed else ''),
             nontrivial='PAM/%d/%d' % (n_models, n), sample={'case': k, 'spec': spec, 'weights': weights})

    def one_call(individual, times, n, seed3, world, history, include=False):
        """one call on the (same) averaged model and the same posterior predictive models, checked completely"""
        s, s_obj, s_form = seed3
        ind_idx = 0 if individual is None else ['a', 'b'].index(individual)
        inp = {'case': k, 'class': 'PAMPredictiveModel', 'spec': spec, 'times': times, 'n': n, 'seed': s,
               'seed_form': s_form, 'weights': weights, 'world': list(world), 'individual': individual, 'dosed': dosed,
               'include_regimen': include, 'earlier_calls_on_this_object': history}
        K.set_world(world)
        pm.seen = []
        box = K.ArgBox(times=times)
        df = pam.sample(box['times'], n_samples=n, individual=individual, seed=s_obj, include_regimen=include)
        box.check(ctx, 'C15.arguments_unchanged/PAMPredictiveModel', inp)
        outputs = model.get_output_names()
        meas, _, doses = canon_rows(df, outputs)
        ts = model_sorted_times(ctx, times)
        label_spec(ctx, 'C15.table_labels/PAMPredictiveModel', meas, n, outputs, times, inp, df)
        dose_events_spec(ctx, 'C15.table_labels/PAMPredictiveModel.dose_events', doses,
                         REGIMEN if dosed else None, times, include, inp)
        # which model every ID came from: psi0 of model m is near base + 10 m
        which = [int(round((v[0] / base[0] - 1.0) * base[0] / 10.0)) for v in pm.seen]
        which = [min(max(w, 0), n_models - 1) for w in which]
        # allocation: replay of the weighted choice on the stream the code uses
        p = np.asarray(weights) / np.sum(weights)
        g = np.random.default_rng(s)
        draws_rng = [int(x) for x in g.choice(np.arange(n_models), p=p, size=n)]
        counts_obs = [which.count(mdl) for mdl in range(n_models)]
        cr, idm_r, wn = ctx.model('C15.pam', n_models, draws_rng, weights)
        ctx.agree('C15.pam.allocation', which, idm_r, inp)
        ctx.agree('C15.pam.weights', list(pam.get_weights()), wn, inp)
        # a model chosen with the stated weights, by the seeded generator: the ID -> model list is the sorted list
        # of the weighted draws of default_rng(seed)
        ctx.spec('C15.pam_weights/allocation', which == sorted(draws_rng), inp,
                 {'observed': which, 'weighted_draws': draws_rng})
        ctx.spec('C15.pam_weights/normalised', core.close(list(pam.get_weights()), list(p)), inp)
        # values: model with the observed allocation
        entry = ['pam', [[K.spec_wire(spec), int(c)] for c in counts_obs], len(times)]
        m = K.model_run(ctx, AS_IS, entry, s, world)
        rp = K.Replay(world, s, {'rows': n_chains * n_draws, 'pam_p': p}).run(m.calls)
        unit_params = {}
        for c in m.cells:
            mdl = which[c['unit']]
            ok, cols, _, _ = ctx.model('C15.posterior', posterior_wire(dss[mdl], names, ['a', 'b']), ind_idx)
            idx = int(rp.value(c['par'][0]))
            unit_params[c['unit']] = [cols[q][idx] for q in range(len(names))]
        ent = predict_entries(ctx, spec, mech, ts, m.cells, rp, lambda u: unit_params[u])
        pred = table_from_entries(ctx, 'pam', outputs, ts, n, ent, counts=counts_obs)
        ctx.agree('C15.table/PAMPredictiveModel', meas, pred, inp)
        # every ID's parameter vector is one joint row of the posterior of its model
        jr = [joint_rows(ds, names, ['a', 'b'], individual or 'a') for ds in dss]
        ctx.spec('C15.posterior_joint/pam', all(any(core.close(list(v), r) for r in jr[w])
                                                for v, w in zip(pm.seen, which)), inp)

    individual = [None, 'a', 'b'][int(rng.integers(3))]
    history = []
    for call_no in range(1 + int(rng.integers(1, 3))):
        seed3 = gen_seed(rng, force=force_seed if call_no == 0 else None)
        world = ('LS', int(rng.integers(1 << 30)), 0)
        include = bool(rng.random() < 0.6)
        one_call(individual, times, n, seed3, world, list(history), include)
        history.append({'individual': individual, 'n': n, 'times': times, 'seed': seed3[0], 'seed_form': seed3[2],
                        'include_regimen': include})
        individual = 'b' if individual in (None, 'a') else [None, 'a'][int(rng.integers(2))]
        if rng.random() < 0.5:
            n = int(rng.integers(2, 8))
        if rng.random() < 0.5:
            times = gen_times(rng)


# ----------------------------------------------------------------------------------------
# F. sample sizes different from the stored n_ids
# ----------------------------------------------------------------------------------------
def case_nids(ctx, chi, rng, k):
    stored = int(rng.integers(1, 5))
    n = int(rng.integers(1, 6))
    if rng.random() < 0.3:
        n = stored                      # as many samples as stored individuals: nothing is broadcast or cut
    bare = bool(rng.random() < 0.4)
    which = str(rng.choice(['pooled', 'hetero']))
    mech = toy.ToyModel(1, 1, int(rng.integers(100)))
    pm = Recorder.make(chi)(mech, [chi.GaussianErrorModel()])
    pm.seen = []
    if which == 'pooled':
        special = chi.PooledModel(n_dim=2 if bare else 1)
        sp = [1.1, 0.3] if bare else [0.3]
    else:
        special = chi.HeterogeneousModel(n_dim=2 if bare else 1)
        special.set_n_ids(stored)
        rows = rng.uniform(0.2, 0.6, size=(stored, 2 if bare else 1))
        if bare:
            rows[:, 0] += 0.8
        sp = [float(x) for x in rows.flatten()]
    if bare:
        pop = special
        theta = sp
    else:
        pop = chi.ComposedPopulationModel([chi.LogNormalModel(), special])
        theta = [0.0, 0.1] + sp
    pop.set_n_ids(stored)
    ppm = chi.PopulationPredictiveModel(pm, pop)
    times = [1.0, 2.0, 3.0]
    inp = {'case': k, 'class': 'PopulationPredictiveModel', 'special': which, 'bare': bare, 'stored_n_ids': stored,
           'n': n, 'theta': theta}
    ctx.case('n_ids/%s/%s' % (which, 'bare' if bare else 'composed'),
             nontrivial='nids/%s/%s/%d/%d' % (which, bare, stored, n) if n != stored else False, sample=inp)
    box = K.ArgBox(parameters=theta, times=times)
    try:
        arr = np.asarray(ppm.sample(box['parameters'], box['times'], n_samples=n, seed=3, return_df=False), float)
        raised = None
        # the caller's population parameters (float array) are what they were: the next call draws from the same
        # individuals
        box.check(ctx, 'C15.arguments_unchanged/PopulationPredictiveModel', inp)
    except Exception as e:  # noqa
        raised = core.errkind(e)
        ctx.errkinds.add(raised)
    pats, cols, pooled_n, accepted = ctx.model('C15.nids', False, stored, n)
    if which == 'pooled':
        ctx.agree('C15.nids/pooled.patients', None if raised else len(pm.seen), pooled_n, inp)
        ok = raised is None and len(pm.seen) == n and all(abs(v[-1] - sp[-1]) < 1e-12 for v in pm.seen)
        ctx.spec('C15.sample_size/PooledModel', ok, inp, {'raised': raised})
        return
    # heterogeneous
    if isinstance(cols, str) or not accepted:
        ctx.agree('C15.nids/hetero', raised, cols if isinstance(cols, str) else 'err:valueError', inp)
    else:
        ctx.agree('C15.nids/hetero', None if raised else len(pm.seen), pats, inp)
    # the property: n individuals drawn from the population model (rows of the stored parameters, chosen
    # with the seeded generator), whatever the stored n_ids
    rows_ = np.asarray(sp).reshape(stored, -1)
    g = np.random.default_rng(3)
    if not bare:
        g.standard_normal(n)            # the log-normal sub-model draws first
    pick = g.integers(0, stored, size=n)
    ok = raised is None and len(pm.seen) == n and all(
        core.close(list(v[-rows_.shape[1]:]), list(rows_[pick[i]])) for i, v in enumerate(pm.seen))
    ctx.spec('C15.sample_size/HeterogeneousModel', ok, inp,
             {'raised': raised, 'patients': len(pm.seen), 'drawn_rows': [int(x) for x in pick]})


CASES = [case_predictive, case_population, case_prior, case_posterior, case_pam, case_nids,
         case_population_broadcast_covariates]


SEED0_CASES = [case_predictive, case_population, case_prior, case_posterior, case_pam]


def corpus(ctx, chi):
    # input class of C15_posterior_joint_counterexample (pre-fix code): variables with different dimension orders
    for j in range(2):
        ctx.guard(case_posterior, ctx, chi, ctx.sub_rng(900000 + j), 900000 + j, layout='mixed')
    # the boundary seed 0 (a valid integer seed that is falsy) on each of the five predictive classes
    for j in range(2 * len(SEED0_CASES)):
        k = 910000 + j
        ctx.guard(SEED0_CASES[j % len(SEED0_CASES)], ctx, chi, ctx.sub_rng(k), k, force_seed=0)


def run(ctx):
    chi = core.import_chi()
    corpus(ctx, chi)
    reps = 120 if ctx.tier == 'quick' else 1500
    k = 0
    for rep in range(reps):
        for case in CASES:
            if case is case_population_broadcast_covariates and rep % 5:
                k += 1
                continue
            ctx.guard(case, ctx, chi, ctx.sub_rng(k), k)
            k += 1


def replay(ctx, data):
    chi = core.import_chi()
    inp = data['failing']['input']
    k = int(inp['case'])
    ctx.seed = data.get('seed', ctx.seed)
    if k >= 910000:
        SEED0_CASES[(k - 910000) % len(SEED0_CASES)](ctx, chi, ctx.sub_rng(k), k, force_seed=0)
    elif k >= 900000:
        case_posterior(ctx, chi, ctx.sub_rng(k), k, layout='mixed')
    else:
        CASES[k % len(CASES)](ctx, chi, ctx.sub_rng(k), k)
    print('spec failures on replay:', [b['tag'] for b in ctx.spec_bad][:6])
    print('disagreements on replay:', ctx.corr_bad[:2])
    known = {f['tag'] for f in ctx.findings if f.get('status') == 'known'}
    return 1 if any(b['tag'] not in known for b in ctx.spec_bad) else 0
