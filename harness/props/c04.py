"""C04 — error models are the documented normalised densities with exact sensitivities"""
import math
import numpy as np
from scipy import integrate, stats

import core
import oracle
import srctie

REQUIRED_THEOREMS = [
    'C04_gauss_pointwise_sum', 'C04_mult_pointwise_sum', 'C04_cm_pointwise_sum',
    'C04_ln_pointwise_sum', 'C04_gauss_is_logpdf', 'C04_cm_is_logpdf', 'C04_mult_is_logpdf',
    'C04_ln_is_logpdf', 'C04_gauss_normalised', 'C04_ln_normalised', 'C04_gauss_grad',
    'C04_cm_grad', 'C04_mult_grad', 'C04_ln_grad', 'C04_gauss_guard', 'C04_ln_guard',
    'C04_cm_guard', 'C04_mult_guard', 'C04_ln_mean'] + sorted(set(srctie.theorem_of(k) for k in srctie.all_kernels()))
RULE = ('random (error model, n in 1..12, sensitivity width 0..5, parameters inside the support and '
        'on every guard boundary, non-constant outputs/observations); a case is non-trivial when '
        'n >= 2 with non-constant outputs; distinct = distinct (model, n, width, guard class)')
ASSUMPTIONS = ['the closed-form kernels are additionally tied to the source by harness/srctie.py: traced from the '
               'public methods on every run, proved equal to the Lean model (Tie_* in ChiProofs/Tie/C04.lean); '
               'evidence key source_tie; a tie that is not established is not a verdict, it steers the search',
               'model outputs and their sensitivities are inputs (the ODE solver is not involved)',
               'normalisation on chi is checked by quadrature only as a failing-input search; the '
               'claim is the Lean theorem']

KINDS = ['G', 'M', 'CM', 'LN']


def classes(chi):
    return {'G': (chi.GaussianErrorModel, 1), 'M': (chi.MultiplicativeGaussianErrorModel, 1),
            'CM': (chi.ConstantAndMultiplicativeGaussianErrorModel, 2),
            'LN': (chi.LogNormalErrorModel, 1)}


def documented_logpdf(kind, sig, yb, ob):
    """the densities as the class docstrings state them (executable spec)"""
    yb = np.asarray(yb, float)
    ob = np.asarray(ob, float)
    with np.errstate(all='ignore'):
        if kind == 'G':
            return stats.norm.logpdf(ob, loc=yb, scale=sig[0])
        if kind == 'M':
            return stats.norm.logpdf(ob, loc=yb, scale=sig[0] * yb)
        if kind == 'CM':
            return stats.norm.logpdf(ob, loc=yb, scale=sig[0] + sig[1] * yb)
        mu = np.log(yb) - sig[0] ** 2 / 2
        return stats.norm.logpdf(np.log(ob), loc=mu, scale=sig[0]) - np.log(ob)


def gen_case(rng, kinds):
    m = kinds[int(rng.integers(len(kinds)))]
    k = 2 if m == 'CM' else 1
    n = int(rng.integers(1, 13))
    p = int(rng.integers(0, 6))
    sig = rng.uniform(0.2, 2.0, k)
    guard = 'inside'
    r = rng.random()
    if r < 0.07:
        sig[int(rng.integers(k))] = 0.0
        guard = 'sigma=0'
    elif r < 0.14:
        sig[int(rng.integers(k))] = -abs(rng.normal()) - 1e-3
        guard = 'sigma<0'
    yb = rng.uniform(0.3, 3.0, n)
    ob = rng.uniform(0.2, 4.0, n)
    if rng.random() < 0.08:
        yb[int(rng.integers(n))] = float(rng.choice([0.0, -1.0]))
        guard += '+ybar<=0'
    if rng.random() < 0.1:
        yb[:] = yb[0]
        ob[:] = ob[0]
    if guard == 'inside' and m != 'LN' and rng.random() < 0.1:
        # large values with small residuals (|y| / |y - ybar| ~ 1e8): the density is the documented one at
        # every magnitude
        big = float(rng.choice([2e7, 5e5]))
        yb = big + rng.uniform(0.0, 3.0, n)
        ob = yb + rng.normal(size=n) * 0.05
        sig = {'G': np.array([0.05]), 'M': np.array([0.05 / big]), 'CM': np.array([0.03, 0.02 / big])}[m]
        guard = 'inside+large-values'
    S = rng.normal(size=(n, p))
    return m, sig, yb, ob, S, guard


PERSIST = {}


def persistent_eval(chi, m, sig, yb, ob, S):
    """the same error-model object and the SAME ndarray objects (overwritten in place) are used for every
    case of a run: results must not depend on what the object evaluated before"""
    n, p = S.shape
    key = (m, n, p)
    if key not in PERSIST:
        PERSIST[key] = (classes(chi)[m][0](), np.empty(len(sig)), np.empty(n), np.empty(n), np.empty((n, p)))
    em, sb, yb_b, ob_b, S_b = PERSIST[key]
    sb[:] = sig
    yb_b[:] = yb
    ob_b[:] = ob
    S_b[:] = S
    with np.errstate(all='ignore'):
        v = float(em.compute_log_likelihood(sb, yb_b, ob_b))
        pw = np.asarray(em.compute_pointwise_ll(sb, yb_b, ob_b), float).copy()
        s1, g = em.compute_sensitivities(sb, yb_b, S_b, ob_b)
    return v, pw, float(s1), np.asarray(g, float).flatten().copy()


def whole_numbers(ctx, chi, m, sig, yb, ob, S):
    """the same whole numbers as float64 arrays, int64 arrays and lists of Python ints are the same
    parameters, predictions, measurements and sensitivities"""
    n, p = S.shape
    k = len(sig)
    x = np.concatenate([np.where(np.asarray(sig) < 1.0, 1.0, 2.0), np.round(yb) + 1.0, np.round(ob) + 1.0,
                        np.round(S).flatten()])
    em = classes(chi)[m][0]()

    def f(v):
        sg, y_, o_ = v[:k], v[k:k + n], v[k + n:k + 2 * n]
        S_ = np.asarray(v[k + 2 * n:]).reshape(n, p)
        sc, gr = em.compute_sensitivities(sg, y_, S_, o_)
        return (float(em.compute_log_likelihood(sg, y_, o_)), np.asarray(em.compute_pointwise_ll(sg, y_, o_), float),
                float(sc), np.asarray(gr, float).flatten())
    ctx.number_types('C04.whole_number_arguments/' + m, f, x, {'model': m, 'n': n, 'p': p})


def run_case(ctx, chi, m, sig, yb, ob, S, guard):
    cls = classes(chi)[m][0]
    em = cls()
    inp = {'model': m, 'sigma': sig, 'ybar': yb, 'obs': ob, 'S': S}
    n, p = S.shape
    with np.errstate(all='ignore'):
        v = float(em.compute_log_likelihood(sig, yb, ob))
        pw = np.asarray(em.compute_pointwise_ll(sig, yb, ob), float)
        s1, g = em.compute_sensitivities(sig, yb, S, ob)
        s1 = float(s1)
        g = np.asarray(g, float).flatten()
    # results handed out stay what they were, arguments stay what they were
    held = [(pw, pw.copy()), (g, g.copy())]
    args_before = [np.array(a, float, copy=True) for a in (sig, yb, ob, S)]
    pv, ppw, ps1, pg = persistent_eval(chi, m, sig, yb, ob, S)
    with np.errstate(all='ignore'):
        em.compute_sensitivities(np.asarray(sig, float) * 1.5, yb * 0.5 + 0.1, S * 2.0, ob + 0.3)
        em.compute_pointwise_ll(np.asarray(sig, float) * 1.5, yb * 0.5 + 0.1, ob + 0.3)
    ctx.spec('C04.earlier_results_unchanged/' + m, all(np.array_equal(a, b, equal_nan=True) for a, b in held),
             {'model': m, 'sigma': sig, 'ybar': yb, 'obs': ob, 'S': S})
    ctx.spec('C04.arguments_unchanged/' + m,
             all(np.array_equal(np.asarray(a, float), b, equal_nan=True) for a, b in zip((sig, yb, ob, S), args_before)),
             {'model': m, 'sigma': args_before[0], 'ybar': args_before[1], 'obs': args_before[2], 'S': args_before[3]})
    if ctx.cases % 2 == 0:
        whole_numbers(ctx, chi, m, sig, yb, ob, S)
    ctx.spec('C04.same_result_from_reused_object_and_buffers/' + m,
             core.close(pv, v) and core.close(ppw, pw) and core.close(ps1, s1) and
             (not math.isfinite(v) or core.close(pg, g)), {'model': m, 'sigma': sig, 'ybar': yb, 'obs': ob, 'S': S},
             {'fresh_object': v, 'reused_object': pv})
    # the same error model behind chi.ReducedErrorModel with one parameter fixed at its value: score and
    # sensitivities (mechanistic block of ANY width, then the free error parameters) must be those of
    # the plain model
    if ctx.cases % 3 == 0 and all(x > 0 for x in sig):
        names = em.get_parameter_names()
        kfix = int(ctx.cases // 3) % len(names)
        red = chi.ReducedErrorModel(cls())
        red.fix_parameters({names[kfix]: float(sig[kfix])})
        free = [float(x) for j, x in enumerate(sig) if j != kfix]
        keep = [True] * p + [j != kfix for j in range(len(sig))]
        try:
            with np.errstate(all='ignore'):
                rs, rg = red.compute_sensitivities(free, yb, S, ob)
                rv = red.compute_log_likelihood(free, yb, ob)
            okr = core.close(float(rs), s1) and core.close(float(rv), v) and \
                (not math.isfinite(v) or core.close(np.asarray(rg, float).flatten(), g[np.array(keep)]))
            ctx.spec('C04.reduced_error_model/' + m, okr, {'model': m, 'sigma': sig, 'ybar': yb, 'obs': ob, 'S': S,
                                                       'fixed': names[kfix]},
                     {'reduced': np.asarray(rg, float).flatten(), 'plain_restricted': g[np.array(keep)]})
            if len(names) == 2:
                # the fixed set changes on the SAME object after sensitivities were computed: swapped in one
                # call, then both fixed one after the other
                other = 1 - kfix
                red.fix_parameters({names[kfix]: None, names[other]: float(sig[other])})
                keep2 = [True] * p + [j != other for j in range(2)]
                with np.errstate(all='ignore'):
                    rs2, rg2 = red.compute_sensitivities([float(sig[kfix])], yb, S, ob)
                ok2 = core.close(float(rs2), s1) and (not math.isfinite(v) or
                                                     core.close(np.asarray(rg2, float).flatten(), g[np.array(keep2)]))
                red.fix_parameters({names[kfix]: float(sig[kfix])})
                with np.errstate(all='ignore'):
                    rs3, rg3 = red.compute_sensitivities([], yb, S, ob)
                ok3 = core.close(float(rs3), s1) and (not math.isfinite(v) or
                                                     core.close(np.asarray(rg3, float).flatten(), g[:p]))
                ctx.spec('C04.reduced_error_model/' + m, ok2 and ok3,
                         {'model': m, 'sigma': sig, 'ybar': yb, 'obs': ob, 'S': S,
                          'sequence': ['fix ' + names[kfix], 'sensitivities', 'release it and fix ' + names[other] +
                                       ' in one call', 'sensitivities', 'fix ' + names[kfix] + ' as well', 'sensitivities']},
                         {'after_swap': np.asarray(rg2, float).flatten(), 'expected': g[np.array(keep2)],
                          'both_fixed': np.asarray(rg3, float).flatten(), 'expected_both_fixed': g[:p]})
        except Exception as e:  # noqa
            ctx.spec('C04.reduced_error_model/' + m, False, {'model': m, 'sigma': sig, 'S_width': p,
                                                       'fixed': names[kfix]}, {'raised': repr(e)[:200]})
    mv, mpw, mg = ctx.model('C04.em', m, list(sig), list(yb), list(ob), [list(r) for r in S])
    ctx.branches.add(m + ':' + core.fclass(mv))
    nontriv = n >= 2 and not np.all(yb == yb[0])
    ctx.case('%s/%s' % (m, guard), nontrivial=('%s/n%d/p%d/%s' % (m, n, p, guard)) if nontriv else False,
             sample=inp)
    if mv == 'neginf':
        ctx.agree('C04.em.score', v, -math.inf, inp)
        ctx.agree('C04.em.pointwise-neginf', bool(np.all(pw == -np.inf)), True, inp)
        ctx.agree('C04.em.S1score', s1, -math.inf, inp)
        ctx.agree('C04.em.gradlen', len(g), p + len(sig), inp)
    elif mv == 'undef':
        ctx.agree('C04.em.score-nonfinite', bool(np.isfinite(v)), False, inp)
    else:
        ctx.agree('C04.em.score', v, mv, inp)
        ctx.agree('C04.em.pointwise', pw, mpw, inp)
        ctx.agree('C04.em.S1score', s1, mv, inp)
        ctx.agree('C04.em.grad', g, mg, inp)
    # ---- the property itself on the real code
    sig_pos = all(s > 0 for s in sig)
    if not sig_pos or (m == 'LN' and np.any(yb <= 0)):
        ctx.spec('C04.guard/' + m, v == -math.inf and bool(np.all(pw == -np.inf)) and s1 == -math.inf,
                 inp, {'score': v})
        return
    tot = {'G': np.full(n, sig[0]), 'M': sig[0] * yb, 'CM': sig[0] + sig[-1] * yb,
           'LN': np.full(n, sig[0])}[m]
    if np.any(tot <= 0) or np.any(yb <= 0) and m == 'LN':
        return  # outside the documented density's domain; covered by the correspondence only
    doc = documented_logpdf(m, sig, yb, ob)
    ctx.spec('C04.is_logpdf/' + m, core.close(v, float(np.sum(doc))) and core.close(pw, doc), inp,
             {'chi': v, 'documented': float(np.sum(doc))})
    ctx.spec('C04.pointwise_sum/' + m, core.close(float(np.sum(pw)), v), inp)
    ctx.spec('C04.S1_score/' + m, core.close(s1, v), inp)
    ctx.spec('C04.grad_len/' + m, len(g) == p + len(sig), inp, {'len': len(g)})
    if 'large-values' in guard:
        return      # finite differences of values ~1e7 with residuals ~0.05 are round-off; the gradient is
                    # compared with the Lean model's closed form (C04.em.grad) at these inputs
    # gradient vs finite differences of chi's own value
    for k in range(len(sig)):
        ok, est = oracle.grad_matches(
            lambda s: em.compute_log_likelihood(s, yb, ob), np.array(sig, float), k, g[p + k])
        ctx.spec('C04.grad_sigma/%s/%d' % (m, k), ok, inp, {'analytic': g[p + k], 'fd': est})
    for k in range(min(p, 2)):
        def along(t, k=k):
            return em.compute_log_likelihood(sig, yb + t[0] * S[:, k], ob)
        ok, est = oracle.grad_matches(along, np.array([0.0]), 0, g[k])
        ctx.spec('C04.grad_psi/' + m, ok, inp, {'k': k, 'analytic': g[k], 'fd': est})


def normalisation(ctx, chi, rng, count):
    """failing-input search for `integrates to one` (and the log-normal mean)"""
    for _ in range(count):
        m = KINDS[int(rng.integers(4))]
        k = 2 if m == 'CM' else 1
        sig = rng.uniform(0.3, 1.2, k)
        yb = float(rng.uniform(0.5, 3.0))
        em = classes(chi)[m][0]()
        lo = 0.0 if m == 'LN' else -np.inf

        def pdf(y):
            with np.errstate(all='ignore'):
                return math.exp(em.compute_log_likelihood(sig, [yb], [y]))
        tot_sd = {'G': sig[0], 'M': sig[0] * yb, 'CM': sig[0] + sig[-1] * yb, 'LN': sig[0] * yb}[m]
        pts = [yb, max(yb - 3 * tot_sd, 1e-6 if m == 'LN' else -1e9), yb + 3 * tot_sd]
        if m == 'LN':
            # substitute y = e^x so that both tails are covered (12 sd of log y on each side)
            c = math.log(yb)
            val, _ = integrate.quad(lambda x: pdf(math.exp(x)) * math.exp(x), c - 14 * sig[0],
                                    c + 14 * sig[0], points=[c - sig[0], c, c + sig[0]], limit=400)
            mean, _ = integrate.quad(lambda x: pdf(math.exp(x)) * math.exp(2 * x), c - 14 * sig[0],
                                     c + 16 * sig[0], points=[c - sig[0], c, c + sig[0]], limit=400)
            ctx.spec('C04.ln_mean', abs(mean - yb) < 1e-6 * yb, {'model': m, 'sigma': sig, 'ybar': yb},
                     {'mean': mean})
        else:
            val, _ = integrate.quad(pdf, yb - 12 * tot_sd, yb + 12 * tot_sd, points=sorted(pts), limit=400)
        ctx.spec('C04.normalised/' + m, abs(val - 1) < 1e-6, {'model': m, 'sigma': sig, 'ybar': yb},
                 {'integral': val})
        ctx.case('normalisation/' + m)


def length_mismatch(ctx, chi):
    for m in KINDS:
        em = classes(chi)[m][0]()
        sig = [1.0] * em.n_parameters()
        try:
            em.compute_log_likelihood(sig, [1.0, 2.0], [1.0])
            out = 'ok'
        except Exception as e:  # noqa
            out = core.errkind(e)
        mo = ctx.model('C04.em', m, sig, [1.0, 2.0], [1.0], [[], []])
        ctx.errkinds.add(out)
        ctx.agree('C04.em.lengthMismatch', out != 'ok', mo[0] == 'err:lengthMismatch', {'model': m})
        ctx.case('lengthMismatch/' + m)


def run(ctx):
    chi = core.import_chi()
    n_cases = 1600 if ctx.tier == 'quick' else 20000
    length_mismatch(ctx, chi)
    # boundary corpus first
    corpus = [('CM', [1.0, 0.5], [2.0, 1.0, 3.0], [2.5, 0.5, 3.0]),
              ('M', [0.5], [2.0, 1.0, 3.0], [2.5, 0.5, 3.0]),
              ('LN', [0.7], [2.0, 1.0, 3.0], [2.5, 0.5, 3.0]),
              ('G', [0.0], [1.0], [1.0]), ('LN', [1.0], [0.0, 1.0], [1.0, 1.0]),
              ('CM', [1.0, -0.5], [1.0], [1.0]), ('G', [1e-3], [1.0, 2.0], [1.0, 2.0])]
    for m, sig, yb, ob in corpus:
        S = np.arange(len(yb) * 2, dtype=float).reshape(len(yb), 2) / 3 - 0.5
        run_case(ctx, chi, m, np.array(sig), np.array(yb), np.array(ob), S, 'corpus')
    # the source-derived tie: formulas traced from the current source vs the generated Lean definitions; guards
    # outside the support guards come back as concrete cases on both sides of each of them
    tie = srctie.check(ctx, chi)
    for m, sig, yb, ob, S, label in tie['hints']:
        ctx.guard(run_case, ctx, chi, m, np.array(sig, float), np.array(yb, float), np.array(ob, float),
                  np.array(S, float), label)
    for i in range(n_cases):
        rng = ctx.sub_rng(i)
        ctx.guard(run_case, ctx, chi, *gen_case(rng, KINDS))
    # long observation vectors (sums of hundreds / thousands of terms; large and small scales)
    for j in range(12 if ctx.tier == 'quick' else 120):
        rng = ctx.sub_rng(2 * 10 ** 6 + j)
        m = KINDS[j % 4]
        n = int(rng.choice([150, 480, 1500]))
        scale = float(rng.choice([1e-3, 1.0, 1e3]))
        sig = rng.uniform(0.2, 2.0, 2 if m == 'CM' else 1) * (scale if m in ('G', 'CM') else 1.0)
        yb = rng.uniform(0.3, 3.0, n) * scale
        ob = yb * rng.uniform(0.7, 1.4, n)
        ctx.guard(run_case, ctx, chi, m, sig, yb, ob, rng.normal(size=(n, 1)), 'long%d/scale%g' % (n, scale))
    normalisation(ctx, chi, ctx.sub_rng(10 ** 6), 8 if ctx.tier == 'quick' else 80)


def replay(ctx, data):
    chi = core.import_chi()
    inp = data['failing']['input']
    print(json_dump(inp))
    m = inp['model']
    em = classes(chi)[m][0]()
    yb = np.atleast_1d(np.array(inp['ybar'], float))
    sig = np.array(inp['sigma'], float)
    if 'obs' in inp:
        ob = np.array(inp['obs'], float)
        print('chi score', em.compute_log_likelihood(sig, yb, ob),
              'documented', float(np.sum(documented_logpdf(m, sig, yb, ob))))
        S = np.array(inp['S'], float).reshape(len(yb), -1)
        print('chi S1', em.compute_sensitivities(sig, yb, S, ob))
        print('model', ctx.model('C04.em', m, list(sig), list(yb), list(ob), [list(r) for r in S]))
    return 0


def json_dump(x):
    import json
    return json.dumps(x)[:2000]
