"""C19 — evaluations are pure: no hidden state, no input mutation, any process"""
import copy
import math
import numpy as np
import pints

import core
import toy
from props import c02, c08

REQUIRED_THEOREMS = ['C19_construct_leaves_ingredient', 'C19_constructions_agree', 'C19_construct_in_place_counterexample',
                     'C19_in_place_invisible_for_sorted_times', 'C19_memo_by_value_pure',
                     'C19_memo_by_reference_counterexample', 'C19_eval_preserves_equiv', 'C19_sequence_is_pointwise', 'C19_interleave',
                     'C19_switch_history_free', 'C19_result_stable', 'C19_alias_counterexample',
                     'C19_frame', 'C19_deep_copy_isolated', 'C19_mixed_history', 'C19_shared_cell_counterexample',
                     'C19_sens_columns_follow_configuration', 'C19_reconfigure_history_free',
                     'C19_count_shortcut_counterexample', 'C19_every_row_written_no_junk',
                     'C19_skipped_row_counterexample']
RULE = ('for every kind of evaluable object (reduced error / mechanistic / population models, individual and '
        'hierarchical likelihoods and posteriors with and without fixed parameters, predictive models) a random '
        'interleaving (with repeats) of all its evaluation calls at several inputs is compared, call by call, with '
        'single evaluations of an untouched twin; returned arrays are re-read at the end (aliasing), inputs are '
        'compared before/after; siblings built from the same user models are evaluated interleaved and the user '
        'models are mutated afterwards; evaluations are interleaved with fix_parameters / release / '
        'enable_sensitivities calls and compared with a twin that went through the re-configurations only (and, '
        'for a reduced mechanistic model, with the closed form and the Lean switch model); data frames and '
        'dictionaries handed to a ProblemModellingController (with / without dose and duration columns and keys) '
        'are compared before / after; population models with covariates (bare, composed, below a '
        'ReducedPopulationModel), population filters and population-filter posteriors (measurement times in any '
        'order, every kind of population model) are among the evaluated objects, and half of the callers keep ONE '
        'parameter array that they overwrite in place before every call; several objects are built one after the '
        'other from the SAME user objects (filter, times, models, prior, covariates; individual likelihoods and '
        'population model) and evaluated in between, against objects built from ingredients of their own, what '
        'the caller can observe of his ingredients is compared before / after every construction, and the '
        'measurement columns held by the caller\'s filter and by every built posterior are compared with the Lean '
        'store model; a forked pints.ParallelEvaluator and the sequential one (individual, hierarchical and '
        'population-filter posteriors) are compared with single evaluations of objects of their own; '
        'hierarchical likelihoods / posteriors with individuals WITHOUT measurements: evaluateS1 repeated, interleaved '
        'with value calls, a sibling and allocate-fill-free array work of the process (memory nobody wrote must never '
        'reach a result), the gradient against finite differences of __call__ of an object of its own; predictive '
        'models whose error model has a fixed parameter (user-supplied ReducedErrorModel / controller.fix_parameters): '
        'seeded samples before / after the fixed value is changed on the source and on a sibling predictive model, and '
        'against a model built from ingredients of its own; '
        'non-trivial = interleaving of >=2 evaluation kinds with fixed parameters or >=2 objects; distinct = '
        '(object kind, interleaving shape)')
ASSUMPTIONS = ['process forking / pickling is runtime behaviour: observed, not proved',
               'objects own deep copies of the models they are built from: the store model (Ownership.lean) makes '
               'that explicit and the C19.world correspondence checks it for reduced error models and likelihoods; '
               'for the other ingredients (mechanistic / population models, controllers) it is observed by the '
               'sibling / later-mutation checks']

TAG17 = 'C19.result_aliases_hidden_buffer'


def snap(x):
    if isinstance(x, tuple):
        return tuple(snap(v) for v in x)
    if hasattr(x, 'to_numpy'):
        return np.array(x.to_numpy(), dtype=object).copy()
    return np.array(x, dtype=float).copy()


def same(a, b):
    if isinstance(a, tuple) and isinstance(b, tuple) and len(a) == len(b) >= 2 and np.ndim(a[0]) == 0 \
            and not math.isfinite(float(a[0])):
        # (score, gradient…) with a non-finite score: the gradient is unspecified (np.empty)
        return same(a[0], b[0])
    if isinstance(a, tuple):
        return isinstance(b, tuple) and len(a) == len(b) and all(same(x, y) for x, y in zip(a, b))
    a = np.asarray(a)
    b = np.asarray(b)
    if a.shape != b.shape:
        return False
    if a.dtype == object or b.dtype == object:
        return bool(np.all(a == b))
    return bool(np.all((a == b) | (np.isnan(a) & np.isnan(b))))


def near(a, b):
    """like `same`, to rounding (two objects in the same configuration may take different but equivalent routes)"""
    if isinstance(a, tuple) and isinstance(b, tuple) and len(a) == len(b) >= 2 and np.ndim(a[0]) == 0 \
            and not math.isfinite(float(a[0])):
        return near(a[0], b[0])
    if isinstance(a, tuple):
        return isinstance(b, tuple) and len(a) == len(b) and all(near(x, y) for x, y in zip(a, b))
    a, b = np.asarray(a), np.asarray(b)
    if a.shape != b.shape:
        return False
    if a.dtype == object or b.dtype == object:
        return same(a, b)
    return bool(np.allclose(a, b, rtol=1e-9, atol=1e-12, equal_nan=True))


FILTER_CLASSES = ['GaussianFilter', 'GaussianKDEFilter', 'GaussianMixtureFilter', 'LogNormalFilter',
                  'LogNormalKDEFilter']


class FilterMaker(object):
    """measurements of one data set and the population filter (elementary, or composed of two blocks of time
    points) built from them; calling it builds a new filter object"""

    def __init__(self, chi, rng, n_obs, n_times):
        self.chi, self.n_obs, self.n_times = chi, n_obs, n_times
        blocks = [n_times]
        if n_times >= 2 and rng.random() < 0.3:
            cut = int(rng.integers(1, n_times))
            blocks = [cut, n_times - cut]
        self.classes = [FILTER_CLASSES[int(rng.integers(5))] for _ in blocks]
        n_ids = int(rng.integers(3, 7))
        self.arrays = []
        for b in blocks:
            d = rng.uniform(0.5, 2.0, (n_ids, n_obs, b))
            if rng.random() < 0.25:
                d[int(rng.integers(n_ids)), int(rng.integers(n_obs)), int(rng.integers(b))] = np.nan    # not measured
            self.arrays.append(d)
        self.kind = 'Composed' if len(blocks) > 1 else self.classes[0]

    def __call__(self, arrays=None):
        arrays = self.arrays if arrays is None else arrays
        fs = [getattr(self.chi, c)(a) for c, a in zip(self.classes, arrays)]
        return fs[0] if len(fs) == 1 else self.chi.ComposedPopulationFilter(fs)


def is_numeric_snapshot(u):
    return isinstance(u, np.ndarray) or (isinstance(u, tuple) and len(u) > 0 and all(is_numeric_snapshot(w) for w in u))


def obs_equal(a, b):
    """two dictionaries of observations (arrays / tuples of arrays: equal element by element, nan = nan; anything
    else: ==); returns the keys that differ"""
    bad = []
    for k in a:
        u, v = a[k], b.get(k)
        if is_numeric_snapshot(u):
            ok = is_numeric_snapshot(v) and same(u, v)
        else:
            ok = not is_numeric_snapshot(v) and (u == v)
        if not ok:
            bad.append(k)
    return bad


def attempt(f):
    try:
        with np.errstate(all='ignore'):
            return snap(f())
    except Exception as e:  # noqa
        return 'raises ' + type(e).__name__


class FilterProblem(object):
    """a population-filter inference problem: measurements (filter), measurement times in the order of the data
    columns (not necessarily increasing), a toy mechanistic model, a population model (bare, composed, with
    covariates, with fixed parameters), prior, sigma fixed or inferred, covariates of the simulated individuals"""

    def __init__(self, chi, rng, pop_kinds=(0, 1, 2, 3, 3, 4, 5, 5, 6, 7)):
        self.chi = chi
        n_obs, n_t = int(rng.integers(1, 3)), int(rng.integers(2, 5))
        self.n_par = nd = int(rng.integers(2, 4))
        self.seed = int(rng.integers(1000))
        self.fm = FilterMaker(chi, rng, n_obs, n_t)
        times = np.sort(rng.choice(np.arange(1, 16) * 0.5, n_t, replace=False))
        self.sorted = bool(rng.random() < 0.25)
        if not self.sorted:
            while True:
                perm = rng.permutation(n_t)
                if not np.all(perm == np.arange(n_t)):
                    break
            times = times[perm]
        self.times = times
        self.n_s = int(rng.integers(2, 5))
        if 'GaussianMixtureFilter' in self.fm.classes and self.n_s % 2:
            self.n_s += 1        # (a mixture filter takes a multiple of its number of kernels)
        self.sigma = None if rng.random() < 0.3 else [float(v) for v in rng.uniform(0.1, 0.5, n_obs)]
        self.log_scale = bool(rng.random() < 0.5)
        self.pop_kind = pk = int(rng.choice(list(pop_kinds)))
        nc = int(rng.integers(1, 3))
        centered = bool(rng.random() < 0.5)
        lognormal = bool(rng.random() < 0.5)
        ndc = {2: nd, 3: nd, 4: 1, 5: nd - 1}.get(pk, 1)
        sel = None
        if rng.random() < 0.7:
            allp = [[p_, d] for p_ in range(2) for d in range(ndc)]
            sel = [allp[int(j)] for j in rng.choice(len(allp), size=int(rng.integers(1, len(allp) + 1)), replace=False)]

        def covm(n):
            m = chi.CovariatePopulationModel(chi.GaussianModel(n_dim=n, centered=centered), chi.LinearCovariateModel(nc))
            if sel is not None:
                m.set_population_parameters(sel)
            return m

        def inner():
            if pk == 0:
                return (chi.LogNormalModel if lognormal else chi.GaussianModel)(n_dim=nd, centered=centered)
            if pk == 1:
                return chi.ComposedPopulationModel([chi.PooledModel(n_dim=1), chi.GaussianModel(n_dim=nd - 1)])
            if pk in (2, 3):
                return covm(nd)
            if pk == 4:
                return covm(1)
            if pk == 5:
                return chi.ComposedPopulationModel([chi.GaussianModel(n_dim=1, centered=centered), covm(nd - 1)])
            if pk == 6:
                return (chi.LogNormalModel if lognormal else chi.GaussianModel)(n_dim=nd)
            return chi.ComposedPopulationModel([chi.HeterogeneousModel(n_dim=1), chi.LogNormalModel(n_dim=nd - 1)])
        self.fixed = None
        if pk in (3, 4, 5, 6):
            nm = inner().get_parameter_names()
            self.fixed = {nm[int(j)]: float(rng.uniform(0.5, 1.2))
                          for j in rng.choice(len(nm), size=int(rng.integers(1, 3)), replace=False)}

        def pop():
            m = inner()
            if self.fixed is not None:
                m = chi.ReducedPopulationModel(m)
                m.fix_parameters(dict(self.fixed))
            if pk == 4:
                m = chi.ComposedPopulationModel([m, chi.GaussianModel(n_dim=nd - 1)])
            return m
        self.pop = pop
        scratch = pop()
        scratch.set_n_ids(self.n_s)
        self.n_cov = scratch.n_covariates()
        self.n_top = scratch.n_parameters() + (n_obs if self.sigma is None else 0)
        self.n_hdim = scratch.n_hierarchical_dim()
        self.cov = None
        if self.n_cov:
            self.cov = rng.normal(size=(self.n_s if rng.random() < 0.7 else 1, self.n_cov)) * 0.3
        self.prior_args = [(float(rng.uniform(-0.2, 0.2)), float(rng.uniform(0.3, 0.5))) for _ in range(self.n_top)]
        self.n = self.n_top + self.n_s * (self.n_hdim + n_t * n_obs)
        self.kind = 'PopulationFilterLogPosterior/%s/pop%d/%s' % (self.fm.kind, pk, 'sorted' if self.sorted else 'unsorted')
        self.arrays = self.fm.arrays + [self.times] + ([] if self.cov is None else [self.cov])
        self.probe = rng.uniform(0.5, 2.0, (3, n_obs, n_t))
        self.rng = rng

    def ingredients(self):
        """user objects of their own (data, times, covariates: copies)"""
        pr = [pints.LogNormalLogPrior(a, b) for a, b in self.prior_args]
        return {'filter': self.fm([a.copy() for a in self.fm.arrays]), 'times': self.times.copy(),
                'mech': toy.ToyModel(self.fm.n_obs, self.n_par, self.seed), 'pop': self.pop(),
                'prior': pints.ComposedLogPrior(*pr) if len(pr) > 1 else pr[0],
                'sigma': None if self.sigma is None else list(self.sigma),
                'cov': None if self.cov is None else self.cov.copy()}

    def build_from(self, ing, variant=None):
        log_scale = self.log_scale if variant is None else bool(variant)
        return self.chi.PopulationFilterLogPosterior(
            ing['filter'], ing['times'], ing['mech'], ing['pop'], ing['prior'], sigma=ing['sigma'],
            error_on_log_scale=log_scale, n_samples=self.n_s, covariates=ing['cov'])

    def build(self):
        return self.build_from(self.ingredients())

    def points(self, k):
        xs = []
        for _ in range(k):
            x = self.rng.uniform(0.5, 1.5, self.n)
            x[self.n_top + self.n_s * self.n_hdim:] = self.rng.normal(size=self.n - self.n_top - self.n_s * self.n_hdim) * 0.5
            xs.append(x)
        return xs

    def observe(self, ing):
        """what the caller can see of the objects it handed over, through their public methods"""
        f, mech, pop = ing['filter'], ing['mech'], ing['pop']
        top = np.linspace(0.7, 1.2, self.n_top)
        o = {'filter.compute_log_likelihood(probe)': attempt(lambda: f.compute_log_likelihood(self.probe.copy())),
             'filter.compute_sensitivities(probe)': attempt(lambda: f.compute_sensitivities(self.probe.copy())),
             'filter.n_times, n_observables': (f.n_times(), f.n_observables()),
             'times': ing['times'].copy(), 'sigma': None if ing['sigma'] is None else list(ing['sigma']),
             'covariates': None if ing['cov'] is None else ing['cov'].copy(),
             'mechanistic_model: parameters, outputs, has_sensitivities':
                 (list(mech.parameters()), list(mech.outputs()), bool(mech.has_sensitivities())),
             'mechanistic_model.simulate': attempt(lambda: mech.simulate(np.linspace(0.6, 1.1, self.n_par), [0.5, 2.0])),
             'population_model: names, n_parameters, n_ids, n_hierarchical_dim, n_covariates':
                 (list(pop.get_parameter_names()), pop.n_parameters(), pop.n_ids(), pop.n_hierarchical_dim(),
                  pop.n_covariates()),
             'log_prior(point)': attempt(lambda: ing['prior'](top))}
        return o

    def mutate(self, ing, rng):
        """the user goes on working with his own objects"""
        n_t = len(ing['times'])
        ing['filter'].sort_times(np.arange(n_t)[::-1])
        ing['mech'].set_parameter_names({'psi0': 'renamed'})
        ing['mech']._c[:] = 7.0         # the user's own model class, not chi's
        ing['mech'].enable_sensitivities(True)
        ing['pop'].set_n_ids(7)
        ing['pop'].set_dim_names(['dim %d' % d for d in range(self.n_par)])
        if self.fixed is not None and self.pop_kind != 4:
            ing['pop'].fix_parameters({k: 3.0 for k in self.fixed})


class HierProblem(object):
    """individual likelihoods, a composed population model and covariates from which hierarchical likelihoods /
    posteriors are built"""

    def __init__(self, chi, rng):
        self.chi = chi
        self.n_ids, self.subs = c02.gen_case(rng)
        self.D = sum(nd for _, nd, _, _ in self.subs)
        n_cov = sum(nc for _, _, nc, _ in self.subs)
        self.cov = rng.normal(size=(self.n_ids, n_cov)) * 0.3 if n_cov else None
        self.data = [(list(np.sort(rng.choice(np.arange(1, 20) * 0.5, 2, replace=False))), list(rng.uniform(0.5, 3, 2)))
                     for _ in range(self.n_ids)]
        self.kind = 'HierarchicalLogLikelihood'
        h = self.build_from(self.ingredients(), 0)
        self.n = h.n_parameters()
        self.n_top = h.n_parameters(exclude_bottom_level=True)
        self.rng = rng

    def ingredients(self):
        chi = self.chi
        return {'lls': [chi.LogLikelihood(toy.ToyModel(1, self.D - 1, 3), chi.GaussianErrorModel(), o, t)
                        for t, o in self.data],
                'pop': chi.ComposedPopulationModel([c02.make_sub(chi, *s, n_ids=self.n_ids) for s in self.subs]),
                'cov': None if self.cov is None else self.cov.copy()}

    def build_from(self, ing, variant=None):
        h = self.chi.HierarchicalLogLikelihood(ing['lls'], ing['pop'], covariates=ing['cov'])
        if variant:
            nt = h.n_parameters(exclude_bottom_level=True)
            pr = [pints.LogNormalLogPrior(0.0, 0.4) for _ in range(nt)]
            return self.chi.HierarchicalLogPosterior(h, pints.ComposedLogPrior(*pr) if nt > 1 else pr[0])
        return h

    def points(self, k):
        return [self.rng.uniform(0.5, 1.5, self.n) for _ in range(k)]

    def observe(self, ing):
        """(the hierarchical likelihood shares the individual likelihoods and the population model with its
        caller by design: what is observed is that they still EVALUATE the same, and the array handed over)"""
        x = np.linspace(0.7, 1.2, self.D)
        return {'covariates': None if ing['cov'] is None else ing['cov'].copy(),
                'individual log-likelihoods at a point': tuple(attempt(lambda: ll(x)) for ll in ing['lls']),
                'individual log-likelihoods: names': [list(ll.get_parameter_names()) for ll in ing['lls']]}

    mutate = None


class Zoo(object):
    """builds (twin_a, twin_b, evaluations, inputs) for one kind of object"""

    def __init__(self, chi, rng):
        self.chi = chi
        self.rng = rng

    def reduced_error(self):
        chi, rng = self.chi, self.rng
        base = c08.em_classes(chi)[int(rng.integers(4))]
        n = int(rng.integers(1, 5))
        yb, ob, S = rng.uniform(0.5, 2, n), rng.uniform(0.5, 2, n), rng.normal(size=(n, 2))
        fix = rng.random() < 0.7 and base().n_parameters() > 1

        def build():
            m = chi.ReducedErrorModel(base())
            if fix:
                m.fix_parameters({m.get_parameter_names()[0]: 0.8})
            return m
        ev = {'ll': lambda m, x: m.compute_log_likelihood(x, yb, ob),
              'pw': lambda m, x: m.compute_pointwise_ll(x, yb, ob),
              's1': lambda m, x: m.compute_sensitivities(x, yb, S, ob),
              'sample': lambda m, x: m.sample(x, yb, n_samples=2, seed=4)}
        k = build().n_parameters()
        return 'ReducedErrorModel', build, ev, [rng.uniform(0.5, 1.5, k) for _ in range(3)], [yb, ob, S]

    def reduced_pop(self):
        chi, rng = self.chi, self.rng
        kind = int(rng.integers(5))
        nd = int(rng.integers(1, 3))
        n_ids = int(rng.integers(1, 4))

        def base():
            if kind == 0:
                return chi.PooledModel(n_dim=nd + 1)
            if kind == 1:
                return chi.HeterogeneousModel(n_dim=nd)
            if kind == 2:
                return chi.GaussianModel(n_dim=nd, centered=False)
            if kind == 3:
                return chi.LogNormalModel(n_dim=nd)
            return chi.ComposedPopulationModel([chi.PooledModel(n_dim=1), chi.GaussianModel(n_dim=nd)])

        def build():
            b = base()
            b.set_n_ids(n_ids)
            m = chi.ReducedPopulationModel(b)
            nm = m.get_parameter_names()
            m.fix_parameters({nm[0]: 0.9})
            return m
        m0 = build()
        D = m0.n_dim()
        psi = rng.uniform(0.5, 1.5, (n_ids, D))
        ev = {'ll': lambda m, x: m.compute_log_likelihood(x, psi),
              'indiv': lambda m, x: m.compute_individual_parameters(x, psi),
              's1': lambda m, x: m.compute_sensitivities(x, psi, reduce=True),
              'sample': lambda m, x: m.sample(x, n_samples=2, seed=4)}
        if kind == 1:
            ev.pop('sample')
        k = m0.n_parameters()
        return 'ReducedPopulationModel/' + type(base()).__name__, build, ev, \
            [rng.uniform(0.5, 1.5, k) for _ in range(3)], [psi]

    def loglik(self, posterior=False):
        chi, rng = self.chi, self.rng
        build0 = c08.make_ll(chi, rng)
        fix = rng.random() < 0.5
        names = build0().get_parameter_names()

        fix_all_mech = rng.random() < 0.3

        def build():
            ll = build0()
            n_err = len([n for n in names if not n.startswith('psi')])
            if fix and len(names) > 1 and not (fix_all_mech and n_err < 2):
                ll.fix_parameters({names[-1]: 0.9})
            if fix_all_mech:
                # every mechanistic parameter fixed: evaluateS1 then returns an empty mechanistic block
                ll.fix_parameters({n: 1.1 for n in names if n.startswith('psi')})
            if posterior:
                n = ll.n_parameters()
                # (positive support: the seeded initial points are drawn from the prior)
                pr = pints.ComposedLogPrior(*[pints.LogNormalLogPrior(0.0, 0.4) for _ in range(n)]) if n > 1 \
                    else pints.LogNormalLogPrior(0.0, 0.4)
                return chi.LogPosterior(ll, pr)
            return ll
        ev = {'call': lambda m, x: m(x), 's1': lambda m, x: m.evaluateS1(x)}
        if not posterior:
            ev['pw'] = lambda m, x: m.compute_pointwise_ll(x)
        else:
            # seeded sampling of initial points (seed 0 is a seed)
            s_init = int(rng.choice([0, 0, 1, 7]))
            if rng.random() < 0.4:
                s_init = np.int64(s_init)       # a seed taken from an integer array is a seed
            ev['init'] = lambda m, x: m.sample_initial_parameters(n_samples=2, seed=s_init)
        k = build().n_parameters()
        return ('LogPosterior' if posterior else 'LogLikelihood'), build, ev, \
            [rng.uniform(0.5, 1.5, k) for _ in range(3)], []

    def hier(self, posterior=False):
        chi, rng = self.chi, self.rng
        n_ids, subs = c02.gen_case(rng)
        D = sum(nd for _, nd, _, _ in subs)
        n_cov = sum(nc for _, _, nc, _ in subs)
        cov = rng.normal(size=(n_ids, n_cov)) * 0.3 if n_cov else None
        data = [(list(np.sort(rng.choice(np.arange(1, 20) * 0.5, 2, replace=False))), list(rng.uniform(0.5, 3, 2)))
                for _ in range(n_ids)]

        def build():
            pm = chi.ComposedPopulationModel([c02.make_sub(chi, *s, n_ids=n_ids) for s in subs])
            lls = [chi.LogLikelihood(toy.ToyModel(1, D - 1, 3), chi.GaussianErrorModel(), o, t) for t, o in data]
            h = chi.HierarchicalLogLikelihood(lls, pm, covariates=None if cov is None else cov.copy())
            if posterior:
                nt = h.n_parameters(exclude_bottom_level=True)
                pr = pints.ComposedLogPrior(*[pints.LogNormalLogPrior(0.0, 0.4) for _ in range(nt)]) if nt > 1 \
                    else pints.LogNormalLogPrior(0.0, 0.4)
                return chi.HierarchicalLogPosterior(h, pr)
            return h
        ev = {'call': lambda m, x: m(x), 's1': lambda m, x: m.evaluateS1(x)}
        if posterior:
            s_init = int(rng.choice([0, 0, 1, 7]))
            if rng.random() < 0.4:
                s_init = np.int64(s_init)       # a seed taken from an integer array is a seed
            ev['init'] = lambda m, x: m.sample_initial_parameters(n_samples=2, seed=s_init)
        k = build().n_parameters()
        return ('HierarchicalLogPosterior' if posterior else 'HierarchicalLogLikelihood'), build, ev, \
            [rng.uniform(0.5, 1.5, k) for _ in range(3)], ([] if cov is None else [cov])

    def predictive(self):
        chi, rng = self.chi, self.rng
        seed = int(rng.integers(1000))
        idx = int(rng.integers(4))
        times = rng.uniform(0, 5, 3)

        def build():
            p = chi.PredictiveModel(toy.ToyModel(1, 2, seed), [c08.em_classes(chi)[idx]()])
            p.fix_parameters({p.get_parameter_names()[0]: 1.1})
            return p
        ev = {'sample': lambda m, x: m.sample(x, times, n_samples=2, seed=9, return_df=False),
              'sample_df': lambda m, x: m.sample(x, times, n_samples=2, seed=9)}
        k = build().n_parameters()
        return 'PredictiveModel', build, ev, [rng.uniform(0.5, 1.5, k) for _ in range(2)], [times]


    def pop_predictive(self):
        """PopulationPredictiveModel over bare / composed / reduced population models, heterogeneous ones
        included, sampled with as many and with other numbers of individuals than the model stores"""
        chi, rng = self.chi, self.rng
        seed = int(rng.integers(1000))
        n_ids = int(rng.integers(2, 4))
        kind = int(rng.integers(5))
        times = rng.uniform(0, 5, 2)

        def build():
            p = chi.PredictiveModel(toy.ToyModel(1, 2, seed), [chi.GaussianErrorModel()])
            if kind == 0:
                pop = chi.HeterogeneousModel(n_dim=3)
            elif kind == 1:
                pop = chi.ComposedPopulationModel([chi.PooledModel(n_dim=1), chi.HeterogeneousModel(n_dim=2)])
            elif kind == 2:
                pop = chi.ComposedPopulationModel([chi.LogNormalModel(n_dim=2), chi.PooledModel(n_dim=1)])
            elif kind == 3:
                pop = chi.LogNormalModel(n_dim=3)
            else:
                pop = chi.ComposedPopulationModel([chi.HeterogeneousModel(n_dim=1), chi.GaussianModel(n_dim=1),
                                                   chi.HeterogeneousModel(n_dim=1)])
            pop.set_n_ids(n_ids)
            if kind in (1, 2) and seed % 2:
                pop = chi.ReducedPopulationModel(pop)
                pop.fix_parameters({pop.get_parameter_names()[0]: 0.8})
            return chi.PopulationPredictiveModel(p, pop)
        ev = {'sample_n_ids': lambda m, x: m.sample(x, times, n_samples=n_ids, seed=9, return_df=False),
              'sample_other': lambda m, x: m.sample(x, times, n_samples=n_ids + 2, seed=9, return_df=False),
              'sample_df': lambda m, x: m.sample(x, times, n_samples=n_ids, seed=5)}
        k = build().n_parameters()
        return 'PopulationPredictiveModel/%d' % kind, build, ev, \
            [np.ascontiguousarray(rng.uniform(0.3, 0.9, k)) for _ in range(2)], [times]

    def posterior_predictive(self):
        """PosteriorPredictiveModel over a posterior with several individuals: one object is asked for different
        individuals (and for the default one) in any order"""
        from props import seedkit as K
        chi, rng = self.chi, self.rng
        seed = int(rng.integers(1000))
        ids = ['id%d' % i for i in range(int(rng.integers(2, 4)))]
        times = rng.uniform(0, 5, 2)
        n_ch, n_dr = int(rng.integers(1, 3)), int(rng.integers(2, 5))
        jit = rng.uniform(0.5, 1.5, size=(3, n_ch, n_dr, len(ids)))

        def build():
            pm = chi.PredictiveModel(toy.ToyModel(1, 2, seed), [chi.GaussianErrorModel()])
            names = pm.get_parameter_names()
            ds = K.make_posterior(names, n_ch, n_dr, ids, lambda p_, c, d, i: float(jit[p_, c, d, i]),
                                  pop_level=[names[-1]])
            return chi.PosteriorPredictiveModel(pm, ds)
        ev = {}
        for who in [None] + ids:
            ev['sample(%s)' % who] = (lambda m, x, who=who: m.sample(times, n_samples=2, individual=who, seed=4)
                                      [['ID', 'Time', 'Value']].to_numpy(dtype=float))
        return 'PosteriorPredictiveModel', build, ev, [np.zeros(1)], [times]

    def pkpd_loglik(self):
        """a likelihood of a dosed compartmental model (reference integrator): sensitivities switched on and
        off between evaluations rebuild the simulator, which must keep the dosing regimen"""
        import refsim
        refsim.install()
        from chi.library import ModelLibrary
        chi, rng = self.chi, self.rng
        direct = bool(rng.integers(2))
        dose = float(rng.uniform(1, 5))
        dur = float(rng.choice([0.01, 0.5]))
        fix = rng.random() < 0.5
        times = list(np.sort(rng.choice(np.arange(1, 12) * 0.5, 3, replace=False)))
        obs = list(rng.uniform(0.2, 2.0, 3))

        def build():
            m = ModelLibrary().one_compartment_pk_model()
            m.set_administration('central', direct=direct)
            m.set_dosing_regimen(dose=dose, start=0.25, duration=dur, period=2.0 if fix else None)
            ll = chi.LogLikelihood(m, chi.GaussianErrorModel(), obs, times)
            if fix:
                ll.fix_parameters({ll.get_parameter_names()[1]: 1.2})
            return ll
        ev = {'call': lambda m, x: m(x), 's1': lambda m, x: m.evaluateS1(x),
              'pw': lambda m, x: m.compute_pointwise_ll(x)}
        k = build().n_parameters()
        return 'LogLikelihood/dosed-PKPDModel', build, ev, [rng.uniform(0.5, 1.5, k) for _ in range(2)], []

    def cov_pop(self):
        """population models with covariates — bare, composed, and inside a ReducedPopulationModel with some of
        their parameters fixed — evaluated directly (value, individual parameters, sensitivities, sampling)"""
        chi, rng = self.chi, self.rng
        shape = int(rng.integers(4))
        nd, nc = int(rng.integers(1, 3)), int(rng.integers(1, 3))
        n_ids = int(rng.integers(1, 4))
        inner = int(rng.integers(3))
        wrap = rng.random() < 0.7
        sel = None
        if rng.random() < 0.6:
            allp = [[p_, d] for p_ in range(2) for d in range(nd)]
            sel = [allp[int(j)] for j in rng.choice(len(allp), size=int(rng.integers(1, len(allp) + 1)), replace=False)]

        def covm():
            b = [chi.GaussianModel(n_dim=nd), chi.GaussianModel(n_dim=nd, centered=False),
                 chi.LogNormalModel(n_dim=nd)][inner]
            m = chi.CovariatePopulationModel(b, chi.LinearCovariateModel(nc))
            if sel is not None:
                m.set_population_parameters(sel)
            return m

        def base():
            if shape == 0:
                return covm()
            if shape == 1:
                return chi.ComposedPopulationModel([chi.PooledModel(n_dim=1), covm()])
            if shape == 2:
                return chi.ComposedPopulationModel([covm(), chi.GaussianModel(n_dim=1)])
            return chi.ComposedPopulationModel([chi.LogNormalModel(n_dim=1), covm(), chi.PooledModel(n_dim=1)])
        b0 = base()
        b0.set_n_ids(n_ids)
        nm0 = b0.get_parameter_names()
        fixed = {nm0[int(j)]: float(rng.uniform(0.5, 1.5))
                 for j in rng.choice(len(nm0), size=int(rng.integers(1, min(3, len(nm0) - 1) + 1)), replace=False)}

        def build():
            b = base()
            b.set_n_ids(n_ids)
            if not wrap:
                return b
            m = chi.ReducedPopulationModel(b)
            m.fix_parameters(dict(fixed))
            return m
        m0 = build()
        D = m0.n_dim()
        psi = rng.uniform(0.5, 1.5, (n_ids, D))
        cov = rng.normal(size=(n_ids, nc)) * 0.3
        ev = {'ll': lambda m, x: m.compute_log_likelihood(x, psi, covariates=cov),
              'indiv': lambda m, x: m.compute_individual_parameters(x, psi, covariates=cov),
              's1': lambda m, x: m.compute_sensitivities(x, psi, reduce=True, covariates=cov),
              's1_full': lambda m, x: m.compute_sensitivities(x, psi, covariates=cov),
              'sample': lambda m, x: m.sample(x, n_samples=n_ids, seed=4, covariates=cov)}
        k = m0.n_parameters()
        return ('ReducedPopulationModel' if wrap else 'PopulationModel') + '/covariates-%d' % shape, build, ev, \
            [rng.uniform(0.5, 1.5, k) for _ in range(3)], [psi, cov]

    def pop_filter(self):
        """population filters (the five elementary ones and compositions of them): value and sensitivities of
        simulated measurements, in any order"""
        chi, rng = self.chi, self.rng
        mk = FilterMaker(chi, rng, int(rng.integers(1, 3)), int(rng.integers(1, 4)))
        n_sim = int(rng.integers(2, 5))
        if 'GaussianMixtureFilter' in mk.classes and n_sim % 2:
            n_sim += 1
        ev = {'ll': lambda f, y: f.compute_log_likelihood(y), 's1': lambda f, y: f.compute_sensitivities(y)}
        return 'PopulationFilter/' + mk.kind, mk, ev, \
            [rng.uniform(0.5, 2.0, (n_sim, mk.n_obs, mk.n_times)) for _ in range(3)], mk.arrays

    def filter_posterior(self):
        chi, rng = self.chi, self.rng
        fp = FilterProblem(chi, rng)
        ev = {'call': lambda m, x: m(x), 's1': lambda m, x: m.evaluateS1(x)}
        s_init = int(rng.choice([0, 1, 7]))
        ev['init'] = lambda m, x: m.sample_initial_parameters(n_samples=2, seed=s_init)
        return fp.kind, fp.build, ev, fp.points(3), fp.arrays


def interleave_case(ctx, kind, build, ev, xs, ext_inputs, rng):
    twin = build()
    obj = build()
    labels = sorted(ev)
    ref = {}
    for lab in labels:
        for j, x in enumerate(xs):
            fresh = build()
            try:
                with np.errstate(all='ignore'):
                    ref[(lab, j)] = snap(ev[lab](fresh, x.copy()))
            except ValueError as e:
                # (e.g. initial points drawn from the prior outside a covariate-shifted scale's support: the
                #  same refusal is expected inside the sequence)
                ref[(lab, j)] = 'raises ' + type(e).__name__
    plan = [(labels[int(rng.integers(len(labels)))], int(rng.integers(len(xs)))) for _ in range(int(rng.integers(4, 12)))]
    inp = {'object': kind, 'plan': plan, 'inputs': xs}
    ctx.case('%s/%d-kinds' % (kind, len(set(p[0] for p in plan))),
             nontrivial='%s/%s' % (kind, plan) if len(set(p[0] for p in plan)) >= 2 else False, sample=inp)
    held = []
    ext_before = [np.array(a, copy=True) for a in ext_inputs]
    # half of the callers keep ONE parameter array and overwrite it in place before every call
    buf = np.empty_like(xs[0]) if (rng.random() < 0.5 and all(np.shape(v) == np.shape(xs[0]) for v in xs)) else None
    inp['caller_reuses_one_parameter_array'] = buf is not None
    for lab, j in plan:
        if buf is not None:
            buf[...] = xs[j]
            x = buf
        else:
            x = xs[j].copy()
        np.random.random(int(rng.integers(1, 4)))      # unrelated use of numpy's global generator in between
        if rng.random() < 0.2:
            # a copy taken in the middle of the sequence evaluates like the untouched twin, and taking and
            # using it leaves the original alone
            try:
                cp = obj.copy() if hasattr(obj, 'copy') else copy.deepcopy(obj)
                jc = int(rng.integers(len(xs)))
                with np.errstate(all='ignore'):
                    oc = ev[lab](cp, xs[jc].copy())
                if not isinstance(ref[(lab, jc)], str):
                    ctx.spec('C19.copy_evaluates_like_original/' + kind.split('/')[0], same(snap(oc), ref[(lab, jc)]),
                             dict(inp, at=[lab, jc]), {'copy': snap(oc), 'untouched_twin': ref[(lab, jc)]})
            except ValueError:
                pass
            except Exception as e:  # noqa
                ctx.spec('C19.copy_evaluates_like_original/' + kind.split('/')[0], False, dict(inp, at=[lab, j]),
                         {'raised': repr(e)[:200]})
        try:
            with np.errstate(all='ignore'):
                out = ev[lab](obj, x)
        except Exception as e:  # noqa
            ctx.spec('C19.repeat_interleave/' + kind.split('/')[0],
                     ref[(lab, j)] == 'raises ' + type(e).__name__, dict(inp, at=[lab, j]),
                     {'raised_in_sequence_but_not_alone': repr(e)[:200]})
            continue
        if isinstance(ref[(lab, j)], str):
            ctx.spec('C19.repeat_interleave/' + kind.split('/')[0], False, dict(inp, at=[lab, j]),
                     {'single_evaluation_of_untouched_twin': ref[(lab, j)], 'in_sequence': 'returned a value'})
            continue
        ok = same(snap(out), ref[(lab, j)])
        ctx.spec('C19.repeat_interleave/' + kind.split('/')[0], ok, dict(inp, at=[lab, j]),
                 {'got': snap(out), 'single_evaluation_of_untouched_twin': ref[(lab, j)]})
        ctx.spec('C19.input_not_mutated/' + kind.split('/')[0], same(x, xs[j]), dict(inp, at=[lab, j]))
        if buf is None or not any(np.may_share_memory(buf, np.asarray(v)) for v in (out if isinstance(out, tuple) else (out,))
                                  if isinstance(v, np.ndarray)):
            # (a result that is a view of the caller's own array changes when the caller overwrites it: not chi's state)
            held.append((lab, j, out, snap(out)))
    for lab, j, out, at_return in held:
        ctx.spec(TAG17 if lab == 'indiv' else 'C19.earlier_result_changed/' + kind.split('/')[0],
                 same(snap(out), at_return), dict(inp, at=[lab, j]),
                 {'returned': at_return, 'reads_now': snap(out)})
    for a, b in zip(ext_inputs, ext_before):
        ctx.spec('C19.input_not_mutated/' + kind.split('/')[0], same(a, b), inp)
    del twin


def shared_ingredients_case(ctx, prob, ev, variants, rng):
    """several objects are built, one after the other, from the SAME user objects (filter, times, models, prior,
    covariates …) and evaluated in between; every evaluation is compared with the same evaluation of an object
    built from ingredients of its own; what the caller can observe of the ingredients (public methods, array
    contents) is compared before / after every construction and after the evaluations; finally the caller
    changes his objects and the built ones are evaluated again"""
    kind = prob.kind.split('/')[0]
    xs = prob.points(2)
    labels = sorted(ev)
    ing = prob.ingredients()
    before = prob.observe(ing)
    prog = []
    inp = {'object': prob.kind, 'program': prog, 'inputs': xs, 'ingredients': sorted(ing)}
    ref = {}

    def reference(v, lab, j):
        if (v, lab, j) not in ref:
            fresh = prob.build_from(prob.ingredients(), v)
            try:
                with np.errstate(all='ignore'):
                    ref[(v, lab, j)] = snap(ev[lab](fresh, xs[j].copy()))
            except Exception as e:  # noqa
                ref[(v, lab, j)] = 'raises ' + type(e).__name__
        return ref[(v, lab, j)]

    def evaluate(i, lab, j, tag):
        v, o = objs[i]
        prog.append(['eval', i, lab, j])
        want = reference(v, lab, j)
        try:
            with np.errstate(all='ignore'):
                got = snap(ev[lab](o, xs[j].copy()))
        except Exception as e:  # noqa
            got = 'raises ' + type(e).__name__
        ok = (got == want) if isinstance(got, str) or isinstance(want, str) else same(got, want)
        ctx.spec(tag, bool(ok), dict(inp, at=len(prog) - 1),
                 {'object_number': i, 'got': got, 'object_built_from_ingredients_of_its_own': want})
        return not isinstance(want, str) and np.all(np.isfinite(np.asarray(want[0] if isinstance(want, tuple) else want, float)))

    def unchanged(stage):
        bad = obs_equal(before, prob.observe(ing))
        ctx.spec('C19.ingredients_not_modified/' + kind, not bad, dict(inp, after=stage), {'observations_that_changed': bad})

    objs, informative = [], 0
    n_obj = int(rng.integers(2, 4))
    for k in range(n_obj):
        v = variants[int(rng.integers(len(variants)))]
        prog.append(['build', v])
        objs.append((v, prob.build_from(ing, v)))
        unchanged('construction number %d' % (k + 1))
        for _ in range(int(rng.integers(0, 3))):
            informative += evaluate(int(rng.integers(len(objs))), labels[int(rng.integers(len(labels)))],
                                    int(rng.integers(len(xs))), 'C19.built_from_same_ingredients/' + kind)
    for i in range(n_obj):
        for lab in labels:
            informative += evaluate(i, lab, int(rng.integers(len(xs))), 'C19.built_from_same_ingredients/' + kind)
    unchanged('evaluations of the built objects')
    ctx.case('shared-ingredients/%s' % prob.kind, nontrivial='shared/%s/%s' % (prob.kind, [p_[0][0] + str(p_[1]) for p_ in prog])
             if informative >= 2 else False, sample=inp)
    if prob.mutate is None:
        return
    prob.mutate(ing, rng)
    prog.append(['the caller changes his own objects'])
    for i in range(n_obj):
        evaluate(i, labels[int(rng.integers(len(labels)))], int(rng.integers(len(xs))),
                 'C19.unaffected_by_later_changes_to_user_models/' + kind)


class RecToy(toy.ToyModel):
    """a ToyModel (the user's own class) that logs the full parameter vector of every simulation"""
    log = []

    def simulate(self, parameters, times):
        out = super().simulate(parameters, times)
        RecToy.log.append([float(v) for v in np.asarray(parameters, float)])
        return out


class ToyDosed(toy.ToyModel):
    """a ToyModel that supports dosing: the amount of every dose event that started before t is added"""
    _regimen = None

    def supports_dosing(self):
        return True

    def dosing_regimen(self):
        return self._regimen

    def set_dosing_regimen(self, dose, start=0, duration=0.01, period=None, num=None):
        self._regimen = dose

    def simulate(self, parameters, times):
        res = super().simulate(parameters, times)
        t = np.asarray(times, float)
        add = np.zeros(len(t))
        if self._regimen is not None and hasattr(self._regimen, 'events'):
            for e in self._regimen.events():
                add = add + np.where(t >= e.start(), e.level() * e.duration(), 0.0)
        if isinstance(res, tuple):
            return res[0] + add, res[1]
        return res + add


def names_of(o):
    return list(o.get_parameter_names()) if hasattr(o, 'get_parameter_names') else list(o.parameters())


def gen_request(rng, full, fixed, groups=None):
    """a fix_parameters request (list of [name, value-or-None]) on an object whose names `fixed` are fixed now;
    at least one name stays free; requests that exchange fixed for free names of one sub-model (same number of
    free parameters before and after, another set) are frequent"""
    groups = [g for g in (groups or [full]) if len(g) >= 2]
    for _ in range(6):
        swappable = [g for g in groups if any(n in fixed for n in g) and any(n not in fixed for n in g)]
        if swappable and rng.random() < 0.55:
            g = swappable[int(rng.integers(len(swappable)))]
            fx, free = [n for n in g if n in fixed], [n for n in g if n not in fixed]
            k = int(rng.integers(1, min(len(fx), len(free), 2) + 1))
            d = [[fx[int(j)], None] for j in rng.choice(len(fx), size=k, replace=False)] + \
                [[free[int(j)], float(rng.uniform(0.5, 1.5))] for j in rng.choice(len(free), size=k, replace=False)]
            d = [d[int(j)] for j in rng.permutation(len(d))]
        else:
            k = int(rng.integers(1, min(3, len(full)) + 1))
            d = [[full[int(j)], None if rng.random() < 0.3 else float(rng.uniform(0.5, 1.5))]
                 for j in rng.choice(len(full), size=k, replace=False)]
        after = (set(fixed) | set(n for n, v in d if v is not None)) - set(n for n, v in d if v is None)
        if len(after) < len(full):
            return d, after
    return None, set(fixed)


class ReconfZoo(object):
    """objects that can be re-configured (fix_parameters) between evaluations: (kind, build, evaluations,
    recorder-or-None, names of the mechanistic parameters)"""

    def __init__(self, chi, rng):
        self.chi = chi
        self.rng = rng

    def loglik(self):
        chi, rng = self.chi, self.rng
        n_out, n_par = int(rng.integers(1, 3)), int(rng.integers(2, 5))
        seed = int(rng.integers(1000))
        ems_idx = [int(rng.integers(4)) for _ in range(n_out)]
        times = [np.sort(rng.choice(np.arange(1, 20) * 0.25, int(rng.integers(1, 4)), replace=False)) for _ in range(n_out)]
        obs = [rng.uniform(0.5, 3.0, len(t)) for t in times]

        def build():
            return chi.LogLikelihood(RecToy(n_out, n_par, seed), [c08.em_classes(chi)[i]() for i in ems_idx],
                                     [list(o) for o in obs], [list(t) for t in times])
        ev = {'call': lambda m, x: m(x), 's1': lambda m, x: m.evaluateS1(x), 'pw': lambda m, x: m.compute_pointwise_ll(x)}
        return 'LogLikelihood', build, ev, RecToy, ['psi%d' % k for k in range(n_par)]

    def predictive(self):
        chi, rng = self.chi, self.rng
        seed, idx = int(rng.integers(1000)), int(rng.integers(4))
        times = rng.uniform(0, 5, 3)

        def build():
            return chi.PredictiveModel(toy.ToyModel(1, 3, seed), [c08.em_classes(chi)[idx]()])
        ev = {'sample': lambda m, x: m.sample(x, times, n_samples=2, seed=9, return_df=False),
              'sample_df': lambda m, x: m.sample(x, times, n_samples=2, seed=9)}
        return 'PredictiveModel', build, ev, None, None

    def reduced_error(self):
        chi, rng = self.chi, self.rng
        n = int(rng.integers(1, 4))
        yb, ob, S = rng.uniform(0.5, 2, n), rng.uniform(0.5, 2, n), rng.normal(size=(n, 2))

        def build():
            return chi.ReducedErrorModel(chi.ConstantAndMultiplicativeGaussianErrorModel())
        ev = {'ll': lambda m, x: m.compute_log_likelihood(x, yb, ob),
              'pw': lambda m, x: m.compute_pointwise_ll(x, yb, ob),
              's1': lambda m, x: m.compute_sensitivities(x, yb, S, ob),
              'sample': lambda m, x: m.sample(x, yb, n_samples=2, seed=4)}
        return 'ReducedErrorModel', build, ev, None, None

    def reduced_pop(self):
        chi, rng = self.chi, self.rng
        kind = int(rng.integers(3))
        n_ids = int(rng.integers(1, 4))

        def build():
            b = [chi.GaussianModel(n_dim=2, centered=False), chi.LogNormalModel(n_dim=2),
                 chi.ComposedPopulationModel([chi.PooledModel(n_dim=1), chi.GaussianModel(n_dim=1)])][kind]
            b.set_n_ids(n_ids)
            return chi.ReducedPopulationModel(b)
        psi = rng.uniform(0.5, 1.5, (n_ids, build().n_dim()))
        ev = {'ll': lambda m, x: m.compute_log_likelihood(x, psi),
              'indiv': lambda m, x: m.compute_individual_parameters(x, psi),
              's1': lambda m, x: m.compute_sensitivities(x, psi, reduce=True),
              'sample': lambda m, x: m.sample(x, n_samples=2, seed=4)}
        return 'ReducedPopulationModel', build, ev, None, None

    def pop_predictive(self):
        chi, rng = self.chi, self.rng
        seed, n_ids = int(rng.integers(1000)), int(rng.integers(2, 4))
        times = rng.uniform(0, 5, 2)

        def build():
            pop = chi.ComposedPopulationModel([chi.LogNormalModel(n_dim=2), chi.PooledModel(n_dim=1)])
            pop.set_n_ids(n_ids)
            return chi.PopulationPredictiveModel(
                chi.PredictiveModel(toy.ToyModel(1, 2, seed), [chi.GaussianErrorModel()]), pop)
        ev = {'sample': lambda m, x: m.sample(x, times, n_samples=n_ids, seed=9, return_df=False),
              'sample_df': lambda m, x: m.sample(x, times, n_samples=2, seed=5)}
        return 'PopulationPredictiveModel', build, ev, None, None

    def pkpd_loglik(self):
        """dosed compartmental model (reference integrator): switching the sensitivities on for another set of
        parameters rebuilds the simulator"""
        import refsim
        refsim.install()
        from chi.library import ModelLibrary
        chi, rng = self.chi, self.rng
        dose = float(rng.uniform(1, 5))
        times = list(np.sort(rng.choice(np.arange(1, 12) * 0.5, 2, replace=False)))
        obs = list(rng.uniform(0.2, 2.0, 2))

        def build():
            m = ModelLibrary().one_compartment_pk_model()
            m.set_administration('central', direct=True)
            m.set_dosing_regimen(dose=dose, start=0.25, duration=0.5)
            return chi.LogLikelihood(m, chi.GaussianErrorModel(), obs, times)
        ev = {'call': lambda m, x: m(x), 's1': lambda m, x: m.evaluateS1(x)}
        return 'LogLikelihood/dosed-PKPDModel', build, ev, None, names_of(build())[:-1]


def reconfigure_case(ctx, kind, build, ev, rec, mech_names, rng, n_steps=None):
    """evaluations interleaved with fix_parameters calls on ONE object; every evaluation is compared with the
    same evaluation of a twin that went through the fix_parameters calls only (never evaluated before)"""
    tag = 'C19.reconfigure/' + kind.split('/')[0]
    obj = build()
    full = names_of(obj)
    labels = sorted(ev)
    vals = [{n: float(rng.uniform(0.5, 1.5)) for n in full} for _ in range(3)]
    n_steps = int(rng.integers(8, 17)) if n_steps is None else n_steps
    fixed, fixes, prog, seen, lean_prog, held = set(), [], [], [], [], []
    inp = {'object': kind, 'names': full, 'program': prog, 'values_by_name': vals}
    groups = None if mech_names is None else [[n for n in full if n in mech_names], [n for n in full if n not in mech_names]]
    for step in range(n_steps):
        if (step == 0 and rng.random() < 0.8) or (step > 0 and rng.random() < 0.4):
            d, after = gen_request(rng, full, fixed, groups)
            if d is None:
                continue
            arg = {n: v for n, v in d}
            arg_before = dict(arg)
            obj.fix_parameters(arg)
            ctx.spec('C19.input_not_mutated/' + kind.split('/')[0], arg == arg_before, dict(inp, at=len(prog)))
            fixed = after
            fixes.append(d)
            prog.append(['fix', d])
            lean_prog.append(['fix', d])
            continue
        lab, j = labels[int(rng.integers(len(labels)))], int(rng.integers(len(vals)))
        if 's1' in labels and rng.random() < 0.4:
            lab = 's1'      # (the evaluation kind that leaves a switch behind)
        prog.append(['eval', lab, j])
        at = dict(inp, at=len(prog) - 1)
        now = names_of(obj)
        twin = build()
        for d in fixes:
            twin.fix_parameters({n: v for n, v in d})
        if now != names_of(twin) or now != [n for n in full if n not in fixed]:
            ctx.spec(tag, False, at, {'names': now, 'names_of_twin': names_of(twin), 'fixed': sorted(fixed)})
            return
        x = np.array([vals[j][n] for n in now])
        res = []
        for o in (obj, twin):
            if rec is not None:
                rec.log = []
            try:
                with np.errstate(all='ignore'):
                    out = ev[lab](o, x.copy())
                res.append((out, snap(out)))
            except Exception as e:  # noqa
                res.append((None, 'raises ' + type(e).__name__))
            if o is obj and rec is not None and mech_names is not None:
                seen.append(rec.log[-1] if rec.log else None)
                lean_prog.append(['eval', lab, [vals[j][n] for n in now if n in mech_names]])
        (out, got), (_, want) = res
        if isinstance(got, str) or isinstance(want, str):
            ctx.spec(tag, isinstance(got, str) and got == want, at, {'evaluated_before': got, 'never_evaluated_twin': want})
        else:
            ctx.spec(tag, near(got, want), at, {'evaluated_before': got, 'never_evaluated_twin': want})
            held.append((lab, j, out, got))
    n_ev = len([p for p in prog if p[0] == 'eval'])
    shape = ''.join('F' if p[0] == 'fix' else {'call': 'c', 's1': 's', 'pw': 'p'}.get(p[1], 'e') for p in prog)
    ctx.case('reconfigure/%s' % kind, nontrivial='%s/%s' % (kind, shape) if (fixes and n_ev >= 2) else False, sample=inp)
    for lab, j, out, at_return in held:
        ctx.spec(TAG17 if lab == 'indiv' else 'C19.earlier_result_changed/' + kind.split('/')[0],
                 same(snap(out), at_return), dict(inp, at=[lab, j]), {'returned': at_return, 'reads_now': snap(out)})
    if rec is not None and mech_names is not None and seen:
        mo = ctx.model('C19.reconf', mech_names, lean_prog)
        ctx.agree('C19.reconf/vector_seen_by_mechanistic_model', seen, [full_v for full_v, _ in mo[0]], inp)
        ctx.agree('C19.reconf/free_mechanistic_names', [n for n in names_of(obj) if n in mech_names], mo[1], inp)


def reduced_mech_reconfigure(ctx, chi, rng):
    """a user's ReducedMechanisticModel: fix / release, enable_sensitivities and simulate in any order; every
    simulation is compared with the closed form (values and derivatives with respect to the parameters that
    are free NOW) and with the Lean model of the switch"""
    n_out, n_par, seed = int(rng.integers(1, 3)), int(rng.integers(2, 5)), int(rng.integers(1000))
    m = chi.ReducedMechanisticModel(RecToy(n_out, n_par, seed))
    ref = toy.ToyModel(n_out, n_par, seed)
    full = ref.parameters()
    times = list(rng.uniform(0.2, 4, int(rng.integers(1, 4))))
    net, sens_on, prog, seen = {}, False, [], []
    inp = {'object': 'ReducedMechanisticModel(ToyModel(%d, %d, %d))' % (n_out, n_par, seed), 'times': times, 'program': prog}
    tag = 'C19.reconfigure/ReducedMechanisticModel'
    n_sim = 0
    for step in range(int(rng.integers(6, 15))):
        r = rng.random()
        if r < 0.3:
            d, _ = gen_request(rng, full + ['not-a-parameter'], set(net))
            if d is None:
                continue
            m.fix_parameters({n: v for n, v in d})
            for n, v in d:
                if n in full:
                    net.pop(n, None)
                    if v is not None:
                        net[n] = v
            prog.append(['fix', d])
        elif r < 0.5:
            sens_on = bool(rng.random() < 0.75)
            m.enable_sensitivities(sens_on)
            prog.append(['sens', sens_on])
        else:
            free_names = [n for n in full if n not in net]
            free = [float(v) for v in rng.uniform(0.5, 1.5, len(free_names))]
            prog.append(['sim', free])
            at = dict(inp, at=len(prog) - 1)
            if m.parameters() != free_names or m.has_sensitivities() != sens_on:
                ctx.spec(tag, False, at, {'names': m.parameters(), 'expected': free_names,
                                          'has_sensitivities': m.has_sensitivities(), 'switched': sens_on})
                return
            RecToy.log = []
            x = np.array(free)
            try:
                out = m.simulate(x, times)
            except Exception as e:  # noqa
                ctx.spec(tag, False, at, {'raised': repr(e)[:200]})
                return
            n_sim += 1
            it = iter(free)
            fv = [net[n] if n in net else next(it) for n in full]
            # the parameter every returned sensitivity column belongs to, read off the returned array itself
            cols = None
            if isinstance(out, tuple) and len(out) == 2 and np.ndim(out[1]) == 3 and \
                    np.shape(out[1])[:2] == (len(times), n_out):
                cols = []
                for c in range(np.shape(out[1])[2]):
                    cand = [n for k, n in enumerate(full) if np.allclose(
                        out[1][:, :, c], [[ref.dvalue(fv, o, t, k) for o in range(n_out)] for t in times],
                        rtol=1e-9, atol=1e-12)]
                    cols.append(cand[0] if len(cand) == 1 else '?')
            seen.append([RecToy.log[-1] if RecToy.log else None, cols])
            val = np.array([[ref.value(fv, o, t) for t in times] for o in range(n_out)])
            ok = isinstance(out, tuple) == sens_on
            detail = {'returned': snap(out), 'closed_form_values': val, 'free': free_names}
            if ok and sens_on:
                ds = np.array([[[ref.dvalue(fv, o, t, full.index(n)) for n in free_names] for o in range(n_out)]
                               for t in times]).reshape(len(times), n_out, len(free_names))
                detail['closed_form_sensitivities'] = ds
                ok = np.shape(out[0]) == val.shape and np.allclose(out[0], val, rtol=1e-10, atol=1e-12) and \
                    np.shape(out[1]) == ds.shape and np.allclose(out[1], ds, rtol=1e-10, atol=1e-12)
            elif ok:
                ok = np.shape(out) == val.shape and np.allclose(out, val, rtol=1e-10, atol=1e-12)
            ctx.spec(tag, bool(ok), at, detail)
            ctx.spec('C19.input_not_mutated/ReducedMechanisticModel', same(x, np.array(free)), at)
    ctx.case('reconfigure/ReducedMechanisticModel', nontrivial='rmm/%s' % ''.join(p[0][1] for p in prog)
             if n_sim >= 2 and net else False, sample=inp)
    if seen:
        mo = ctx.model('C19.reconf', full, prog)
        ctx.agree('C19.reconf/vector_seen_by_mechanistic_model', [v for v, _ in seen], [v for v, _ in mo[0]], inp)
        ctx.agree('C19.reconf/parameters_of_returned_sensitivity_columns', [c for _, c in seen], [c for _, c in mo[0]], inp)
        ctx.agree('C19.reconf/free_mechanistic_names', m.parameters(), mo[1], inp)


def frame_same(a, b):
    return list(a.columns) == list(b.columns) and a.index.equals(b.index) and \
        [str(t) for t in a.dtypes] == [str(t) for t in b.dtypes] and bool(a.equals(b))


def controller_inputs(ctx, chi, rng):
    """whatever is handed to a ProblemModellingController — the data frame (with / without dose and duration
    columns, default and other column names, dose / duration keys given or None), the name maps, the
    dictionary of fix_parameters — reads the same afterwards, after every later call and evaluation; and a
    second controller fed the SAME frame afterwards evaluates like one fed a pristine copy"""
    import pandas as pd
    model_kind = ['dosed-toy', 'dosed-toy', 'undosed-toy', 'pk'][int(rng.integers(4))]
    seed = int(rng.integers(1000))
    if model_kind == 'pk':
        import refsim
        refsim.install()
        from chi.library import ModelLibrary

        def mech():
            m = ModelLibrary().one_compartment_pk_model()
            m.set_administration('central', direct=True)
            return m
        output = 'central.drug_concentration'
    else:
        def mech():
            return (ToyDosed if model_kind == 'dosed-toy' else toy.ToyModel)(1, 2, seed)
        output = 'out0'
    custom = rng.random() < 0.4
    K = {'id_key': 'Subject' if custom else 'ID', 'time_key': 't' if custom else 'Time',
         'obs_key': 'What' if custom else 'Observable', 'value_key': 'Val' if custom else 'Value'}
    dose_col = ('Amount' if custom else 'Dose') if rng.random() < 0.8 else None
    dur_col = ('Length' if custom else 'Duration') if (dose_col and rng.random() < 0.5) else None
    dose_key = dose_col if (dose_col and rng.random() < 0.9) else None
    dur_key = dur_col if (dose_key and dur_col and rng.random() < 0.7) else None
    obs_name = output if rng.random() < 0.3 else 'y'
    ids = [1, 2, 3][:int(rng.integers(1, 4))] if rng.random() < 0.5 else ['a', 'b', 'c'][:int(rng.integers(1, 4))]
    rows = []
    for i in ids:
        for t in np.sort(rng.choice(np.arange(1, 12) * 0.5, int(rng.integers(1, 4)), replace=False)):
            rows.append({K['id_key']: i, K['time_key']: float(t), K['obs_key']: obs_name,
                         K['value_key']: float(rng.uniform(0.2, 2))})
        if dose_col and rng.random() < 0.8:
            for t in rng.choice([0.0, 1.0, 2.0], size=int(rng.integers(1, 3)), replace=False):
                r = {K['id_key']: i, K['time_key']: float(t), K['obs_key']: np.nan, K['value_key']: np.nan,
                     dose_col: float(rng.uniform(1, 5))}
                if dur_col:
                    r[dur_col] = float(rng.choice([0.01, 0.5])) if rng.random() < 0.7 else np.nan
                rows.append(r)
    pop_stage = model_kind != 'pk' and rng.random() < 0.5
    cov_obs = None
    if pop_stage and rng.random() < 0.6:
        cov_obs = 'Age' if rng.random() < 0.5 else 'age in years'
        for i in ids:
            rows.append({K['id_key']: i, K['time_key']: np.nan if rng.random() < 0.5 else 0.0, K['obs_key']: cov_obs,
                         K['value_key']: float(rng.uniform(20, 60))})
    if rng.random() < 0.5:
        rows = [rows[int(j)] for j in rng.permutation(len(rows))]
    cols = list(K.values()) + ([dose_col] if dose_col else []) + ([dur_col] if dur_col else [])
    if rng.random() < 0.3:
        cols.append('Comment')
        for r in rows:
            r['Comment'] = 'n/a'
    if rng.random() < 0.3:
        cols = [cols[int(j)] for j in rng.permutation(len(cols))]
    df = pd.DataFrame(rows, columns=cols)
    if rng.random() < 0.3:
        df.index = rng.integers(0, 4, len(df))      # repeated row labels
    pristine = df.copy(deep=True)
    ood = {output: obs_name}
    ood_before = dict(ood)
    kw = dict(K) if custom or rng.random() < 0.3 else {}
    if custom or dose_key != 'Dose' or rng.random() < 0.3:
        kw['dose_key'] = dose_key
    if custom or dur_key != 'Duration' or rng.random() < 0.3:
        kw['dose_duration_key'] = dur_key
    inp = {'object': 'ProblemModellingController(%s)' % model_kind, 'frame': df.to_dict('list'), 'index': list(df.index),
           'set_data': dict(kw, output_observable_dict=ood_before), 'population_stage': pop_stage}
    ctx.case('controller-inputs/%s' % model_kind,
             nontrivial='ctrl-in/%s/%s/%s/%s' % (model_kind, dose_col, dur_col, sorted(kw.items(), key=str)), sample=inp)
    tag = 'C19.input_not_mutated/ProblemModellingController'

    def check(stage):
        ctx.spec(tag, frame_same(df, pristine) and ood == ood_before, dict(inp, after=stage),
                 {'columns_now': list(df.columns), 'columns_before': list(pristine.columns)})

    def values(c, x):
        posts = c.get_log_posterior()
        posts = posts if isinstance(posts, list) else [posts]
        if model_kind == 'pk':
            posts = posts[:1]
        with np.errstate(all='ignore'):
            return [float(p(x)) for p in posts]

    def prior(c):
        n = c.get_n_parameters()
        c.set_log_prior(pints.ComposedLogPrior(*[pints.UniformLogPrior(0, 100) for _ in range(n)]))
        return n
    c = chi.ProblemModellingController(mech(), [chi.GaussianErrorModel()])
    c.set_data(df, output_observable_dict=ood, **kw)
    check('set_data')
    n = prior(c)
    x = rng.uniform(0.5, 1.5, n)
    v = values(c, x)
    c.get_dosing_regimens()
    c.get_predictive_model()
    check('get_log_posterior, evaluation, get_dosing_regimens, get_predictive_model')
    fx = {c.get_parameter_names()[0]: 1.2}
    fx_before = dict(fx)
    c.fix_parameters(fx)
    prior(c)
    values(c, x[1:])
    check('fix_parameters, evaluation')
    ctx.spec(tag, fx == fx_before, dict(inp, after='fix_parameters (its dictionary)'))
    # the frame is used again: like a pristine copy
    c2 = chi.ProblemModellingController(mech(), [chi.GaussianErrorModel()])
    c3 = chi.ProblemModellingController(mech(), [chi.GaussianErrorModel()])
    c2.set_data(df, output_observable_dict=ood, **kw)
    c3.set_data(pristine.copy(deep=True), output_observable_dict=dict(ood_before), **kw)
    prior(c2)
    prior(c3)
    v2, v3 = values(c2, x), values(c3, x)
    ctx.spec(tag, same(np.array(v2), np.array(v3)) and same(np.array(v), np.array(v3)), dict(inp, after='frame used again'),
             {'first_use': v, 'second_use': v2, 'pristine_copy': v3})
    check('second set_data')
    if not pop_stage:
        return
    # … and by a controller with a population model (covariates are read from the same frame)

    def pop():
        mid = chi.GaussianModel() if cov_obs is None else \
            chi.CovariatePopulationModel(chi.GaussianModel(), chi.LinearCovariateModel(1, cov_names=['Age']))
        return chi.ComposedPopulationModel([chi.PooledModel(), mid, chi.LogNormalModel()])
    cd = None if cov_obs is None or (cov_obs == 'Age' and rng.random() < 0.5) else {'Age': cov_obs}
    cd_before = None if cd is None else dict(cd)
    vals = []
    for frame in (df, pristine.copy(deep=True)):
        cp = chi.ProblemModellingController(mech(), [chi.GaussianErrorModel()])
        cp.set_population_model(pop())
        cp.set_data(frame, output_observable_dict=ood, covariate_dict=cd, **kw)
        prior(cp)
        post = cp.get_log_posterior()
        xp = np.linspace(0.6, 1.4, post.n_parameters())
        with np.errstate(all='ignore'):
            vals.append((float(post(xp)), snap(post.evaluateS1(xp))))
        if frame is df:
            check('set_population_model, set_data, evaluation')
    ctx.spec(tag, cd == cd_before and same(vals[0], vals[1]), dict(inp, after='population model: frame used again',
                                                                  covariate_dict=cd_before),
             {'same_frame': vals[0], 'pristine_copy': vals[1]})


def model_correspondence(ctx, chi, rng):
    """the vector a wrapped (recording) object sees in every evaluation of a sequence vs Purity.evalSeq"""
    inner = toy.ToyModel(1, int(rng.integers(2, 5)), 3)
    m = chi.ReducedMechanisticModel(inner)
    names = m.parameters()
    ops = c08.gen_history(rng, names, c08.Adapter(), int(rng.integers(1, 4)))
    for d in ops:
        m.fix_parameters(dict(d))
    k = m.n_parameters()
    if k == 0:
        return
    frees = [list(rng.uniform(0.5, 1.5, k)) for _ in range(int(rng.integers(1, 5)))]
    seen = []
    for f in frees:
        m.simulate(np.array(f), [1.0, 2.0])
        seen.append(list(inner.last_parameters))
    mo = ctx.model('C19.seq', names, [[[n, v] for n, v in d] for d in ops], frees)
    inp = {'names': names, 'history': ops, 'frees': frees}
    ctx.case('model-seq/len%d' % len(frees), nontrivial='seq/%d/%d' % (len(ops), len(frees)), sample=inp)
    ctx.agree('C19.full_vectors_seen', seen, mo[0], inp)
    ctx.agree('C19.names_after_sequence', m.parameters(), [n for n, b in zip(names, mo[1]) if not b], inp)


def world_correspondence(ctx, chi, rng):
    """a store of objects: reduced error models the caller keeps (ingredients) and likelihoods built from
    them at various moments; fixes, releases and evaluations on all of them in random order. At every
    evaluation the vector the wrapped error model receives is compared with the Lean store model in which a
    derived object owns a deep copy of its ingredient's state (Ownership.deepCopy / C19_frame)."""
    base = c08.em_classes(chi)[int(rng.integers(4))]
    Rec = type('RecW' + base.__name__, (c08.RecEM, base), {})
    names = base().get_parameter_names()
    n = int(rng.integers(1, 4))
    times = list(np.sort(rng.choice(np.arange(1, 12) * 0.5, n, replace=False)))
    obs = list(rng.uniform(0.5, 2.0, n))
    yb = rng.uniform(0.5, 2.0, n)
    cells, prog, seen = {}, [], []

    def some_req():
        d = []
        for j in rng.choice(len(names), size=int(rng.integers(1, len(names) + 1)), replace=False):
            d.append([names[j], None if rng.random() < 0.3 else float(rng.uniform(0.3, 1.5))])
        return d

    def new(k):
        cells[k] = ('em', chi.ReducedErrorModel(Rec()))
        prog.append(['new', k])

    def derive(src, dst):
        cells[dst] = ('ll', chi.LogLikelihood(toy.ToyModel(1, 1, 3), cells[src][1], obs, times))
        prog.append(['derive', src, dst])

    def fix(k):
        d = some_req()
        cells[k][1].fix_parameters({a: b for a, b in d})
        prog.append(['fix', k, d])

    def free_names(k):
        kind, o = cells[k]
        nm = o.get_parameter_names()
        return nm if kind == 'em' else nm[1:]

    def ev(k):
        kind, o = cells[k]
        free = list(rng.uniform(0.3, 1.5, len(free_names(k))))
        Rec.last = None
        with np.errstate(all='ignore'):
            if kind == 'em':
                o.compute_log_likelihood(np.array(free), yb, np.array(obs))
            else:
                o(np.array([1.1] + free))
        seen.append(None if Rec.last is None else list(Rec.last))
        prog.append(['eval', k, free])

    new(0)
    if rng.random() < 0.6:
        fix(0)
    derive(0, 1)
    derive(0, 2)
    nxt = 3
    for _ in range(int(rng.integers(5, 14))):
        r = rng.random()
        ks = sorted(cells)
        if r < 0.4:
            fix(int(rng.choice(ks)))
        elif r < 0.85:
            ev(int(rng.choice(ks)))
        elif r < 0.93:
            src = int(rng.choice([k for k in ks if cells[k][0] == 'em']))
            derive(src, nxt)
            nxt += 1
        else:
            new(nxt)
            nxt += 1
    for k in sorted(cells):
        ev(k)
    inp = {'error_model': base.__name__, 'program': prog}
    ctx.case('object-store/%d-objects' % len(cells), nontrivial='store/%s/%d' % (base.__name__, len(prog)), sample=inp)
    ks = sorted(cells)
    mo = ctx.model('C19.world', names, prog, ks)
    ctx.agree('C19.store/vector_seen_by_wrapped_model', seen, mo[0], inp)
    masks = [[nm not in free_names(k) for nm in names] for k in ks]
    ctx.agree('C19.store/final_masks', masks, mo[1], inp)


def columns_held(chi, cls, data, f, p0, p1):
    """the measurement columns (numbers of the columns of `data`) an elementary filter `f` holds at every
    position, read off its public log-likelihood: replacing the simulated values at ONE position changes the
    value by an amount that depends on the measurements held at that position only"""
    n_t = data.shape[2]
    base = np.repeat(p0[:, :, None], n_t, axis=2)
    with np.errstate(all='ignore'):
        l0 = float(f.compute_log_likelihood(base.copy()))
        want = []
        for c in range(n_t):
            g = getattr(chi, cls)(data[:, :, [c]].copy())
            want.append(float(g.compute_log_likelihood(p1[:, :, None].copy())) - float(g.compute_log_likelihood(p0[:, :, None].copy())))
        held = []
        for j in range(n_t):
            q = base.copy()
            q[:, :, j] = p1
            d = float(f.compute_log_likelihood(q)) - l0
            cand = [c for c in range(n_t) if abs(d - want[c]) <= 1e-6 * (1 + abs(want[c]))]
            held.append(cand[0] if len(cand) == 1 else '?')
    return held


def construct_correspondence(ctx, chi, rng):
    """one filter of the caller; posteriors built from it at various moments, the caller re-ordering his filter
    in between (sort_times): the measurement columns held afterwards by the caller's filter and by the filter
    of every posterior, against the Lean store model (Ownership.construct: copy, then order the copy)"""
    cls = FILTER_CLASSES[int(rng.integers(5))]
    n_t, n_ids, n_s = int(rng.integers(2, 5)), int(rng.integers(3, 6)), 4
    data = rng.uniform(0.5, 2.0, (n_ids, 1, n_t)) * np.linspace(1.0, 2.0, n_t)[None, None, :]
    times = np.sort(rng.choice(np.arange(1, 16) * 0.5, n_t, replace=False))[rng.permutation(n_t)]
    order = [int(v) for v in np.argsort(times)]
    p0, p1 = rng.uniform(0.8, 1.2, (n_s, 1)), rng.uniform(1.5, 2.5, (n_s, 1))
    user = getattr(chi, cls)(data.copy())
    prog, cells, nxt = [], {0: user}, 1
    for _ in range(int(rng.integers(2, 6))):
        if rng.random() < 0.7:
            pr = pints.ComposedLogPrior(*[pints.LogNormalLogPrior(0.0, 0.4) for _ in range(4)])
            post = chi.PopulationFilterLogPosterior(user, times.copy(), toy.ToyModel(1, 2, 3), chi.GaussianModel(n_dim=2),
                                                    pr, sigma=[0.2], n_samples=n_s)
            cells[nxt] = post
            prog.append(['build', 0, nxt])
            nxt += 1
        else:
            o = [int(v) for v in rng.permutation(n_t)]
            user.sort_times(np.array(o))
            prog.append(['sort', 0, o])
    ks = sorted(cells)
    seen = [columns_held(chi, cls, data, cells[k] if k == 0 else cells[k].get_log_likelihood(), p0, p1) for k in ks]
    inp = {'filter': cls, 'times': times, 'argsort(times)': order, 'program': prog}
    n_build = len([p_ for p_ in prog if p_[0] == 'build'])
    ctx.case('filter-store/%d-objects' % len(cells),
             nontrivial='fstore/%s/%s' % (order, [p_[0][0] for p_ in prog]) if n_build >= 2 and order != list(range(n_t)) else False,
             sample=inp)
    mo = ctx.model('C19.construct', n_t, order, prog, ks)
    ctx.agree('C19.construct/columns_held_by_caller_filter_and_built_posteriors', seen, mo[0], inp)


def siblings_and_later_mutation(ctx, chi, rng):
    mech = toy.ToyModel(2, 2, int(rng.integers(100)))
    ems = [chi.GaussianErrorModel(), chi.LogNormalErrorModel()]
    times = [[0.5, 1.0, 2.0], [1.0, 3.0]]
    obs = [[1.0, 1.5, 2.0], [2.0, 1.0]]
    user_state = lambda: (mech.parameters(), mech.outputs(), [e.get_parameter_names() for e in ems],  # noqa
                          mech.has_sensitivities())
    before = user_state()
    ll1 = chi.LogLikelihood(mech, ems, obs, times)
    ll2 = chi.LogLikelihood(mech, ems, obs, times)
    pm = chi.PredictiveModel(mech, ems)
    x = rng.uniform(0.5, 1.5, ll1.n_parameters())
    y = rng.uniform(0.5, 1.5, ll1.n_parameters())
    inp = {'object': 'siblings of one ToyModel + error models', 'x': x, 'y': y}
    ctx.case('siblings', nontrivial='siblings/%s' % np.round(x, 3).tolist(), sample=inp)
    a0 = ll1(x)
    s0 = pm.sample(x, [1.0, 2.0], seed=3, return_df=False)
    ll2.fix_parameters({ll2.get_parameter_names()[0]: 2.0})
    ll2.evaluateS1(y[1:])
    pm.sample(y, [0.5], seed=4)
    ctx.spec('C19.sibling_independent', same(ll1(x), a0), inp)
    ll1.evaluateS1(x)
    ctx.spec('C19.user_models_not_modified', user_state() == before, inp,
             {'before': before, 'after': user_state()})
    names_before = ll1.get_parameter_names()
    # later changes to the user's models
    mech.set_parameter_names({'psi0': 'renamed'})
    mech.set_outputs(['out1'])
    ems[0].set_parameter_names(['other'])
    mech._c[:] = 7.0          # the user's own model object, not chi's
    ctx.spec('C19.unaffected_by_later_changes_to_user_models',
             same(ll1(x), a0) and ll1.get_parameter_names() == names_before and
             same(pm.sample(x, [1.0, 2.0], seed=3, return_df=False), s0), inp,
             {'before': a0, 'after': ll1(x)})


def reduced_user_model(ctx, chi, rng):
    """the user hands chi an already reduced mechanistic model and later re-fixes / releases on it"""
    user = chi.ReducedMechanisticModel(toy.ToyModel(1, 3, int(rng.integers(100))))
    user.fix_parameters({'psi1': 0.5})
    ll = chi.LogLikelihood(user, chi.GaussianErrorModel(), [1.0, 2.0, 1.5], [0.5, 1.0, 2.0])
    pm = chi.PredictiveModel(user, [chi.GaussianErrorModel()])
    cp = user.copy()
    x = rng.uniform(0.5, 1.5, ll.n_parameters())
    inp = {'object': 'objects derived from a user ReducedMechanisticModel', 'x': x}
    ctx.case('reduced-user-model', nontrivial='reduced-user/%s' % np.round(x, 3).tolist(), sample=inp)
    a0 = ll(x)
    s0 = pm.sample(x, [1.0, 2.0], seed=3, return_df=False)
    c0 = cp.simulate(x[:2], [1.0, 2.0])
    n0 = ll.get_parameter_names()
    user.fix_parameters({'psi1': 2.0})
    user.fix_parameters({'psi0': 1.0})
    user.fix_parameters({'psi1': None})
    ctx.spec('C19.unaffected_by_later_changes_to_user_models',
             same(ll(x), a0) and ll.get_parameter_names() == n0 and
             same(pm.sample(x, [1.0, 2.0], seed=3, return_df=False), s0) and
             same(cp.simulate(x[:2], [1.0, 2.0]), c0), inp, {'before': a0, 'after': ll(x)})
    # and the other way round: changing the derived object leaves the user's model alone
    u0 = user.parameters()
    ll.fix_parameters({ll.get_parameter_names()[0]: 1.0})
    ctx.spec('C19.user_models_not_modified', user.parameters() == u0, inp)


def controller_from_user_models(ctx, chi, rng):
    """posteriors / predictive models obtained from a ProblemModellingController are unaffected by later
    changes to the user's mechanistic and error models (and the controller does not change them)"""
    import pandas as pd
    mech = toy.ToyModel(1, 2, int(rng.integers(100)))
    em = chi.GaussianErrorModel()
    before = (mech.parameters(), mech.outputs(), em.get_parameter_names(), mech._c.copy())
    c = chi.ProblemModellingController(mech, [em]) if rng.random() < 0.5 else \
        chi.ProblemModellingController(mech, [em], outputs=['out0'])
    df = pd.DataFrame({'ID': [1, 1, 1, 2, 2], 'Time': [0.5, 1.0, 2.0, 0.5, 1.5], 'Observable': ['y'] * 5,
                       'Value': [1.0, 1.4, 1.1, 2.0, 1.7]})
    frame_before = df.copy(deep=True)
    c.set_data(df, output_observable_dict={'out0': 'y'})
    n = 3
    c.set_log_prior(pints.ComposedLogPrior(*[pints.GaussianLogPrior(1, 2) for _ in range(n)]))
    x = rng.uniform(0.5, 1.5, n)
    inp = {'object': 'ProblemModellingController(ToyModel, GaussianErrorModel)', 'x': x}
    ctx.case('controller-user-models', nontrivial='controller/%s' % np.round(x, 3).tolist(), sample=inp)
    def as_list(z):
        return list(z) if isinstance(z, (list, tuple)) else [z]
    posts = as_list(c.get_log_posterior())
    v0 = [float(p(x)) for p in posts]
    ctx.spec('C19.user_models_not_modified',
             (mech.parameters(), mech.outputs(), em.get_parameter_names()) == before[:3] and
             np.array_equal(mech._c, before[3]), inp)
    ctx.spec('C19.input_not_mutated/ProblemModellingController', df.equals(frame_before), inp)
    # the user keeps working with his own objects
    mech._c[:] = 5.0
    mech.set_parameter_names({'psi0': 'renamed'})
    em.set_parameter_names(['other'])
    v1 = [float(p(x)) for p in posts]
    v2 = [float(p(x)) for p in as_list(c.get_log_posterior())]
    pm = c.get_predictive_model()
    ctx.spec('C19.unaffected_by_later_changes_to_user_models',
             same(np.array(v1), np.array(v0)) and same(np.array(v2), np.array(v0)) and
             pm.get_parameter_names()[0] == 'psi0', inp, {'before': v0, 'after': v1, 'new posteriors': v2})


def controller_request_order(ctx, chi, rng):
    """posteriors handed out by one controller do not depend on which other posteriors were requested before:
    dosed and undosed individuals of one data set, requested in two different orders from two controllers"""
    import pandas as pd
    import refsim
    refsim.install()
    from chi.library import ModelLibrary

    def controller():
        m = ModelLibrary().one_compartment_pk_model()
        m.set_administration('central', direct=True)
        c = chi.ProblemModellingController(m, [chi.GaussianErrorModel()])
        c.set_data(df, output_observable_dict={'central.drug_concentration': 'conc'}, dose_key='Dose',
                   dose_duration_key='Duration')
        c.set_log_prior(pints.ComposedLogPrior(*[pints.UniformLogPrior(0, 100) for _ in range(c.get_n_parameters())]))
        return c
    ids = ['a', 'b', 'c']
    dosed = {'a': True, 'b': False, 'c': True}
    if rng.random() < 0.5:
        dosed = {'a': False, 'b': True, 'c': False}
    rows = []
    for i in ids:
        for t in np.sort(rng.choice(np.arange(1, 12) * 0.5, 3, replace=False)):
            rows.append({'ID': i, 'Time': float(t), 'Observable': 'conc', 'Value': float(rng.uniform(0.2, 2)),
                         'Dose': np.nan, 'Duration': np.nan})
        if dosed[i]:
            for t in rng.choice([0.0, 1.0, 2.0], size=int(rng.integers(1, 3)), replace=False):
                rows.append({'ID': i, 'Time': float(t), 'Observable': np.nan, 'Value': np.nan,
                             'Dose': float(rng.uniform(1, 5)), 'Duration': float(rng.choice([0.01, 0.5]))})
    df = pd.DataFrame(rows)
    if rng.random() < 0.5:
        df.index = rng.integers(0, 4, len(df))      # repeated row labels (a frame glued from pieces)
    order1 = [ids[j] for j in rng.permutation(3)]
    order2 = list(reversed(order1))
    c1, c2 = controller(), controller()
    x = rng.uniform(0.5, 1.5, c1.get_n_parameters())
    inp = {'object': 'ProblemModellingController(one-compartment PK model)', 'dosed': dosed, 'first_order': order1,
           'second_order': order2, 'x': x}
    ctx.case('controller-request-order', nontrivial='order/%s/%s' % (order1, sorted(dosed.items())), sample=inp)
    with np.errstate(all='ignore'):
        v1 = {i: float(c1.get_log_posterior(individual=i)(x)) for i in order1}
        v2 = {i: float(c2.get_log_posterior(individual=i)(x)) for i in order2}
        allp = c1.get_log_posterior()
        v3 = {p.get_id(): float(p(x)) for p in (allp if isinstance(allp, list) else [allp])}
    ctx.spec('C19.controller_request_order', all(same(v1[i], v2[i]) for i in ids) and
             all(same(v3[i], v1[i]) for i in v3) and len(v3) >= 1, inp,
             {'first_order': v1, 'second_order': v2, 'all_at_once': v3})


def parallel(ctx, chi, rng, n_points=4, which=0):
    """pints.ParallelEvaluator (forked workers, each evaluating several points in a row on its copy) and
    pints.SequentialEvaluator on one object, against one evaluation each on objects of their own"""
    if which == 0:
        build0 = c08.make_ll(chi, rng)
        n = build0().n_parameters()

        def build():
            pr = pints.ComposedLogPrior(*[pints.GaussianLogPrior(1, 2) for _ in range(n)]) if n > 1 \
                else pints.GaussianLogPrior(1, 2)
            return chi.LogPosterior(build0(), pr)
        name = 'LogPosterior'
        xs = [list(rng.uniform(0.5, 1.5, n)) for _ in range(n_points)]
    elif which == 1:
        # (the population models with the most hidden state: covariates below a wrapper with fixed parameters)
        fp = FilterProblem(chi, rng, pop_kinds=(3, 4, 5))
        build, name = fp.build, fp.kind
        xs = [list(x) for x in fp.points(n_points)]
    else:
        hp = HierProblem(chi, rng)
        build, name = (lambda: hp.build_from(hp.ingredients(), 1)), 'HierarchicalLogPosterior'
        xs = [list(x) for x in hp.points(n_points)]
    post = build()
    inp = {'object': name, 'points': xs}
    ctx.case('parallel-vs-sequential/' + name.split('/')[0], nontrivial='parallel/%s/%d' % (name, len(xs[0])), sample=inp)
    with np.errstate(all='ignore'):
        alone = [float(build()(x)) for x in xs]
        seq = pints.SequentialEvaluator(post).evaluate(xs)
        try:
            par = pints.ParallelEvaluator(post, n_workers=2).evaluate(xs)
        except Exception as e:  # noqa
            ctx.spec('C19.parallel_evaluation', False, inp, {'raised': repr(e)[:200]})
            return
        again = [float(post(x)) for x in xs]
    detail = {'sequential': seq, 'parallel': par, 'objects_of_their_own': alone, 'same_object_afterwards': again}
    ctx.spec('C19.parallel_evaluation', same(np.array(alone), np.array(par, float)), inp, detail)
    ctx.spec('C19.parallel_evaluation', same(np.array(alone), np.array(seq, float)), inp, detail)
    ctx.spec('C19.parallel_evaluation', same(np.array(alone), np.array(again)), inp, detail)


def junk_fill(rng, shapes, rounds=12):
    """unrelated numerical work of the process between two calls: arrays of the sizes the evaluated object works
    with are allocated, filled and freed again (numpy / malloc hand freed blocks out again, unwritten), so a result
    that depends on memory nobody wrote differs from call to call"""
    v = float(rng.uniform(1e3, 1e6)) * (1.0 if rng.random() < 0.5 else -1.0)
    for shp in shapes:
        blocks = [np.full(shp, v) for _ in range(rounds)]
        del blocks


def hier_unmeasured(ctx, chi, rng):
    """a hierarchical likelihood / posterior in which at least one individual has NO measurements (enrolled, not
    measured yet): evaluateS1, repeated and interleaved with value calls, evaluations at other points, a sibling
    (everybody measured) and unrelated array work of the process, returns the same result every time, and the
    gradient is the derivative of the value returned by __call__ of an object of its own"""
    import oracle
    n_ids = int(rng.integers(2, 5))
    D = int(rng.integers(2, 5))
    subs, left = [], D
    while left:
        nd = int(rng.integers(1, left + 1))
        nc = int(rng.random() < 0.2)
        subs.append((int(rng.integers(7)), nd, nc, None))
        left -= nd
    n_cov = sum(nc for _, _, nc, _ in subs)
    cov = rng.normal(size=(n_ids, n_cov)) * 0.3 if n_cov else None
    n_obs = [int(rng.integers(0, 4)) for _ in range(n_ids)]
    n_obs[int(rng.integers(n_ids))] = 0
    if not any(n_obs):
        n_obs[int(rng.integers(n_ids))] = int(rng.integers(1, 4))
    grid = np.arange(1, 20) * 0.5

    def gen_data(counts):
        return [(list(np.sort(rng.choice(grid, m, replace=False))), list(rng.uniform(0.5, 3, m))) for m in counts]
    data = gen_data(n_obs)
    data_sibling = gen_data([max(m, 1) for m in n_obs])
    posterior = rng.random() < 0.4
    mseed = int(rng.integers(100))

    def build(dat=data):
        pm = chi.ComposedPopulationModel([c02.make_sub(chi, *s, n_ids=n_ids) for s in subs])
        lls = [chi.LogLikelihood(toy.ToyModel(1, D - 1, mseed), chi.GaussianErrorModel(), o, t) for t, o in dat]
        h = chi.HierarchicalLogLikelihood(lls, pm, covariates=None if cov is None else cov.copy())
        if posterior:
            nt = h.n_parameters(exclude_bottom_level=True)
            pr = pints.ComposedLogPrior(*[pints.LogNormalLogPrior(0.0, 0.4) for _ in range(nt)]) if nt > 1 \
                else pints.LogNormalLogPrior(0.0, 0.4)
            return chi.HierarchicalLogPosterior(h, pr)
        return h
    kind = 'HierarchicalLogPosterior' if posterior else 'HierarchicalLogLikelihood'
    target, sibling, own = build(), build(data_sibling), build()
    n = target.n_parameters()
    x = rng.uniform(0.5, 1.5, n)
    others = [rng.uniform(0.5, 1.5, n) for _ in range(2)]
    shapes = [(n_ids, D), (n,), (n_ids,), (D,), (n_ids, 2, D)]
    moves = ['sibling', 'junk', 'call', 'other', 'junk', 'none']
    plan = [[moves[int(j)] for j in rng.integers(0, len(moves), int(rng.integers(1, 3)))] for _ in range(4)]
    plan[int(rng.integers(1, 4))].append('junk')
    inp = {'object': kind + ' with unmeasured individuals', 'n_observations': n_obs, 'population_model': [list(s[:3]) for s in subs],
           'x': x, 'between_the_calls': plan}
    results = []
    with np.errstate(all='ignore'):
        for step in plan:
            for mv in (step if results else []):
                if mv == 'sibling':
                    sibling.evaluateS1(others[0])
                elif mv == 'junk':
                    junk_fill(rng, shapes)
                elif mv == 'call':
                    target(x.copy())
                elif mv == 'other':
                    target.evaluateS1(others[1])
            results.append(snap(target.evaluateS1(x.copy())))
            if not results[1:]:
                junk_fill(rng, shapes)
        value = float(own(x))
    finite = math.isfinite(value)
    ctx.case('unmeasured-individual/%s' % kind,
             nontrivial='unmeasured/%s/%s/%s' % (kind, n_obs, [s[0] for s in subs]) if finite else False, sample=inp)
    tag = 'C19.unmeasured_individual/'
    bad = [r for r in range(1, len(results)) if not same(results[r], results[0])]
    ctx.spec(tag + 'evaluateS1_repeated', not bad, inp,
             {'calls_that_differ_from_the_first': bad, 'first': results[0], 'other': results[bad[0]] if bad else None})
    if not finite:
        return
    ctx.spec(tag + 'score_of_evaluateS1_is_value', all(near_fd(r[0], value) for r in results), inp,
             {'value': value, 'scores': [r[0] for r in results]})
    # the gradient against the derivative of the value (an object of its own, value calls only): a cheap central
    # difference for every entry; only where that disagrees, the careful step-size ladder decides
    f = lambda y: float(own(y))  # noqa
    with np.errstate(all='ignore'):
        for r in sorted({0, len(results) - 1}):
            g = np.asarray(results[r][1], float)
            wrong = []
            for k in range(n):
                h = 1e-5 * max(1.0, abs(x[k]))
                up, lo = x.copy(), x.copy()
                up[k] += h
                lo[k] -= h
                est = (f(up) - f(lo)) / (2 * h)
                if math.isfinite(est) and abs(est - g[k]) <= 1e-6 + 1e-5 * max(abs(est), abs(g[k])):
                    continue
                ok, est2 = oracle.grad_matches(f, x, k, float(g[k]))
                if not ok:
                    wrong.append([k, float(g[k]), est2])
            ctx.spec(tag + 'gradient_is_derivative_of_value', not wrong, dict(inp, call=r),
                     {'[index, evaluateS1, finite difference of __call__]': wrong})


def near_fd(a, b):
    return bool(np.isclose(float(a), float(b), rtol=1e-9, atol=1e-9))


def predictive_from_reduced(ctx, chi, rng):
    """a PredictiveModel whose error model has a FIXED parameter (a user-supplied ReducedErrorModel, or the one a
    ProblemModellingController makes in fix_parameters): seeded samples before / after the fixed value is changed
    on the source (the user's object / the controller) and on a sibling predictive model, and against a model
    built from ingredients of its own with the value fixed once"""
    route = ['user', 'controller'][int(rng.integers(2))]
    base = c08.em_classes(chi)[int(rng.integers(4))]
    mseed = int(rng.integers(100))
    times = np.sort(rng.uniform(0.1, 5, 3))
    em_names = base().get_parameter_names()
    name = em_names[int(rng.integers(len(em_names)))]
    v0, v1, v2 = float(rng.uniform(0.2, 0.6)), float(rng.uniform(1.5, 3)), float(rng.uniform(4, 6))
    seed = int(rng.integers(1000))

    def own(v):
        em = chi.ReducedErrorModel(base())
        em.fix_parameters({name: v})
        return chi.PredictiveModel(toy.ToyModel(1, 2, mseed), [em])
    x = rng.uniform(0.5, 1.5, own(v0).n_parameters())
    draw = lambda m: snap(m.sample(x.copy(), times.copy(), n_samples=3, seed=seed, return_df=False))  # noqa
    inp = {'object': 'PredictiveModel from a reduced error model (%s)' % route, 'error_model': base.__name__,
           'fixed': name, 'values': [v0, v1, v2], 'x': x, 'times': times, 'seed': seed}
    ctx.case('predictive-from-reduced/%s' % route, nontrivial='pfr/%s/%s/%s' % (route, base.__name__, name), sample=inp)
    ref0 = draw(own(v0))
    mech = toy.ToyModel(1, 2, mseed)
    later = int(rng.integers(3))
    if route == 'user':
        em = chi.ReducedErrorModel(base())
        em.fix_parameters({name: v0})
        first = chi.PredictiveModel(mech, [em])
        second = chi.PredictiveModel(mech, [em])

        def change_source():
            if later == 0:
                em.fix_parameters({name: v1})
            elif later == 1:
                em.fix_parameters({name: None})
            else:
                em.fix_parameters({n_: v1 for n_ in em_names})
    else:
        c = chi.ProblemModellingController(mech, [base()])
        c.fix_parameters({name: v0})
        first = c.get_predictive_model()
        second = c.get_predictive_model()

        def change_source():
            if later == 0:
                c.fix_parameters({name: v1})
            elif later == 1:
                c.fix_parameters({name: None})
            else:
                c.fix_parameters({n_: v1 for n_ in em_names})
            c.get_predictive_model()
    names0 = list(first.get_parameter_names())
    a0, b0 = draw(first), draw(second)
    tag = 'C19.predictive_model_owns_reduced_error_model/' + route
    ctx.spec(tag, near(a0, ref0) and near(b0, ref0), dict(inp, after='construction'),
             {'first': a0, 'second': b0, 'model_of_its_own': ref0})
    change_source()
    a1, b1 = draw(first), draw(second)
    ctx.spec(tag, same(a1, a0) and same(b1, b0) and list(first.get_parameter_names()) == names0,
             dict(inp, after='fixed value changed on the source (%d)' % later),
             {'before': a0, 'after': a1, 'sibling_before': b0, 'sibling_after': b1, 'model_of_its_own': ref0})
    # siblings: re-fixing on one predictive model does not concern the other one
    first.fix_parameters({name: v2})
    b2 = draw(second)
    ctx.spec('C19.sibling_independent/PredictiveModel', same(b2, b0) and list(second.get_parameter_names()) == names0,
             dict(inp, after='fixed value changed on the sibling'), {'before': b0, 'after': b2, 'model_of_its_own': ref0})
    a2 = draw(first)
    ctx.spec(tag, near(a2, draw(own(v2))), dict(inp, after='fixed value changed on the model itself'),
             {'model': a2, 'model_of_its_own': draw(own(v2))})


def run(ctx):
    chi = core.import_chi()
    n = 240 if ctx.tier == 'quick' else 3000
    for i in range(n):
        rng = ctx.sub_rng(i)
        z = Zoo(chi, rng)
        makers = [z.reduced_error, z.reduced_pop, z.loglik, lambda: z.loglik(True), z.hier,
                  lambda: z.hier(True), z.predictive, z.pop_predictive, z.posterior_predictive,
                  z.cov_pop, z.filter_posterior, z.pop_filter]
        made = ctx.guard(makers[i % len(makers)])
        if i % 15 == 4 and i < 15 * 40:     # (reference integrator: the slow cases are capped in the thorough tier)
            dosed = ctx.guard(z.pkpd_loglik)
            if dosed is not None:
                ctx.guard(interleave_case, ctx, *dosed, rng)
        if made is None:
            continue
        kind, build, ev, xs, ext = made
        ctx.guard(interleave_case, ctx, kind, build, ev, xs, ext, rng)
        if i % 3 == 0:
            ctx.guard(model_correspondence, ctx, chi, ctx.sub_rng(10 ** 5 + i))
        if i % 2 == 0:
            ctx.guard(world_correspondence, ctx, chi, ctx.sub_rng(4 * 10 ** 5 + i))
        if i % 10 == 0:
            ctx.guard(siblings_and_later_mutation, ctx, chi, ctx.sub_rng(10 ** 6 + i))
            ctx.guard(reduced_user_model, ctx, chi, ctx.sub_rng(2 * 10 ** 6 + i))
            ctx.guard(controller_from_user_models, ctx, chi, ctx.sub_rng(3 * 10 ** 6 + i))
        if i % 20 == 5 and i < 20 * 40:
            ctx.guard(controller_request_order, ctx, chi, ctx.sub_rng(5 * 10 ** 6 + i))
        if i % 2 == 1:
            r6 = ctx.sub_rng(6 * 10 ** 6 + i)
            rz = ReconfZoo(chi, r6)
            rmakers = [rz.loglik, rz.predictive, rz.loglik, rz.reduced_error, rz.loglik, rz.reduced_pop, rz.loglik,
                       rz.pop_predictive]
            made6 = ctx.guard(rmakers[(i // 2) % len(rmakers)])
            if made6 is not None:
                ctx.guard(reconfigure_case, ctx, *made6, r6)
        if i % 20 == 7 and i < 20 * 40:
            r7 = ctx.sub_rng(7 * 10 ** 6 + i)
            made7 = ctx.guard(ReconfZoo(chi, r7).pkpd_loglik)
            if made7 is not None:
                ctx.guard(reconfigure_case, ctx, *made7, r7, n_steps=9)
        if i % 2 == 0:
            ctx.guard(reduced_mech_reconfigure, ctx, chi, ctx.sub_rng(8 * 10 ** 6 + i))
        if i % 3 == 2:
            ctx.guard(controller_inputs, ctx, chi, ctx.sub_rng(9 * 10 ** 6 + i))
        if i % 4 == 1:
            r11 = ctx.sub_rng(11 * 10 ** 6 + i)
            if (i // 4) % 3 < 2:
                ctx.guard(shared_ingredients_case, ctx, FilterProblem(chi, r11),
                          {'call': lambda m, x: m(x), 's1': lambda m, x: m.evaluateS1(x)}, [0, 1], r11)
            else:
                ctx.guard(shared_ingredients_case, ctx, HierProblem(chi, r11),
                          {'call': lambda m, x: m(x), 's1': lambda m, x: m.evaluateS1(x)}, [0, 1], r11)
        if i % 6 == 3:
            ctx.guard(construct_correspondence, ctx, chi, ctx.sub_rng(12 * 10 ** 6 + i))
        if i % 4 == 2:
            ctx.guard(hier_unmeasured, ctx, chi, ctx.sub_rng(13 * 10 ** 6 + i))
        if i % 4 == 0:
            ctx.guard(predictive_from_reduced, ctx, chi, ctx.sub_rng(14 * 10 ** 6 + i))
    for w in range(3):
        ctx.guard(parallel, ctx, chi, ctx.sub_rng(10 ** 7 + 100 * w), 4, w)
    if ctx.tier == 'thorough':
        for j in range(9):
            ctx.guard(parallel, ctx, chi, ctx.sub_rng(10 ** 7 + 1 + j), 8, j % 3)


def replay(ctx, data):
    core.import_chi()
    print('failing case:', str(data['failing'])[:2000])
    ctx.seed = int(data.get('seed', 0))
    run(ctx)
    bad = [b for b in ctx.spec_bad if b['tag'] == data['failing']['tag']]
    print('reproduced' if bad else 'not reproduced', str(bad[:1])[:800])
    return 1 if bad else 0
