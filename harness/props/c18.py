"""C18 — inference I/O keeps parameters, individuals and draws aligned"""
import contextlib
import io
import math

import numpy as np
import pints

import core
import toy

REQUIRED_THEOREMS = [
    'C18_format_chains_bijection', 'C18_format_chains_entry', 'C18_format_chains_entry_filter',
    'C18_format_chains_overwrite_counterexample', 'hierNames_wellformed', 'filterNames_wellformed',
    'C18_initial_structure', 'C18_initial_entry', 'C18_initial_structure_legacy_partial',
    'C18_initial_structure_counterexample', 'C18_initial_structure_filter', 'C18_table_pairs',
    'C18_readback', 'C18_roundtrip', 'C18_roundtrip_example', 'C18_readback_history_independent',
    'C18_readback_cache_counterexample', 'C18_initial_reproducible', 'C18_seed_zero_counterexample',
    'C18_param_map_once', 'C18_param_map_distinct', 'C18_param_map_exchange_counterexample',
    'C18_table_id_scalar', 'C18_table_id_per_parameter', 'C18_table_id_order_counterexample',
    'C18_table_outcomes_pairs', 'C18_table_hoisted_counterexample', 'C18_shared_predictive_model',
    'C18_shared_predictive_model_alias_counterexample', 'C18_pointwise_keeps_coordinates',
    'C18_pointwise_derived_entry', 'C18_derived_labels_within', 'C18_predictive_rows_derived',
    'C18_pointwise_shifted_entry', 'C18_axis_sublist_find', 'C18_axis_fromLabel_find', 'C18_axis_selLabels_find',
    'C18_axis_shift_find', 'C18_pointwise_relabel_partial', 'C18_pointwise_relabel_counterexample',
    'C18_filter_epsilon_name_slot', 'C18_filter_epsilon_slot_injective']
RULE = ('random posteriors: individual (LogPosterior), hierarchical (1-3 population sub-models out of '
        'Gaussian / log-normal centred and non-centred, truncated Gaussian, pooled, heterogeneous, covariate-'
        'wrapped Gaussian and pooled, reduced), 1-4 individuals, 1-2 dims per sub-model, and population-filter '
        'posteriors (1-3 observables, 1-3 measurement times, 2-4 simulated individuals, fixed — possibly zero — or '
        'inferred noise scales; every noise entry moved alone: only the score difference to a posterior whose data '
        'differ at the named output / time responds); random raw chains (1-3 chains, 1-5 draws) with pairwise distinct entries; seeds; 2-run '
        'optimisations; read-back through PosteriorPredictiveModel and compute_pointwise_loglikelihood. '
        'Optimisation tables: 1-4 runs of labelled / unlabelled individual and hierarchical posteriors with a '
        'recording optimiser (set_optimiser) of which any subset of the runs breaks down after 0-3 iterations; '
        'read-back: one PredictiveModel / log-likelihood object serving several consumers with different '
        'parameter maps before and between the observed calls; datasets derived from the formatted / returned one '
        '(warm-up removed with .sel(draw=slice(k, None)), thinned, a subset of chains, renumbered draws / chains, '
        '1-3 such steps in any order) fed to compute_pointwise_loglikelihood (DataArray and InferenceData form, '
        'observed with .sel(chain=c, draw=d) for every label pair) and to PosteriorPredictiveModel. '
        'non-trivial = a special (pooled / heterogeneous) dimension next to a hierarchical one, or >= 2 '
        'individuals with >= 2 bottom names; distinct = distinct (posterior kind, composition, n_ids)')
ASSUMPTIONS = ['the mechanistic model is the closed-form toy model of harness/toy.py (the ODE solver is absent)',
               'population_model.sample and log_prior.sample are primitives: structure of the initial points is '
               'checked by replaying them with the same seeds through the public API',
               'xarray / pandas container semantics (dict of DataArrays, coordinate selection) are modelled as '
               'gathers of chain positions; column assignment to a frame (a scalar is broadcast over the rows '
               'present, a list gives a frame without rows its rows) as LabelFrame.setId / setParam',
               'a run of the optimisation breaks down = the optimiser handed to set_optimiser raises from ask()',
               'xarray selection on the chain / draw dimension (.sel with a label list or slice(k, None), .isel with a '
               'stepped slice, assign_coords) is modelled as DOp.apply on a list of (label, raw position); the model is '
               'compared with xarray itself on every derived dataset (C18.derived_dataset/xarray_selection)']

KINDS = ['G', 'Gnc', 'LN', 'LNnc', 'TG', 'P', 'H', 'CovG', 'CovP']


# ----------------------------------------------------------------------------------------
# building posteriors with the public API
# ----------------------------------------------------------------------------------------
def make_sub(chi, kind, nd):
    if kind == 'G':
        return chi.GaussianModel(n_dim=nd)
    if kind == 'Gnc':
        return chi.GaussianModel(n_dim=nd, centered=False)
    if kind == 'LN':
        return chi.LogNormalModel(n_dim=nd)
    if kind == 'LNnc':
        return chi.LogNormalModel(n_dim=nd, centered=False)
    if kind == 'TG':
        return chi.TruncatedGaussianModel(n_dim=nd)
    if kind == 'P':
        return chi.PooledModel(n_dim=nd)
    if kind == 'H':
        return chi.HeterogeneousModel(n_dim=nd)
    if kind == 'CovG':
        return chi.CovariatePopulationModel(chi.GaussianModel(n_dim=nd, centered=False),
                                            chi.LinearCovariateModel(n_cov=1))
    if kind == 'CovP':
        return chi.CovariatePopulationModel(chi.PooledModel(n_dim=nd), chi.LinearCovariateModel(n_cov=1))
    raise ValueError(kind)


def gen_config(rng, allow_covp=True):
    kinds = [k for k in KINDS if allow_covp or k != 'CovP']
    w = np.array([2 if k in ('P', 'H') else (0.6 if k == 'CovP' else 1) for k in kinds], float)
    nsub = int(rng.integers(1, 4))
    cfg = [(kinds[int(rng.choice(len(kinds), p=w / w.sum()))], int(rng.integers(1, 3))) for _ in range(nsub)]
    if sum(nd for _, nd in cfg) < 2:
        cfg.append(('G', 1))
    n_ids = int(rng.integers(1, 5))
    custom_ids = bool(rng.random() < 0.6)
    return {'cfg': cfg, 'n_ids': n_ids, 'custom_ids': custom_ids, 'toy_seed': int(rng.integers(0, 1000)),
            'reduced': bool(rng.random() < 0.2),
            'prefix_names': bool(rng.random() < 0.35)}


def prior_for(n_top, rng_seed):
    r = np.random.default_rng([rng_seed, 11])
    ps = []
    for _ in range(n_top):
        if r.random() < 0.5:
            ps.append(pints.UniformLogPrior(0.3, 1.5))
        else:
            ps.append(pints.LogNormalLogPrior(-0.2, 0.2))
    return pints.ComposedLogPrior(*ps) if n_top > 1 else ps[0]


PREFIX_NAMES = ['k', 'k_e', 'k_e slow', 'k_e slow 2', 'k_e slow 2b']


def mech_names(c, n_mech):
    """parameter names of the toy model; optionally names that are prefixes of one another"""
    if c.get('prefix_names'):
        return PREFIX_NAMES[:n_mech]
    return ['psi%d' % k for k in range(n_mech)]


def make_toy(c, n_mech):
    m = toy.ToyModel(1, n_mech, c['toy_seed'])
    if c.get('prefix_names'):
        m.set_parameter_names({'psi%d' % k: PREFIX_NAMES[k] for k in range(n_mech)})
    return m


def build_hier(chi, c):
    subs = [make_sub(chi, k, nd) for k, nd in c['cfg']]
    pm = chi.ComposedPopulationModel(subs) if len(subs) > 1 else subs[0]
    n_dim = sum(nd for _, nd in c['cfg'])
    n_ids = c['n_ids']
    lls = []
    r = np.random.default_rng([c['toy_seed'], 5])
    for k in range(n_ids):
        ll = chi.LogLikelihood(make_toy(c, n_dim - 1), chi.GaussianErrorModel(),
                               list(r.uniform(1.0, 3.0, 3)), [0.5, 1.0, 2.0])
        if c['custom_ids']:
            ll.set_id(['pat-%d' % (7 * k + 3), 'B%d' % k, '%d' % (40 - k), '%d' % ((k + 1) % n_ids)][c['toy_seed'] % 4])
        lls.append(ll)
    ncov = pm.n_covariates()
    cov = np.round(r.uniform(0.5, 1.5, (n_ids, ncov)), 3) if ncov else None
    user_pm = pm
    if c['reduced']:
        names = pm.get_parameter_names()
        red = chi.ReducedPopulationModel(pm)
        try:
            red.fix_parameters({names[-1]: 0.7})
            user_pm = red
        except Exception:  # noqa
            user_pm = pm
    h = chi.HierarchicalLogLikelihood(lls, user_pm, cov)
    n_top = h.n_parameters(exclude_bottom_level=True)
    lp = chi.HierarchicalLogPosterior(h, prior_for(n_top, c['toy_seed']))
    return lp, h, user_pm, subs, cov, lls


def sub_flags(chi, pm):
    """what the initial-point code looks at in each sub-model (through public methods)"""
    m = pm
    if isinstance(m, chi.ReducedPopulationModel):
        m = m.get_population_model()
    try:
        models = m.get_population_models()
    except AttributeError:
        models = [m]
    return [[int(x.n_dim()), bool(isinstance(x, (chi.PooledModel, chi.HeterogeneousModel))),
             bool(x.n_hierarchical_dim() == 0)] for x in models]


def pick_seed(rng, hi=10000):
    """seeds include the boundary values: 0 (falsy), 1, and the largest value numpy's legacy seeding accepts
    minus one (the code adds 1 for its second generator)"""
    r = rng.random()
    if r < 0.2:
        return 0
    if r < 0.27:
        return 1
    if r < 0.3:
        return 2 ** 32 - 2
    return int(rng.integers(2, hi))


def distinct_chains(rng, n_chains, n_draws, n_par):
    base = rng.permutation(n_chains * n_draws * n_par).astype(float).reshape(n_chains, n_draws, n_par)
    return 0.25 + base / 8.0          # pairwise distinct, exactly representable


# ----------------------------------------------------------------------------------------
# dataset formatting
# ----------------------------------------------------------------------------------------
def dataset_spec_check(ds, chains, names, ids_full, uniq_ids):
    """the property's sentence on the dataset: every (name, individual) exactly once, entry = raw chain"""
    problems = []
    cover = np.zeros(chains.shape[2], int)
    for k, (nm, i) in enumerate(zip(names, ids_full)):
        if nm not in ds.data_vars:
            problems.append(('missing variable', nm))
            continue
        da = ds[nm]
        if i is None:
            if tuple(da.dims) != ('chain', 'draw'):
                problems.append(('population-level variable has dims', nm, list(da.dims)))
                continue
            if not np.array_equal(da.values, chains[:, :, k]):
                problems.append(('population-level entry differs from the raw chain', nm, k))
            else:
                cover[k] += 1
        else:
            if tuple(da.dims) != ('chain', 'draw', 'individual'):
                problems.append(('individual-level variable has dims', nm, list(da.dims)))
                continue
            try:
                v = da.sel(individual=i).values
            except Exception as e:  # noqa
                problems.append(('individual not selectable', nm, i, type(e).__name__))
                continue
            if v.shape != chains[:, :, k].shape or not np.array_equal(v, chains[:, :, k]):
                problems.append(('individual-level entry differs from the raw chain', nm, i, k))
            else:
                cover[k] += 1
    extra = [v for v in ds.data_vars if v not in names]
    if extra:
        problems.append(('variables that are not parameters', extra))
    n_entries = sum(int(np.prod(ds[v].shape)) for v in ds.data_vars)
    if n_entries != chains.size:
        problems.append(('number of stored entries', n_entries, 'raw', int(chains.size)))
    return problems


def gather(model_ds, chains):
    out = {}
    for name, kind, ks in model_ds:
        out[name] = chains[:, :, ks[0]] if kind == 'one' else chains[:, :, ks]
    return out


def format_case(ctx, chi, lp, label, inp, rng):
    """_format_chains is a pure function of (names, top names, ids, raw chains): called directly"""
    names = lp.get_parameter_names()
    top = lp.get_parameter_names(exclude_bottom_level=True)
    ids_full = lp.get_id()
    uniq = lp.get_id(unique=True)
    if not isinstance(ids_full, list):       # LogPosterior: one ID for everything, all population-level
        ids_full = [None] * len(names)
        uniq = []
    try:
        ctrl = chi.SamplingController(lp, seed=pick_seed(rng, 1000))
    except Exception as e:  # noqa
        return None, core.errkind(e)
    n_chains, n_draws = int(rng.integers(1, 4)), int(rng.integers(1, 6))
    chains = distinct_chains(rng, n_chains, n_draws, len(names))
    raw = chains.copy()
    mo = ctx.model('C18.format_chains', names, top, len(uniq))
    try:
        ds = ctrl._format_chains(chains, None)
    except Exception as e:  # noqa
        ctx.agree('C18.format_chains/' + label, core.errkind(e), mo[0], inp)
        ctx.spec('C18.format_chains/' + label, False, inp, {'raised': repr(e)[:200]})
        return None, None
    ctx.spec('C18.format_chains/raw_chain_untouched', np.array_equal(raw, chains), inp)
    problems = dataset_spec_check(ds, chains, names, ids_full, uniq)
    ctx.spec('C18.format_chains/' + label, not problems, inp,
             {'problems': problems[:4], 'names': names, 'ids': ids_full})
    if mo[0] == 'ok':
        g = gather(mo[1], chains)
        chi_out = [[v, list(ds[v].dims), ds[v].values] for v in sorted(ds.data_vars)]
        model_out = [[v, ['chain', 'draw'] + (['individual'] if g[v].ndim == 3 else []), g[v]]
                     for v in sorted(g)]
        ctx.agree('C18.format_chains/' + label, chi_out, model_out, inp, rtol=0.0)
        coords_ok = all(list(ds[v].individual.values) == list(uniq) for v in ds.data_vars
                        if 'individual' in ds[v].dims)
        ctx.spec('C18.format_chains/individual_coordinate', coords_ok, inp)
    else:
        ctx.agree('C18.format_chains/' + label, 'ok', mo[0], inp)
    # the same controller object used again: a second, differently shaped chain array; the dataset
    # returned first must keep describing the first array
    held = {v: ds[v].values.copy() for v in ds.data_vars}
    chains2 = distinct_chains(rng, int(rng.integers(1, 4)), int(rng.integers(1, 6)), len(names)) + 1000.0
    try:
        ds2 = ctrl._format_chains(chains2, None)
        p2 = dataset_spec_check(ds2, chains2, names, ids_full, uniq)
    except Exception as e:  # noqa
        p2 = [('second call raised', repr(e)[:200])]
    ctx.spec('C18.format_chains/second_call_on_same_controller', not p2, inp, {'problems': p2[:4]})
    ctx.spec('C18.format_chains/first_dataset_held', all(np.array_equal(held[v], ds[v].values) for v in held)
             and not dataset_spec_check(ds, chains, names, ids_full, uniq), inp)
    return (ds, chains, names, top, ids_full, uniq), None


# ----------------------------------------------------------------------------------------
# initial parameters
# ----------------------------------------------------------------------------------------
def initial_case(ctx, chi, lp, pm, cov, flags, label, inp, rng, n_ids):
    seed = pick_seed(rng)
    n = int(rng.integers(1, 4))
    n_par = lp.n_parameters()
    try:
        x0 = lp.sample_initial_parameters(n_samples=n, seed=seed)
    except Exception as e:  # noqa
        kind = core.errkind(e)
        ctx.errkinds.add(kind)
        mo = ctx.model('C18.init_row', flags, n_ids, [1.0] * lp.n_parameters(exclude_bottom_level=True),
                       [[1.0] * sum(f[0] for f in flags)] * n_ids)
        ctx.agree('C18.initial/' + label, kind, mo[0], inp)
        why = 'C18.initial_structure/' + label
        if any(f[1] != f[2] for f in flags):
            why = 'C18.initial_structure/isinstance_special_dims'
        ctx.spec(why, False, inp, {'raised': repr(e)[:200], 'flags': flags})
        return None
    x0 = np.asarray(x0, float)
    ctx.spec('C18.initial_dimension/' + label, x0.shape == (n, n_par), inp, {'shape': list(x0.shape)})
    # reproducible from the seed, whatever the global generator did in between
    np.random.seed(int(rng.integers(0, 10000)))
    np.random.normal(size=3)
    held = x0.copy()
    x1 = np.asarray(lp.sample_initial_parameters(n_samples=n, seed=seed), float)
    ctx.spec('C18.initial_reproducible/' + label, np.array_equal(x0, x1), inp, {'seed': seed})
    # a call with another seed / another number of points in between changes neither the earlier result
    # nor what the first seed gives afterwards
    other = np.asarray(lp.sample_initial_parameters(n_samples=n + 1, seed=seed + 1 if seed < 2 ** 32 - 2 else 5),
                       float)
    x2 = np.asarray(lp.sample_initial_parameters(n_samples=n, seed=seed), float)
    ctx.spec('C18.initial_reproducible/' + label, np.array_equal(held, x0) and np.array_equal(x0, x2)
             and other.shape == (n + 1, n_par), inp, {'seed': seed, 'after_other_call': True})
    # prior and population contributions (the likelihood of the data is not part of the statement)
    n_top = lp.n_parameters(exclude_bottom_level=True) if pm is not None else n_par
    nb = n_par - n_top
    vals = []
    with np.errstate(all='ignore'):
        for x in x0:
            try:
                v = float(lp.get_log_prior()(x[nb:]))
                if pm is not None:
                    eta = pm.compute_individual_parameters(parameters=x[nb:], eta=x[:nb], covariates=cov,
                                                           return_eta=True)
                    v += float(pm.compute_log_likelihood(x[nb:], eta, covariates=cov))
            except Exception as e:  # noqa
                v = 'raised ' + type(e).__name__
            vals.append(v)
    ctx.spec('C18.initial_finite/' + label, all(isinstance(v, float) and math.isfinite(v) for v in vals), inp,
             {'prior+population': vals})
    return x0, seed, n


def hier_initial_structure(ctx, chi, lp, pm, cov, flags, x0, seed, n, inp, n_ids):
    """exact replay: prior with the legacy global seed, population model with default_rng(seed + 1)"""
    n_top = lp.n_parameters(exclude_bottom_level=True)
    prior = lp.get_log_prior()
    np.random.seed(seed)
    top = np.asarray(prior.sample(n), float).reshape(n, n_top)
    r = np.random.default_rng(seed + 1)
    for s in range(n):
        pop = np.asarray(pm.sample(parameters=top[s], n_samples=n_ids, seed=r, covariates=cov), float)
        pop = pop.reshape(n_ids, -1)
        kept = []
        cur = 0
        for nd, _, special in flags:
            if not special:
                kept += list(range(cur, cur + nd))
            cur += nd
        want = list(pop[:, kept].flatten()) + list(top[s])
        ctx.spec('C18.initial_structure/hierarchical', len(want) == x0.shape[1] and
                 np.array_equal(np.asarray(want), x0[s]), inp,
                 {'row': s, 'chi': x0[s], 'replayed': want})
        mo = ctx.model('C18.init_row', flags, n_ids, list(top[s]), [list(v) for v in pop])
        ctx.agree('C18.initial/hierarchical', ['ok', x0[s]], mo, inp, rtol=0.0)


# ----------------------------------------------------------------------------------------
# read-back
# ----------------------------------------------------------------------------------------
def exchange_names(rng, model_names, pmap, p_exchange=0.6):
    """a posterior stored under another naming convention: the dataset variables read by some model
    parameters are renamed to OTHER model parameters' names (an exchange A<->B or a longer cycle), and the
    parameter map says so.  Returns (rename dict for the dataset, new parameter map with its entries in random
    order) — mapped-to names are then keys of the map as well."""
    n = len(model_names)
    if n < 2 or rng.random() > p_exchange:
        return {}, dict(pmap)
    targets = [pmap.get(m, m) for m in model_names]
    S = [int(j) for j in rng.choice(n, size=int(rng.integers(2, min(n, 4) + 1)), replace=False)]
    pi = {S[i]: S[(i + 1) % len(S)] for i in range(len(S))}
    ren = {targets[i]: model_names[pi[i]] for i in S}
    new = {m: t for m, t in pmap.items() if model_names.index(m) not in S}
    new.update({model_names[i]: model_names[pi[i]] for i in S})
    keys = list(new)
    return ren, {k_: new[k_] for k_ in [keys[int(j)] for j in rng.permutation(len(keys))]}


def other_map(rng, model_names, pmap, variables):
    """another consumer's parameter map on the same dataset: like `pmap`, but a random non-empty subset of the
    model parameters reads some other variable of the dataset"""
    dmap = dict(pmap)
    for j in rng.choice(len(model_names), size=int(rng.integers(1, len(model_names) + 1)), replace=False):
        dmap[model_names[int(j)]] = variables[int(rng.integers(len(variables)))]
    return dmap


def readback_case(ctx, chi, c, fmt, lls, inp, rng):
    """feed the dataset to a PosteriorPredictiveModel and to compute_pointwise_loglikelihood;
    ONE PosteriorPredictiveModel object is asked for a sequence of individuals (repetitions and the default
    included): every call must read the columns of the individual of that call"""
    ds, chains, names, top, ids_full, uniq = fmt
    n_dim = sum(nd for _, nd in c['cfg'])
    model_names = mech_names(c, n_dim - 1) + ['Sigma']
    has_het = any(kind == 'H' for kind, _ in c['cfg'])
    r_first = int(rng.integers(0, len(uniq)))

    def param_map(r_ind):
        # bottom names are identical, special dims are population-level variables (pooled: one name;
        # heterogeneous: one name per individual)
        pop_names = list(top)
        pmap = {}
        cur = 0
        cursor = 0      # position in the population model's names
        for kind, nd in c['cfg']:
            for d in range(nd):
                mn = model_names[cur + d]
                if kind == 'P':
                    pmap[mn] = pop_names[cursor + d]
                elif kind == 'H':
                    pmap[mn] = pop_names[cursor + r_ind * nd + d]
            cur += nd
            cursor += {'P': nd, 'H': nd * len(uniq), 'G': 2 * nd, 'Gnc': 2 * nd, 'LN': 2 * nd, 'LNnc': 2 * nd,
                       'TG': 2 * nd, 'CovG': 4 * nd, 'CovP': 2 * nd}[kind]
        return pmap

    def columns(pmap, individual):
        # expected columns, straight from names / ids (the property's reading)
        cols = []
        for mn in model_names:
            target = pmap.get(mn, mn)
            ks = [k for k, (nm, i) in enumerate(zip(names, ids_full))
                  if nm == target and (i is None or i == individual)]
            if len(ks) != 1:
                return None
            cols.append(ks[0])
        return cols
    pmap = param_map(r_first)
    if columns(pmap, uniq[r_first]) is None:
        return      # a model parameter without a uniquely named dataset variable (covariate-wrapped pooled)
    # exchanged / cyclically shifted names between dataset and model (not with a per-individual name map)
    base_names, base_top = list(names), list(top)
    ren, xmap = ({}, dict(pmap)) if has_het else exchange_names(rng, model_names, pmap)
    if ren:
        ds = ds.rename(ren)
        names = [ren.get(v, v) for v in base_names]
        top = [ren.get(v, v) for v in base_top]
        pmap = xmap
        inp = dict(inp, renamed=ren, param_map=[[a_, b_] for a_, b_ in pmap.items()])
    # the sequence of requests put to one object (a heterogeneous dimension needs a per-individual name map,
    # so there the object can only serve its own individual — asked twice)
    if has_het:
        seq = [r_first, r_first]
    else:
        seq = [r_first] + [int(rng.integers(0, len(uniq))) for _ in range(int(rng.integers(1, 4)))]
        if rng.random() < 0.3:
            seq[int(rng.integers(0, len(seq)))] = None          # individual=None: the first ID
    n_chains, n_draws, _ = chains.shape
    pred = chi.PredictiveModel(make_toy(c, n_dim - 1), [chi.GaussianErrorModel()])
    times = [0.5, 1.5, 3.0]
    n_samples = int(rng.integers(1, 4))
    # ONE PredictiveModel may serve several PosteriorPredictiveModels, each with its own name map (the "typical
    # individual" next to the individuals' own parameters): other objects are built from the same
    # PredictiveModel before the observed one and between its calls; every object keeps reading its own columns
    others = []

    def other_consumer(when):
        dmap = other_map(rng, model_names, pmap, [str(v) for v in ds.data_vars])
        others.append([when, [[a_, b_] for a_, b_ in dmap.items()]])
        try:
            chi.PosteriorPredictiveModel(pred, ds, param_map=dmap)
        except Exception as e:  # noqa
            ctx.spec('C18.readback/other_model_on_shared_predictive_model', False, dict(inp, other_models=others),
                     {'constructor raised': repr(e)[:200], 'param_map': dmap})
    if rng.random() < 0.5:
        other_consumer('before')
    try:
        ppm = chi.PosteriorPredictiveModel(pred, ds, param_map=pmap)
    except Exception as e:  # noqa
        ctx.spec('C18.readback/posterior_predictive_shared_predictive_model' if others else
                 'C18.readback/posterior_predictive', False, dict(inp, other_models=others),
                 {'constructor raised': repr(e)[:200]})
        ppm = None
    for pos, r_ind in enumerate(seq):
        if pos > 0 and ppm is not None and rng.random() < 0.35:
            other_consumer('before call %d' % pos)
        individual = None if r_ind is None else uniq[r_ind]
        eff = uniq[0] if r_ind is None else individual
        cols = columns(pmap, eff)
        if cols is None:
            return
        if pos == 0 or not has_het:
            mo = ctx.model('C18.roundtrip', names, top, len(uniq), list(uniq), model_names,
                           [[a_, b_] for a_, b_ in pmap.items()], individual)
            ctx.agree('C18.readback_columns', ['ok', cols], mo, inp)
        if ppm is None:
            continue
        posterior = np.stack([chains[:, :, k].flatten() for k in cols], axis=1)
        # exact replay of the object's random stream on the expected matrix
        seed = pick_seed(rng)
        try:
            df = ppm.sample(times, n_samples=n_samples, individual=individual, seed=seed)
            got = list(np.asarray(df['Value'], float))
        except Exception as e:  # noqa
            got = core.errkind(e)
        g = np.random.default_rng(seed)
        want = []
        for _ in range(n_samples):
            par = g.choice(posterior)
            smp = pred.sample(par, np.sort(times), n_samples, g, return_df=False)
            want += list(smp[0, :, 0])
        ctx.spec('C18.readback/posterior_predictive_shared_predictive_model' if others else
                 'C18.readback/posterior_predictive' if pos == 0 else
                 'C18.readback/posterior_predictive_same_object_later_call',
                 not isinstance(got, str) and core.close(got, want, 1e-12), dict(inp, other_models=others),
                 {'call': pos, 'requests_so_far': [None if r is None else uniq[r] for r in seq[:pos + 1]],
                  'param_map': pmap, 'chi': got, 'expected': want, 'columns': cols, 'seed': seed})
    # --- pointwise log-likelihood: the function is called for two individuals in a row on the same dataset
    for r_ind in ([r_first] if has_het else sorted({r_first, (r_first + 1) % len(uniq)})):
        individual = uniq[r_ind]
        pm_ = param_map(r_ind) if has_het else pmap
        cols = columns(pm_, individual)
        if cols is None:
            continue
        ll = lls[r_ind]
        earlier = None
        if rng.random() < 0.5:
            # the same log-likelihood object was evaluated on the dataset under another name map before
            earlier = other_map(rng, model_names, pm_, [str(v) for v in ds.data_vars])
            try:
                chi.compute_pointwise_loglikelihood(ll, ds, individual=individual, param_map=earlier)
            except Exception:  # noqa
                pass
        try:
            pw = chi.compute_pointwise_loglikelihood(ll, ds, individual=individual, param_map=pm_)
            gotp = np.asarray(pw.values, float)
        except Exception as e:  # noqa
            gotp = core.errkind(e)
        with np.errstate(all='ignore'):
            wantp = np.array([[ll.compute_pointwise_ll(chains[ci, di, cols]) for di in range(n_draws)]
                              for ci in range(n_chains)], float)
        ctx.spec('C18.readback/pointwise_loglikelihood' if earlier is None else
                 'C18.readback/pointwise_loglikelihood_after_call_with_other_map',
                 not isinstance(gotp, str) and gotp.shape == wantp.shape
                 and core.close(gotp, wantp, 1e-12), inp if earlier is None else dict(inp, earlier_param_map=earlier),
                 {'individual': individual, 'chi': gotp if isinstance(gotp, str) else 'array', 'columns': cols})
    # --- the same dataset with the warm-up removed / thinned / fewer chains / renumbered
    cols = columns(pmap, uniq[r_first])
    if cols is not None:
        derived_dataset_case(ctx, chi, rng, ds, chains, lls[r_first], pred, cols, uniq[r_first], pmap, inp, True)


# ----------------------------------------------------------------------------------------
# datasets DERIVED from the one a controller returns (chain / draw coordinates that are not 0..n-1)
# ----------------------------------------------------------------------------------------
def derive_steps(rng, n_chains, n_draws):
    """what users do to a posterior dataset before they feed it back: discard the warm-up
    (`.sel(draw=slice(k, None))`), thin the draws, keep a subset of the chains, number the draws / chains on from
    an earlier run.  Returns the steps `[on_chain, op, args..]` (the wire form of the model's `DStep`) and the
    (labels, raw positions) of both axes afterwards; labels stay increasing, no axis becomes empty, and at least
    one axis no longer carries the default range."""
    ax = {True: [(i, i) for i in range(n_chains)], False: [(i, i) for i in range(n_draws)]}
    steps = []

    def apply(dim, op, *a):
        cur = ax[dim]
        if op == 'sel':
            pos = dict(cur)
            cur = [(lab, pos[lab]) for lab in a[0]]
        elif op == 'from':
            cur = [e for e in cur if e[0] >= a[0]]
        elif op == 'thin':
            cur = cur[a[0]::a[1]]
        else:
            cur = [(lab + a[0], src) for lab, src in cur]
        ax[dim] = cur
        steps.append([dim, op] + [list(v) if isinstance(v, (list, tuple)) else int(v) for v in a])

    def one(dim):
        cur = ax[dim]
        r = rng.random()
        if len(cur) >= 2 and r < 0.45:
            lo, hi = cur[0][0] + 1, cur[-1][0]          # any integer in between, a label or not
            apply(dim, 'from', int(rng.integers(lo, hi + 1)))
        elif len(cur) >= 2 and r < 0.65:
            apply(dim, 'thin', int(rng.integers(0, 2)), int(rng.integers(2, 4)))
        elif len(cur) >= 2 and r < 0.85:
            m = int(rng.integers(1, len(cur)))
            keep = sorted(int(j) for j in rng.choice(len(cur), size=m, replace=False))
            apply(dim, 'sel', [cur[j][0] for j in keep])
        else:
            apply(dim, 'shift', [1, 2, 10, 100, 1000][int(rng.integers(5))])
    for dim in (False, True):
        for _ in range(int(rng.integers(0, 3)) if dim is False else int(rng.integers(0, 2))):
            one(dim)
    if rng.random() < 0.5:
        steps_c = [st for st in steps if st[0]]
        steps[:] = steps_c + [st for st in steps if not st[0]]      # the order between the dimensions is free
    default = all([lab for lab, _ in ax[d]] == list(range(len(ax[d]))) for d in (True, False))
    if default:
        dim = bool(n_chains >= 2 and rng.random() < 0.4)
        if len(ax[dim]) >= 2 and rng.random() < 0.75:
            apply(dim, 'from', int(rng.integers(1, ax[dim][-1][0] + 1)))
        else:
            apply(dim, 'shift', [1, 7, 500][int(rng.integers(3))])
    return steps, ax[True], ax[False]


def apply_steps(ds, steps):
    """the steps with xarray's public selection methods"""
    for on_chain, op, *a in steps:
        dim = 'chain' if on_chain else 'draw'
        if op == 'sel':
            ds = ds.sel({dim: list(a[0])})
        elif op == 'from':
            ds = ds.sel({dim: slice(a[0], None)})
        elif op == 'thin':
            ds = ds.isel({dim: slice(a[0], None, a[1])})
        else:
            ds = ds.assign_coords({dim: ds[dim].values + a[0]})
    return ds


def labelled_entries(da, clab, dlab, want, tol=1e-12):
    """`da.sel(chain=c, draw=d)` for every label pair of the dataset, against want[i][j]; the first problem"""
    for i, c in enumerate(clab):
        for j, d in enumerate(dlab):
            try:
                v = np.asarray(da.sel(chain=c, draw=d).values, float)
            except Exception as e:  # noqa
                return {'no entry under the labels': [int(c), int(d)], 'raised': type(e).__name__}
            if v.shape != np.shape(want[i][j]) or not core.close(v, want[i][j], tol):
                return {'labels': [int(c), int(d)], 'entry': v, 'of the parameters stored there': want[i][j]}
    return None


def derived_dataset_case(ctx, chi, rng, ds, chains, ll, pred, cols, individual, pmap, inp, has_ind):
    """the dataset with warm-up removed / thinned / a subset of chains / renumbered, fed to the two consumers:
    the entry of the pointwise log-likelihoods found under the labels (chain=c, draw=d) is the one of the
    parameters the dataset holds under these labels (DataArray and InferenceData form), and the posterior
    predictive model draws from exactly the rows the dataset holds"""
    # (own generator: the rest of the case sees the same stream whether or not this part runs; the thorough tier,
    # which has some 20 times as many cases, runs it for two thirds of them)
    rng = np.random.default_rng([int(rng.integers(2 ** 32)), 18])
    if ctx.tier == 'thorough' and rng.random() < 1 / 3:
        return
    n_chains, n_draws, _ = chains.shape
    steps, cax, dax = derive_steps(rng, n_chains, n_draws)
    clab, cpos = [e[0] for e in cax], [e[1] for e in cax]
    dlab, dpos = [e[0] for e in dax], [e[1] for e in dax]
    inp = dict(inp, derived={'steps': steps, 'chain_labels': clab, 'draw_labels': dlab})
    sub = apply_steps(ds, steps)
    mo = ctx.model('C18.derived', steps, n_chains, n_draws)
    # the model of the selection steps against xarray itself (an assumption of the model, checked on every case)
    ctx.agree('C18.derived_dataset/xarray_selection', ['ok', list(sub.chain.values), list(sub.draw.values)],
              [mo[0], mo[1], mo[3]] if mo[0] == 'ok' else mo, inp)
    if not ctx.agree('C18.derived_dataset/generator_bookkeeping', ['ok', clab, cpos, dlab, dpos], mo[:5], inp):
        return
    ctx.branches.add('derived:' + '+'.join(sorted({('chain-' if st[0] else 'draw-') + st[1] for st in steps})))
    kw = {} if not has_ind else {'individual': individual}
    with np.errstate(all='ignore'):
        at = {(ci, di): np.asarray(ll.compute_pointwise_ll(chains[ci, di, cols]), float) for di in dpos for ci in cpos}
    want = [[at[ci, di] for di in dpos] for ci in cpos]
    n_obs = len(want[0][0])
    # --- pointwise log-likelihoods, DataArray form
    try:
        pw = chi.compute_pointwise_loglikelihood(ll, sub, param_map=pmap or None, **kw)
        shape_ok = dict(pw.sizes) == {'chain': len(clab), 'draw': len(dlab), 'observation': n_obs}
        problem = labelled_entries(pw, clab, dlab, want) if shape_ok else {'dims': list(pw.dims),
                                                                           'shape': list(pw.shape)}
        got_labels = ['ok', list(pw.chain.values), list(pw.draw.values)] if shape_ok else 'shape'
    except Exception as e:  # noqa
        problem = {'raised': repr(e)[:200]}
        got_labels = core.errkind(e)
    ctx.spec('C18.readback/pointwise_loglikelihood_derived_dataset', problem is None, inp, problem)
    # model: the result carries the dataset's coordinates, slice by slice
    ctx.agree('C18.derived_dataset/pointwise_coordinates', got_labels, ['ok', mo[5], mo[7]], inp)
    if problem is None:
        ctx.agree('C18.derived_dataset/pointwise_sources', pw.transpose('chain', 'draw', 'observation').values,
                  [[at.get((ci, di)) for di in mo[8]] for ci in mo[6]], inp, rtol=1e-12)
    # --- InferenceData form: the log-likelihoods sit next to the posterior group under the same labels
    if rng.random() < 0.5:
        var = [str(v) for v in sub.data_vars][int(rng.integers(len(sub.data_vars)))]
        try:
            idata = chi.compute_pointwise_loglikelihood(ll, sub, param_map=pmap or None,
                                                        return_inference_data=True, **kw)
            # the log-likelihoods: the variable with an observation axis, in whichever group other than the posterior
            found = [idata[g][v] for g in idata.groups() if g != 'posterior' for v in idata[g].data_vars
                     if 'observation' in idata[g][v].dims]
            problem = labelled_entries(found[0].transpose('chain', 'draw', 'observation'), clab, dlab, want) \
                if len(found) == 1 else {'variables with an observation axis': len(found)}
            if problem is None:
                # the posterior group still holds the dataset's entries under the dataset's labels
                a, b = idata.posterior[var], sub[var]
                if has_ind and 'individual' in b.dims:
                    b = b.sel(individual=individual)
                    if 'individual' in a.dims:
                        a = a.sel(individual=individual)
                wantv = [[np.asarray(b.sel(chain=c, draw=d).values, float) for d in dlab] for c in clab]
                problem = labelled_entries(a, clab, dlab, wantv, 0.0)
                if problem is not None:
                    problem['posterior group variable'] = var
        except Exception as e:  # noqa
            problem = {'raised': repr(e)[:200]}
        ctx.spec('C18.readback/inference_data_derived_dataset', problem is None, inp, problem)
    # --- posterior predictive model on the derived dataset: exact replay on the rows the dataset holds
    if pred is None:
        return
    seed = pick_seed(rng)
    n_samples = int(rng.integers(1, 3))
    times = [0.5, 2.0]
    try:
        df = chi.PosteriorPredictiveModel(pred, sub, param_map=pmap or None).sample(
            times, n_samples=n_samples, seed=seed, **kw)
        got = list(np.asarray(df['Value'], float))
    except Exception as e:  # noqa
        got = core.errkind(e)
    rows = [[ci, di] for ci in cpos for di in dpos]          # chain-major, as the dataset holds them
    ctx.agree('C18.derived_dataset/predictive_rows', rows, mo[9], inp)
    posterior = np.array([chains[ci, di, cols] for ci, di in rows])
    g = np.random.default_rng(seed)
    wantp = []
    for _ in range(n_samples):
        par = g.choice(posterior)
        wantp += list(pred.sample(par, times, n_samples, g, return_df=False)[0, :, 0])
    ctx.spec('C18.readback/posterior_predictive_derived_dataset', not isinstance(got, str)
             and core.close(got, wantp, 1e-12), inp, {'chi': got, 'expected': wantp, 'seed': seed,
                                                      'rows (raw chain, raw draw)': rows})


def individual_dataset_case(ctx, chi, rng, k):
    """the dataset of a non-hierarchical LogPosterior, fed back to the two consumers"""
    n_mech = int(rng.integers(1, 4))
    tseed = int(rng.integers(0, 1000))
    ll = chi.LogLikelihood(toy.ToyModel(1, n_mech, tseed), chi.GaussianErrorModel(),
                           list(rng.uniform(1, 3, 3)), [0.5, 1.0, 2.0])
    with_id = bool(rng.random() < 0.5)
    if with_id:
        ll.set_id('pat-1')
    lp = chi.LogPosterior(ll, prior_for(n_mech + 1, tseed))
    inp = {'kind': 'individual', 'k': k, 'n_mech': n_mech, 'toy_seed': tseed, 'with_id': with_id}
    ctx.case('individual/n%d' % n_mech, nontrivial=False, sample=inp)
    fmt, err = format_case(ctx, chi, lp, 'individual', inp, rng)
    res = initial_case(ctx, chi, lp, None, None, [], 'individual', inp, rng, 1)
    if res is not None:
        x0, seed, n = res
        np.random.seed(seed)
        want = np.asarray(lp.get_log_prior().sample(n), float)
        ctx.spec('C18.initial_structure/individual', np.array_equal(x0, want), inp)
    if fmt is None:
        return
    ds, chains, names = fmt[0], fmt[1], fmt[2]
    # the dataset may use the model's names in exchanged / shifted roles (column k still belongs to parameter k)
    ren, xmap = exchange_names(rng, list(names), {})
    if ren:
        ds = ds.rename(ren)
        inp = dict(inp, renamed=ren, param_map=[[a_, b_] for a_, b_ in xmap.items()])
    else:
        xmap = {}
    n_chains, n_draws, _ = chains.shape
    pred = chi.PredictiveModel(toy.ToyModel(1, n_mech, tseed), [chi.GaussianErrorModel()])
    seed = pick_seed(rng)
    shared = None
    if rng.random() < 0.5:
        # the PredictiveModel / the log-likelihood served another consumer with another name map before
        shared = other_map(rng, list(names), xmap, [str(v) for v in ds.data_vars])
        inp = dict(inp, earlier_param_map=[[a_, b_] for a_, b_ in shared.items()])
        try:
            chi.PosteriorPredictiveModel(pred, ds, param_map=shared)
        except Exception as e:  # noqa
            ctx.spec('C18.readback/other_model_on_shared_predictive_model', False, inp,
                     {'constructor raised': repr(e)[:200]})
        try:
            chi.compute_pointwise_loglikelihood(ll, ds, param_map=shared)
        except Exception:  # noqa
            pass
    try:
        df = chi.PosteriorPredictiveModel(pred, ds, param_map=xmap or None).sample([0.5, 2.0], n_samples=2,
                                                                               seed=seed)
        got = list(np.asarray(df['Value'], float))
    except Exception as e:  # noqa
        got = core.errkind(e)
    posterior = chains.reshape(n_chains * n_draws, -1)
    g = np.random.default_rng(seed)
    want = []
    for _ in range(2):
        par = g.choice(posterior)
        want += list(pred.sample(par, [0.5, 2.0], 2, g, return_df=False)[0, :, 0])
    ctx.spec('C18.readback/posterior_predictive' if shared is None else
             'C18.readback/posterior_predictive_shared_predictive_model',
             not isinstance(got, str) and core.close(got, want, 1e-12), inp, {'chi': got, 'expected': want})
    try:
        pw = chi.compute_pointwise_loglikelihood(ll, ds, param_map=xmap or None)
        gotp = np.asarray(pw.values, float)
    except Exception as e:  # noqa
        gotp = core.errkind(e)
    wantp = np.array([[ll.compute_pointwise_ll(chains[ci, di]) for di in range(n_draws)]
                      for ci in range(n_chains)], float)
    ctx.spec('C18.readback/pointwise_individual_dataset' if shared is None else
             'C18.readback/pointwise_loglikelihood_after_call_with_other_map', not isinstance(gotp, str) and
             gotp.shape == wantp.shape and core.close(gotp, wantp, 1e-12), inp,
             {'chi': gotp if isinstance(gotp, str) else 'array'})
    derived_dataset_case(ctx, chi, rng, ds, chains, ll, pred, list(range(chains.shape[2])), None, xmap, inp, False)


# ----------------------------------------------------------------------------------------
# optimisation table, initial points of the controllers
# ----------------------------------------------------------------------------------------
BREAKS = [RuntimeError, ValueError, FloatingPointError, ArithmeticError, KeyError, ZeroDivisionError]


def recording_optimiser(base, limits, book):
    """an optimiser handed to the controller through set_optimiser: every instance (one per run) notes the
    point it was started from and the points it proposed, and — where `limits[run]` says so — breaks down
    (raises from ask) after that many iterations, as an optimiser that meets a numerical problem does"""
    class Recording(base):
        def __init__(self, x0, sigma0=None, boundaries=None):
            super().__init__(x0, sigma0, boundaries)
            self._rec = {'x0': np.array(x0, float), 'asked': [], 'asks': 0, 'run': len(book), 'broke': False}
            book.append(self._rec)

        def ask(self):
            rec = self._rec
            lim = limits[rec['run']] if rec['run'] < len(limits) else None
            if lim is not None and rec['asks'] >= lim[0]:
                rec['broke'] = True
                raise lim[1]('the run breaks down')
            rec['asks'] += 1
            xs = super().ask()
            rec['asked'] += [np.array(x, float) for x in xs]
            return xs
    Recording.__name__ = base.__name__
    return Recording


def table_case(ctx, chi, lp, label, inp, rng, expected_id=False):
    """OptimisationController.run: the table pairs estimate / name / ID / score / run, block by block.
    Runs may break down (any subset of the runs, after 0-3 iterations): a run that produced no estimates is
    tabulated as missing values under its own run number — never with the numbers of another run.
    `expected_id`: for an individual posterior the label its log-likelihood was given (None: no label)"""
    seed = pick_seed(rng, 1000)
    try:
        ctrl = chi.OptimisationController(lp, seed=seed)
    except Exception:  # noqa
        return
    n_runs = int(rng.integers(1, 5))
    ctrl.set_n_runs(n_runs)
    ctrl.set_parallel_evaluation(False)
    n_par = lp.n_parameters()
    book, limits = [], []
    mode = rng.random()
    recorded = mode >= 0.25
    if recorded:
        bases = [pints.NelderMead] if n_par < 2 else [pints.CMAES, pints.CMAES, pints.NelderMead, pints.XNES,
                                                      pints.SNES]
        base = bases[int(rng.integers(len(bases)))]
        if mode >= 0.55:
            limits = [[int(rng.integers(0, 4)), BREAKS[int(rng.integers(len(BREAKS)))]] if rng.random() < 0.45
                      else None for _ in range(n_runs)]
            if n_runs >= 2 and rng.random() < 0.5:      # a finished run followed by a broken one
                j = int(rng.integers(1, n_runs))
                limits[j - 1] = None
                limits[j] = [int(rng.integers(0, 4)), BREAKS[int(rng.integers(len(BREAKS)))]]
        ctrl.set_optimiser(recording_optimiser(base, limits, book))
    elif n_par < 2 or mode < 0.12:
        ctrl.set_optimiser(pints.NelderMead)
    inp = dict(inp, table={'seed': seed, 'n_runs': n_runs, 'recorded': bool(recorded),
                           'breaks': [None if v is None else [v[0], v[1].__name__] for v in limits]})
    try:
        with np.errstate(all='ignore'), contextlib.redirect_stdout(io.StringIO()):
            res = ctrl.run(n_max_iterations=int(rng.integers(6, 11)))
    except Exception as e:  # noqa
        if any(rec['broke'] for rec in book):
            # the break-down is passed on to the caller: no table, nothing mispaired
            ctx.branches.add('table:run_raised:' + core.errkind(e))
            return
        raise
    names = lp.get_parameter_names()
    if expected_id is False:
        ids = lp.get_id()
        id_spec = list(ids)
    else:
        ids = [expected_id] * len(names)
        id_spec = expected_id
    K = len(names)
    attributed = recorded and len(book) == n_runs
    broke = [bool(attributed and book[r]['broke']) for r in range(n_runs)]

    def own_point(est, r):
        return any(p.shape == est.shape and np.allclose(est, p, rtol=1e-12, atol=0.0) for p in book[r]['asked'])
    if attributed:
        # the runs start from the posterior's initial points for this seed, run by run
        with np.errstate(all='ignore'):
            want = np.asarray(lp.sample_initial_parameters(n_samples=n_runs, seed=seed), float)
        got0 = np.array([rec['x0'] for rec in book])
        ctx.spec('C18.controller_initial_points/optimisation', got0.shape == want.shape and
                 np.allclose(got0, want, rtol=1e-12, atol=0.0), inp, {'started_from': got0, 'expected': want})
    ok = list(res.columns) == ['ID', 'Parameter', 'Estimate', 'Score', 'Run'] and len(res) == n_runs * K
    outcomes = []
    detail = {'n_runs': n_runs, 'K': K, 'rows': len(res), 'broken_runs': [r + 1 for r in range(n_runs) if broke[r]]}
    broken_ok = True
    if ok:
        for r in range(n_runs):
            blk = res.iloc[r * K:(r + 1) * K]
            est = np.asarray(blk['Estimate'], float)
            sc = np.asarray(blk['Score'], float)
            idcol = [None if (v is None or (isinstance(v, float) and math.isnan(v))) else v for v in blk['ID']]
            if list(blk['Parameter']) != names or idcol != list(ids) or list(blk['Run']) != [r + 1] * K:
                ok = False
                detail['block'] = r
                detail['ids'] = [idcol, list(ids)]
                break
            if not (np.all(sc == sc[0]) or np.all(np.isnan(sc))):
                ok = False
                detail['score_not_constant'] = r
                break
            with np.errstate(all='ignore'):
                v = float(lp(est)) if not np.any(np.isnan(est)) else float('nan')
            if broke[r]:
                missing = bool(np.all(np.isnan(est)) and np.all(np.isnan(sc)))
                if not (missing or (own_point(est, r) and core.close(v, float(sc[0]), 1e-9))):
                    broken_ok = False
                    detail['broken_run_reported_as'] = {'run': r + 1, 'estimates': est, 'score': float(sc[0])}
                    break
                outcomes.append(None if missing else [list(est), float(sc[0])])
                continue
            # (a non-finite score is pints' "nothing found yet" marker, not an evaluation of the estimates)
            if math.isfinite(sc[0]) and not core.close(v, float(sc[0]), 1e-9):
                ok = False
                detail['score_of_estimates'] = [v, float(sc[0])]
                break
            if attributed and math.isfinite(sc[0]) and not own_point(est, r):
                ok = False
                detail['estimates_not_proposed_in_their_run'] = {'run': r + 1, 'estimates': est}
                break
            outcomes.append([list(est), float(sc[0])])
    ctx.spec('C18.table_pairs/' + label, ok, inp, detail)
    if any(broke):
        ctx.branches.add('table:broken_run')
        ctx.spec('C18.table_pairs/broken_run_keeps_its_own_row', broken_ok, inp, detail)
    if ok and broken_ok:
        mo = ctx.model('C18.table_outcomes', id_spec, names, outcomes)
        chi_rows = [[None if (v is None or (isinstance(v, float) and math.isnan(v))) else v, p, float(e), float(s),
                     int(rn)] for v, p, e, s, rn in zip(res['ID'], res['Parameter'], res['Estimate'],
                                                        res['Score'], res['Run'])]
        ctx.agree('C18.table/' + label, ['ok', chi_rows], mo, inp)
    if ok and broken_ok and rng.random() < 0.2:
        # the same controller is run once more: the table handed out first keeps describing the first
        # optimisation, the new table is labelled like the first
        held = res.copy(deep=True)
        try:
            with np.errstate(all='ignore'), contextlib.redirect_stdout(io.StringIO()):
                res2 = ctrl.run(n_max_iterations=3)
        except Exception as e:  # noqa
            if any(rec['broke'] for rec in book[n_runs:]):
                return
            raise
        idcol2 = [None if (v is None or (isinstance(v, float) and math.isnan(v))) else v for v in res2['ID']]
        ctx.spec('C18.table_pairs/second_run_of_the_controller',
                 list(res2.columns) == list(held.columns) and len(res2) == n_runs * K
                 and idcol2 == list(ids) * n_runs and list(res2['Parameter']) == names * n_runs
                 and list(res2['Run']) == [r + 1 for r in range(n_runs) for _ in range(K)], inp,
                 {'rows': len(res2)})
        ctx.spec('C18.table_pairs/first_table_held', res.equals(held), inp)


def controller_initial_points(ctx, chi, rng, k):
    """a real SamplingController.run on a recording posterior (individual or hierarchical):
    * the points a controller starts from are sample_initial_parameters(n_runs, seed), run by run;
    * every (chain, draw) row of the returned dataset, re-assembled with get_parameter_names() / get_id(),
      is a parameter vector the sampler actually evaluated (a permuted / mislabelled column would not be)"""
    tseed = int(rng.integers(0, 1000))
    log = []
    hier = bool(k % 2)
    if hier:
        class RecH(chi.HierarchicalLogPosterior):
            def __call__(self, parameters):
                log.append(np.array(parameters, float))
                return super().__call__(parameters)
        c = gen_config(rng, allow_covp=True)
        c['reduced'] = False
        # the last dimension is the noise scale: keep it positive so that the sampler's start is finite
        c['cfg'] = list(c['cfg'][:-1]) + [(['LN', 'LNnc', 'P', 'H', 'TG'][int(rng.integers(5))], c['cfg'][-1][1])]
        _, h, pm, subs, cov, lls = build_hier(chi, c)
        lp = RecH(h, prior_for(h.n_parameters(exclude_bottom_level=True), c['toy_seed']))
        desc = {'config': c}
    else:
        n_mech = int(rng.integers(1, 4))

        class Rec(chi.LogPosterior):
            def __call__(self, parameters):
                log.append(np.array(parameters, float))
                return super().__call__(parameters)
        ll = chi.LogLikelihood(toy.ToyModel(1, n_mech, tseed), chi.GaussianErrorModel(), [1.0, 2.0, 1.5],
                               [0.5, 1.0, 2.0])
        lp = Rec(ll, prior_for(n_mech + 1, tseed))
        desc = {'n_mech': n_mech, 'toy_seed': tseed}
    seed = pick_seed(rng, 1000)
    n_runs = int(rng.integers(1, 4))
    inp = {'kind': 'controller_initial', 'k': k, 'seed': seed, 'n_runs': n_runs, **desc}
    ctx.case('controller_run/%s/runs%d' % ('hier' if hier else 'individual', n_runs),
             nontrivial='controller_run/%s/%d/%d' % (hier, n_runs, lp.n_parameters()) if hier else False)
    ctrl = chi.SamplingController(lp, seed=seed)
    ctrl.set_n_runs(n_runs)
    ctrl.set_parallel_evaluation(False)
    want = np.asarray(lp.sample_initial_parameters(n_samples=n_runs, seed=seed), float)
    log.clear()
    with np.errstate(all='ignore'):
        ds = ctrl.run(n_iterations=int(rng.integers(2, 6)))
    first = np.array(log[:n_runs])
    ctx.spec('C18.controller_initial_points', first.shape == want.shape and np.array_equal(first, want), inp,
             {'first_evaluations': first, 'expected': want})
    names = lp.get_parameter_names()
    ids = lp.get_id()
    if not isinstance(ids, list):
        ids = [None] * len(names)
    evaluated = {np.asarray(v, float).tobytes() for v in log}
    ok = True
    detail = {}
    try:
        cols = []
        for nm, i in zip(names, ids):
            da = ds[nm]
            cols.append(np.asarray(da.values if i is None else da.sel(individual=i).values, float))
        rows = np.stack(cols, axis=-1)        # (chain, draw, parameter)
        for ci in range(rows.shape[0]):
            for di in range(rows.shape[1]):
                if rows[ci, di].tobytes() not in evaluated:
                    ok = False
                    detail = {'chain': ci, 'draw': di, 'row': rows[ci, di]}
    except Exception as e:  # noqa
        ok = False
        detail = {'raised': repr(e)[:200]}
    ctx.spec('C18.run_dataset_rows_are_evaluated_points', ok, inp, detail)
    if ok and not hier:
        # the dataset of the real run, trimmed the usual ways, fed to the pointwise evaluation and a predictive model
        raw = np.stack([np.asarray(ds[nm].values, float) for nm in names], axis=-1)
        pred = chi.PredictiveModel(toy.ToyModel(1, n_mech, tseed), [chi.GaussianErrorModel()])
        derived_dataset_case(ctx, chi, rng, ds, raw, ll, pred, list(range(len(names))), None, {}, inp, False)


# ----------------------------------------------------------------------------------------
# population filter posterior
# ----------------------------------------------------------------------------------------
def filter_case(ctx, chi, rng, k):
    cfg = []
    n_mech = int(rng.integers(2, 4))
    left = n_mech
    kinds = ['G', 'LN', 'P', 'H', 'Gnc']
    while left > 0:
        nd = int(min(left, rng.integers(1, 3)))
        cfg.append((kinds[int(rng.integers(len(kinds)))], nd))
        left -= nd
    if all(kd in ('P', 'H') for kd, _ in cfg):
        cfg[0] = ('G', cfg[0][1])
    n_sim = int(rng.integers(2, 5))
    n_times = int(rng.integers(1, 4))
    tseed = int(rng.integers(0, 1000))
    fixed_sigma = bool(rng.random() < 0.5)
    # 1-3 observables (model outputs); a fixed sigma may switch the noise of an output off (sigma = 0)
    n_obs = [1, 2, 2, 3][int(rng.integers(4))]
    sig = [[0.4, 0.3, 0.6, 0.0][int(rng.integers(4 if n_obs > 1 else 3))] for _ in range(n_obs)]
    log_scale = bool(rng.random() < 0.25)
    inp = {'kind': 'filter', 'k': k, 'cfg': cfg, 'n_sim': n_sim, 'n_times': n_times, 'toy_seed': tseed,
           'fixed_sigma': fixed_sigma, 'n_observables': n_obs, 'sigma': sig if fixed_sigma else None,
           'error_on_log_scale': log_scale}
    subs = [make_sub(chi, kd, nd) for kd, nd in cfg]
    pm = chi.ComposedPopulationModel(subs) if len(subs) > 1 else subs[0]
    obs = rng.uniform(1.0, 3.0, size=(4, n_obs, n_times))
    times = list(np.arange(1, n_times + 1) * 0.5)
    pm.set_n_ids(n_sim)
    n_top = pm.n_parameters() + (0 if fixed_sigma else n_obs)

    def build(observations):
        return chi.PopulationFilterLogPosterior(
            chi.GaussianFilter(observations), times, toy.ToyModel(n_obs, n_mech, tseed), pm,
            prior_for(n_top, tseed), sigma=list(sig) if fixed_sigma else None, n_samples=n_sim,
            error_on_log_scale=log_scale)
    try:
        lp = build(obs)
    except Exception as e:  # noqa
        ctx.notes.append('filter posterior not constructible: %s %r' % (cfg, repr(e)[:120]))
        return
    special = any(kd in ('P', 'H') for kd, _ in cfg)
    ctx.case('filter/%s/obs%d' % ('+'.join(kd for kd, _ in cfg), n_obs),
             nontrivial='filter/%s/sim%d/t%d/o%d' % (cfg, n_sim, n_times, n_obs)
             if special or (n_obs >= 2 and n_times >= 2) else False, sample=inp)
    fmt, _ = format_case(ctx, chi, lp, 'filter', inp, rng)
    flags = sub_flags(chi, pm)
    seed = pick_seed(rng)
    n = int(rng.integers(1, 3))
    try:
        x0 = np.asarray(lp.sample_initial_parameters(n_samples=n, seed=seed), float)
    except Exception as e:  # noqa
        ctx.spec('C18.initial_structure/filter', False, inp, {'raised': repr(e)[:200]})
        return
    ctx.spec('C18.initial_dimension/filter', x0.shape == (n, lp.n_parameters()), inp, {'shape': list(x0.shape)})
    x1 = np.asarray(lp.sample_initial_parameters(n_samples=n, seed=seed), float)
    ctx.spec('C18.initial_reproducible/filter', np.array_equal(x0, x1), inp)
    with np.errstate(all='ignore'):
        vals = [float(lp(x)) for x in x0]
    ctx.spec('C18.initial_finite/filter', all(not math.isnan(v) and v < math.inf for v in vals)
             and any(math.isfinite(v) for v in vals), inp, {'scores': vals})
    # replay
    n_topp = lp.n_parameters(exclude_bottom_level=True)
    np.random.seed(seed)
    top = np.asarray(lp.get_log_prior().sample(n), float).reshape(n, n_topp)
    r = np.random.default_rng(seed + 1)
    n_pop = pm.n_parameters()
    pm2 = lp.get_population_model()
    pops = [np.asarray(pm2.sample(parameters=top[s, :n_pop], n_samples=n_sim, seed=r), float).reshape(n_sim, -1)
            for s in range(n)]
    n_eps = x0.shape[1] - n_topp - n_sim * sum(nd for nd, _, sp in flags if not sp)
    eps = np.asarray(r.normal(loc=0, scale=1, size=(n, n_sim * n_times * n_obs)), float)
    for s in range(n):
        mo = ctx.model('C18.init_row_filter', flags, list(top[s]), [list(v) for v in pops[s]], list(eps[s]))
        ctx.agree('C18.initial/filter', x0[s], mo[0], inp, rtol=0.0)
        ctx.spec('C18.initial_structure/filter', n_eps == eps.shape[1] and np.array_equal(x0[s], np.asarray(mo[0])),
                 inp, {'row': s})
    filter_noise_labels(ctx, chi, rng, lp, build, obs, n_sim, n_times, n_obs, x0, vals, inp,
                        sum(nd for nd, _, sp in flags if not sp))
    if k % 5 == 0:
        # the optimisation table of a filter posterior: its Parameter / ID columns are these names / IDs
        table_case(ctx, chi, lp, 'filter', inp, rng)


def filter_noise_labels(ctx, chi, rng, lp, build, obs, n_sim, n_times, n_obs, x0, vals, inp, n_hdim):
    """`get_parameter_names()` / `get_id()` of a population-filter posterior — the 'Parameter' / 'ID' columns of
    the optimisation table, the variables / individual coordinate of the dataset: the entry named
    '<output> Epsilon time <k>' of 'Sim. <s>' is the noise realisation of THAT output at THAT (k-th) time.
    Observed through the score only: the noise of output o at time k enters the simulated measurements that are
    compared with the data of output o at time k, so the difference between the scores of two posteriors whose
    data differ in the cell (o, k) only responds to moving that entry — and to no noise entry named otherwise."""
    names = lp.get_parameter_names()
    ids = lp.get_id()
    outputs = toy.ToyModel(n_obs, 1, 0).outputs()
    want = {('%s Epsilon time %d' % (outputs[o], t + 1), 'Sim. %d' % (s + 1)): (s, o, t)
            for s in range(n_sim) for o in range(n_obs) for t in range(n_times)}
    where = {}
    for p, key in enumerate(zip(names, ids)):
        if key in want:
            where.setdefault(key, []).append(p)
    once = len(names) == len(ids) == lp.n_parameters() and all(len(where.get(key, [])) == 1 for key in want)
    ctx.spec('C18.filter_names/every_noise_realisation_named_once', once, inp,
             {'names': names, 'ids': ids, 'missing or repeated': [list(key) for key in want
                                                                  if len(where.get(key, [])) != 1][:4]})
    if not once:
        return
    # model: the slot `parameters[end_bottom:].reshape(n_sim, n_observables, n_times)[s, o, t]` of the vector
    mo = ctx.model('C18.eps_slots', lp.n_parameters(exclude_bottom_level=True), n_hdim, n_sim, n_obs, n_times)
    ctx.agree('C18.filter_names/noise_slots', [where[key][0] for key in want], mo[0], inp)
    finite = [i for i, v in enumerate(vals) if math.isfinite(v)]
    if not finite:
        ctx.branches.add('filter_names:no_finite_start')
        return
    base = np.array(x0[finite[0]], float)
    sigma = inp['sigma']
    if sigma is None:
        sigma = [1.0] * n_obs          # inferred noise scales: the prior's support is positive, every output is noisy
    cells = [(o, t) for o in range(n_obs) for t in range(n_times)]
    others = []
    for o, t in cells:
        shifted = obs.copy()
        shifted[:, o, t] += 1.0          # other data for output o at time t, the same everywhere else
        others.append(build(shifted))
    with np.errstate(all='ignore'):
        d0 = np.array([float(lp(base)) - float(b(base)) for b in others])
    if not np.all(np.isfinite(d0)) or abs(vals[finite[0]]) > 1e6 or np.any(np.abs(d0) > 1e6):
        ctx.branches.add('filter_names:degenerate_start')       # (simulated individuals that nearly coincide)
        return
    keys = list(want)
    if len(keys) > 14:
        keys = [keys[int(j)] for j in rng.choice(len(keys), size=14, replace=False)]
    delta = [0.7, -0.9, 1.3][int(rng.integers(3))]
    problems = []
    for key in keys:
        s, o, t = want[key]
        x = base.copy()
        x[where[key][0]] += delta
        with np.errstate(all='ignore'):
            a = float(lp(x))
            d = np.array([a - float(b(x)) for b in others])
        if not np.all(np.isfinite(d)):
            continue
        scale = 1.0 + abs(a) + np.abs(d) + np.abs(d0)
        # (float noise of a difference of two scores is some 1e-15 of their size; between the two thresholds:
        # no verdict)
        responds = np.abs(d - d0) > 1e-9 * scale
        silent = np.abs(d - d0) <= 1e-11 * scale
        for ci, (o2, t2) in enumerate(cells):
            should = (o2, t2) == (o, t) and sigma[o] > 0
            if (should and silent[ci]) or (not should and responds[ci]):
                problems.append({'entry': list(key), 'position': where[key][0],
                                 'data changed for': [outputs[o2], 'time %d' % (t2 + 1)],
                                 'score difference moved by': float(d[ci] - d0[ci]),
                                 'expected to respond': bool(should)})
    ctx.branches.add('filter_names:obs%d/times%d' % (min(n_obs, 2), min(n_times, 2)))
    ctx.spec('C18.filter_names/noise_entry_labels_its_output_and_time', not problems, inp,
             {'problems': problems[:4], 'moved by': delta, 'sigma': [float(v) for v in sigma]})


# ----------------------------------------------------------------------------------------
def hier_case(ctx, chi, c, k, rng, kind='hier'):
    inp = {'kind': kind, 'k': k, 'config': c}
    try:
        lp, h, pm, subs, cov, lls = build_hier(chi, c)
    except Exception as e:  # noqa
        ctx.notes.append('not constructible: %s %r' % (c['cfg'], repr(e)[:120]))
        return
    flags = sub_flags(chi, pm)
    kinds = [kd for kd, _ in c['cfg']]
    special = any(f[2] for f in flags)
    hier = any(not f[2] for f in flags)
    nontriv = (special and hier) or (c['n_ids'] >= 2 and sum(f[0] for f in flags if not f[2]) >= 2)
    ctx.case('hier/%s' % '+'.join(kinds), nontrivial='hier/%s/ids%d/red%d' % (c['cfg'], c['n_ids'], c['reduced'])
             if nontriv else False, sample=inp)
    res = initial_case(ctx, chi, lp, pm, cov, flags, 'hierarchical', inp, rng, c['n_ids'])
    if res is not None:
        x0, seed, n = res
        hier_initial_structure(ctx, chi, lp, pm, cov, flags, x0, seed, n, inp, c['n_ids'])
    fmt, err = format_case(ctx, chi, lp, 'hierarchical', inp, rng)
    if fmt is None:
        if err is not None:
            # every constructible posterior can be handed to a controller (its initial points exist)
            ctx.branches.add('controller:' + err)
            ctx.spec('C18.controller_constructible', False, inp, {'raised': err})
        return
    if not c['reduced'] and any(not f[2] for f in flags):
        readback_case(ctx, chi, c, fmt, lls, inp, rng)
    if k % 4 == 0:
        table_case(ctx, chi, lp, 'hierarchical', inp, rng)


def corpus(ctx, chi):
    rng = ctx.sub_rng(999)
    # witness of C18_initial_structure_counterexample: wrapped pooled + Gaussian, two individuals
    c = {'cfg': [('CovP', 1), ('G', 1)], 'n_ids': 2, 'custom_ids': True, 'toy_seed': 1, 'reduced': False}
    ctx.guard(hier_case, ctx, chi, c, 0, rng, 'corpus')
    # C18_roundtrip_example: Gaussian + pooled dimension, two individuals
    c = {'cfg': [('G', 1), ('P', 1)], 'n_ids': 2, 'custom_ids': True, 'toy_seed': 2, 'reduced': False}
    ctx.guard(hier_case, ctx, chi, c, 0, rng, 'corpus')
    c = {'cfg': [('H', 1), ('LN', 2), ('P', 1)], 'n_ids': 3, 'custom_ids': False, 'toy_seed': 3, 'reduced': False}
    ctx.guard(hier_case, ctx, chi, c, 0, rng, 'corpus')


def run_one(ctx, chi, kind, k):
    rng = ctx.sub_rng({'hier': 1, 'individual': 2, 'filter': 3, 'ctrl': 4}[kind] * 1000003 + k)
    if kind == 'hier':
        ctx.guard(hier_case, ctx, chi, gen_config(rng), k, rng)
    elif kind == 'individual':
        ctx.guard(individual_dataset_case, ctx, chi, rng, k)
        if k % 2 == 0:
            # the table of an individual posterior; the log-likelihood may carry the label of its individual
            # (as every log-likelihood built from a data frame does): the ID column then shows that label
            n_mech = int(rng.integers(1, 3))
            ll = chi.LogLikelihood(toy.ToyModel(1, n_mech, k), chi.GaussianErrorModel(), [1.0, 2.0, 1.5],
                                   [0.5, 1.0, 2.0])
            label = [None, 'pat-%d' % (7 * k + 3), 'B %d' % k, k + 1, float(k + 2), '0'][int(rng.integers(6))]
            if label is not None:
                ll.set_id(label)
            expected = None if label is None else str(int(label) if isinstance(label, float) else label)
            lp = chi.LogPosterior(ll, prior_for(n_mech + 1, k))
            ctx.case('individual-table/%s' % ('labelled' if label is not None else 'unlabelled'), nontrivial=False)
            ctx.guard(table_case, ctx, chi, lp, 'individual',
                      {'kind': 'individual-table', 'k': k, 'label': label}, rng, expected)
    elif kind == 'filter':
        ctx.guard(filter_case, ctx, chi, rng, k)
    else:
        ctx.guard(controller_initial_points, ctx, chi, rng, k)


def run(ctx):
    chi = core.import_chi()
    corpus(ctx, chi)
    n = {'quick': (400, 40, 60, 16), 'thorough': (9400, 660, 1020, 90)}[ctx.tier]
    for kind, cnt in zip(('hier', 'individual', 'filter', 'ctrl'), n):
        for k in range(cnt):
            run_one(ctx, chi, kind, k)


def replay(ctx, data):
    chi = core.import_chi()
    inp = data['failing']['input']
    kind = inp.get('kind')
    if kind == 'hier':
        c = inp['config']
        c['cfg'] = [tuple(x) for x in c['cfg']]
        hier_case(ctx, chi, c, inp['k'], ctx.sub_rng(1000003 + inp['k']))
    elif kind in ('individual', 'individual-table'):
        run_one(ctx, chi, 'individual', inp['k'])
    elif kind == 'filter':
        run_one(ctx, chi, 'filter', inp['k'])
    elif kind == 'controller_initial':
        run_one(ctx, chi, 'ctrl', inp['k'])
    else:
        corpus(ctx, chi)
    print('spec failures on replay:', [(b['tag'], b['detail']) for b in ctx.spec_bad[:3]])
    print('disagreements on replay:', ctx.corr_bad[:2])
    known = {f['tag'] for f in ctx.findings if f.get('status') == 'known'}
    return 1 if any(b['tag'] not in known for b in ctx.spec_bad) else 0
