"""C03 — analytic gradients equal the true derivatives of the evaluated log-pdf"""
import math
import numpy as np
import pints

import core
import oracle
import toy
from props import c01, c02, c04

REQUIRED_THEOREMS = [
    'em_hasDerivAt', 'C03_loglik_hasDerivAt', 'C03_s1_layout', 'C03_s1_mech_entry', 'C03_score_agree',
    'C03_posterior_grad', 'C03_hier_chain']
RULE = ('individual likelihoods (1-4 outputs, any error models, random grids, optional fixed parameters), '
        'log-posteriors with pints priors, hierarchical likelihoods / posteriors over random population '
        'compositions (generator of C02); evaluateS1 is compared with __call__ (score) and with Richardson '
        'finite differences of __call__ (every coordinate); the gradient assembly is compared with the Lean '
        'model; non-trivial = >=2 outputs, or fixed parameters, or a hierarchical composition with a special or '
        'wrapped sub-model; distinct = distinct structural keys')
ASSUMPTIONS = ['the mechanistic model supplies exact output sensitivities (toy model with closed-form '
               'derivatives); the ODE solver is not involved',
               'priors are pints priors, assumed to return their own derivative',
               'population sub-model gradient formulas are C05; here their placement and the chain rule']

TAG3 = 'C03.covariate_over_pooled'
TAG22 = 'C03.sensitivities_with_all_mechanistic_parameters_fixed'


def fd_all(ctx, f, x, g, tag, inp, coords=None, retag=None):
    tag = retag or tag
    ok_all = True
    for k in (range(len(x)) if coords is None else coords):
        ok, est = oracle.grad_matches(f, np.array(x, float), k, float(g[k]))
        if not ok:
            ok_all = False
            ctx.spec(tag, False, inp, {'coordinate': k, 'analytic': float(g[k]), 'finite_difference': est})
            break
    if ok_all:
        ctx.spec(tag, True, inp)


def score_consistency(ctx, tag, call, s1, x, inp, retag=None):
    """score agreement + 'succeeds wherever finite, reports non-finite wherever not'"""
    with np.errstate(all='ignore'):
        v = float(call(x))
    try:
        with np.errstate(all='ignore'):
            s, g = s1(x)
        s = float(s)
        g = np.asarray(g, float)
    except Exception as e:  # noqa
        # "succeeds wherever plain evaluation yields a finite score, and REPORTS a non-finite score wherever
        # plain evaluation does": an exception is neither
        ctx.spec(retag or tag + ('.succeeds_where_finite' if math.isfinite(v) else '.nonfinite_reported'), False, inp,
                 {'call': v, 'evaluateS1_raised': repr(e)[:200]})
        return v, None, None
    if math.isfinite(v):
        ctx.spec(retag or tag + '.score_agrees', core.close(s, v), inp, {'call': v, 'S1': s})
    else:
        ctx.spec(retag or tag + '.nonfinite_reported', not math.isfinite(s), inp, {'call': v, 'S1': s})
    ctx.spec(retag or tag + '.gradient_length', len(g) == len(x), inp, {'len': len(g), 'n': len(x)})
    if len(g) != len(x):
        return v, s, None
    return v, s, g


def s1_tuple(obj, a):
    sc, g = obj.evaluateS1(a)
    sc = float(sc)
    return (sc, np.array(g, float)) if math.isfinite(sc) else (sc,)


def held_and_arguments(ctx, tag, obj, x, inp):
    """a gradient handed out earlier stays what it was when the object is evaluated elsewhere; the caller's
    vector is left alone"""
    x0 = np.array(x, float, copy=True)
    xa = x0.copy()
    with np.errstate(all='ignore'):
        s1, g1 = obj.evaluateS1(xa)
        snap = np.array(g1, float, copy=True)
        obj.evaluateS1(x0 * np.linspace(1.05, 1.3, len(x0)))
        obj(x0 * 0.9)
    if math.isfinite(float(s1)):
        ctx.spec(tag + '.earlier_gradient_unchanged', np.array_equal(np.asarray(g1, float), snap, equal_nan=True), inp,
                 {'then': snap, 'now': np.asarray(g1, float)})
    ctx.spec(tag + '.arguments_unchanged', np.array_equal(xa, x0, equal_nan=True), inp)


def whole_numbers(ctx, tag, obj, x, inp):
    """the same whole numbers as floats, as integers and as a list of Python ints are the same parameters:
    score and sensitivities must not depend on how they are handed over"""
    whole = np.where(np.abs(x) < 0.3, 0.0, np.where(x < 1.0, 1.0, 2.0))

    def f(p):
        s, g = obj.evaluateS1(p)
        s = float(s)
        return (s, np.asarray(g, float)) if math.isfinite(s) else (s,)
    ctx.number_types(tag + '.whole_number_parameters', f, whole, inp)


# ------------------------------------------------------------------------------------------------
def loglik_case(ctx, chi, rng, i):
    kinds, grids, obs, n_mech, psi, sig = c01.gen_case(rng)
    boundary = any(s <= 0 for s in sig) and rng.random() < 0.6
    if any(s <= 0 for s in sig) and not boundary:
        sig = [abs(s) + 0.3 for s in sig]
    # (boundary: an error parameter exactly 0 or negative stays — both evaluation kinds must say -inf there)
    _, ll = c01.build(chi, kinds, grids, obs, n_mech, i)
    names = ll.get_parameter_names()
    x_full = np.concatenate([psi, sig])
    fixed = {}
    if rng.random() < 0.35:
        k = int(rng.integers(1, len(names)))
        for j in rng.choice(len(names), size=k, replace=False):
            fixed[names[j]] = float(x_full[j])
        ll.fix_parameters(fixed)
    free = np.array([n not in fixed for n in names])
    x = x_full[free]
    inp = {'object': 'LogLikelihood', 'kinds': kinds, 'times': grids, 'obs': obs, 'n_mech': n_mech,
           'toy_seed': i, 'fixed': fixed, 'x': x}
    ctx.case('LogLikelihood/%dout%s' % (len(kinds), '+fixed' if fixed else ''),
             nontrivial=('LL/%s/%s/%s' % (''.join(kinds), [len(g) for g in grids], sorted(fixed)))
             if (len(kinds) >= 2 or fixed) else False, sample=inp)
    all_mech_fixed = all(n in fixed for n in names[:n_mech])
    with np.errstate(all='ignore'):
        v = float(ll(x))
    try:
        with np.errstate(all='ignore'):
            s, g = ll.evaluateS1(x)
    except Exception as e:  # noqa
        ctx.spec(TAG22 if all_mech_fixed else ('C03.LogLikelihood.succeeds_where_finite' if math.isfinite(v)
                                               else 'C03.LogLikelihood.nonfinite_reported'),
                 False, inp, {'call': v, 'raised': repr(e)[:200]})
        return
    v, s, g = score_consistency(ctx, 'C03.LogLikelihood', ll, ll.evaluateS1, x, inp)
    if g is None or not math.isfinite(v):
        return
    fd_all(ctx, ll, x, g, 'C03.LogLikelihood.gradient_is_derivative', inp)
    if fixed and len(fixed) < len(names) and not boundary:
        # the set of fixed parameters changes in ONE call (one released, another fixed) after sensitivities
        # were computed: the gradient is the one of the new configuration
        old_n = sorted(fixed)[int(rng.integers(len(fixed)))]
        new_n = [n for n in names if n not in fixed][int(rng.integers(len(names) - len(fixed)))]
        fixed2 = dict(fixed)
        del fixed2[old_n]
        fixed2[new_n] = float(x_full[names.index(new_n)])
        ll.fix_parameters({old_n: None, new_n: fixed2[new_n]})
        free2 = np.array([n not in fixed2 for n in names])
        x2 = x_full[free2]
        inp2 = dict(inp, fixed=fixed2, x=x2, fixed_before=fixed)
        if any(n in fixed2 for n in names[:n_mech]) and all(n in fixed2 for n in names[:n_mech]):
            pass        # (every mechanistic parameter fixed: TAG22 covers that configuration)
        else:
            v2, s2, g2 = score_consistency(ctx, 'C03.LogLikelihood', ll, ll.evaluateS1, x2, inp2)
            if g2 is not None and math.isfinite(v2):
                fd_all(ctx, ll, x2, g2, 'C03.LogLikelihood.gradient_is_derivative', inp2)
        ll.fix_parameters({new_n: None, old_n: fixed[old_n]})
    whole_numbers(ctx, 'C03.LogLikelihood', ll, x, inp)
    held_and_arguments(ctx, 'C03.LogLikelihood', ll, x, inp)
    if i % 3 == 1:
        ctx.inplace_reuse('C03.LogLikelihood.array_changed_in_place_between_calls',
                          lambda a: s1_tuple(ll, a), x, x * np.linspace(1.1, 1.3, len(x)), inp)
    # correspondence with the Lean model of the assembly (unfixed objects)
    if not fixed:
        model = toy.ToyModel(len(kinds), n_mech, i, c01.offsets(kinds, i))
        outs = []
        for o in range(len(kinds)):
            yb = [model.value(psi, o, t) for t in grids[o]]
            S = [[model.dvalue(psi, o, t, k) for k in range(n_mech)] for t in grids[o]]
            outs.append([yb, S, list(obs[o])])
        raw, mg = ctx.model('C03.s1', n_mech, kinds, list(sig), outs)
        ctx.agree('C03.s1.score', s, raw, inp)
        ctx.agree('C03.s1.gradient', g, mg, inp, rtol=1e-8)
    # posterior
    if i % 3 == 0:
        pri = []
        for j in range(len(x)):
            r = rng.random()
            pri.append(pints.GaussianLogPrior(1.0, 2.0) if r < 0.5 else
                       pints.LogNormalLogPrior(0.0, 1.0) if r < 0.8 else pints.UniformLogPrior(0.0, 10.0))
        prior = pints.ComposedLogPrior(*pri) if len(pri) > 1 else pri[0]
        post = chi.LogPosterior(ll, prior)
        pinp = dict(inp, object='LogPosterior')
        pv, ps, pg = score_consistency(ctx, 'C03.LogPosterior', post, post.evaluateS1, x, pinp)
        if pg is not None and math.isfinite(pv):
            fd_all(ctx, post, x, pg, 'C03.LogPosterior.gradient_is_derivative', pinp)
            lp, dlp = prior.evaluateS1(x)
            ctx.agree('C03.posterior_grad_is_sum', pg, np.asarray(dlp) + g, pinp, rtol=1e-8)


# ------------------------------------------------------------------------------------------------
def hier_case(ctx, chi, rng, i, subs=None, n_ids=None):
    if subs is None:
        n_ids, subs = c02.gen_case(rng)
    D = sum(nd for _, nd, _, _ in subs)
    seed = int(rng.integers(10 ** 6))
    bare = len(subs) == 1 and rng.random() < 0.5
    reduced = rng.random() < 0.2
    models = [c02.make_sub(chi, *s, n_ids=n_ids) for s in subs]
    pm = models[0] if bare else chi.ComposedPopulationModel(models)
    lls = []
    for _ in range(n_ids):
        nt = int(rng.integers(1, 4))
        times = np.sort(rng.choice(np.arange(1, 20) * 0.5, nt, replace=False))
        lls.append(chi.LogLikelihood(toy.ToyModel(1, D - 1, seed), chi.GaussianErrorModel(),
                                     list(rng.uniform(0.5, 3.0, nt)), list(times)))
    n_cov = sum(nc for _, _, nc, _ in subs)
    cov = rng.normal(size=(n_ids, n_cov)) * 0.3 if n_cov else None
    pm.set_n_ids(n_ids)
    names_top = pm.get_parameter_names()
    top = rng.uniform(0.5, 1.5, pm.n_parameters())
    t = 0
    for code, nd, nc, sel in subs:
        npop = c02.per_dim(code, n_ids) * nd
        ncp = len(c02.stored_selection(code, nd, nc, sel, n_ids)) * nc
        top[t + npop:t + npop + ncp] = rng.normal(size=ncp) * 0.2
        t += npop + ncp
    fixed = {}
    if reduced and len(set(names_top)) == len(names_top):
        pm = chi.ReducedPopulationModel(pm)
        for j in rng.choice(len(names_top), size=int(rng.integers(1, len(names_top) + 1)), replace=False):
            fixed[names_top[j]] = float(top[j])
        pm.fix_parameters(fixed)
    free = np.array([n not in fixed for n in names_top])
    boundary = rng.random() < 0.06 and len(top) > 0
    if boundary:
        top[int(rng.integers(len(top)))] = float(rng.choice([0.0, -0.6]))
    hll = chi.HierarchicalLogLikelihood(lls, pm, covariates=cov)
    nH = sum(nd for c, nd, _, _ in subs if c not in (5, 6))
    bottom = rng.uniform(0.5, 1.5, n_ids * nH)
    x = np.concatenate([bottom, top[free]])
    cov_pooled = any(c == 5 and nc > 0 for c, _, nc, _ in subs)
    inp = {'object': 'HierarchicalLogLikelihood', 'n_ids': n_ids,
           'subs': [[c02.KINDS[c], nd, nc, sel] for c, nd, nc, sel in subs], 'bare': bare, 'fixed': fixed,
           'x': x, 'cov': cov, 'seed': seed}
    codes = [c for c, _, _, _ in subs]
    nontriv = any(c in (5, 6) for c in codes) or n_cov or fixed or len(subs) >= 3
    ctx.case('Hierarchical/nsub%d%s%s' % (len(subs), '+cov' if n_cov else '', '+reduced' if fixed else ''),
             nontrivial=('H/%s/%s' % ([(c02.KINDS[c], nd, nc) for c, nd, nc, _ in subs], bool(fixed)))
             if nontriv else False, sample=inp)
    tag = TAG3 if cov_pooled else 'C03.Hierarchical'
    with np.errstate(all='ignore'):
        v = float(hll(x))
    try:
        with np.errstate(all='ignore'):
            s, g = hll.evaluateS1(x)
    except Exception as e:  # noqa
        ctx.spec(TAG3 if cov_pooled else ('C03.Hierarchical.succeeds_where_finite' if math.isfinite(v)
                                          else 'C03.Hierarchical.nonfinite_reported'), False, inp,
                 {'call': v, 'raised': repr(e)[:200]})
        return
    rt = TAG3 if cov_pooled else None
    v, s, g = score_consistency(ctx, 'C03.Hierarchical', hll, hll.evaluateS1, x, inp, retag=rt)
    if g is None or not math.isfinite(v) or boundary:
        return          # (at a boundary value finite differences would step outside the support)
    fd_all(ctx, hll, x, g, (TAG3 if cov_pooled else 'C03.Hierarchical.gradient_is_derivative'), inp)
    if not cov_pooled:
        whole_numbers(ctx, 'C03.Hierarchical', hll, x, inp)
    held_and_arguments(ctx, 'C03.Hierarchical', hll, x, inp)
    if i % 3 == 1:
        ctx.inplace_reuse('C03.Hierarchical.array_changed_in_place_between_calls',
                          lambda a: s1_tuple(hll, a), x, x * np.linspace(1.1, 1.3, len(x)), inp)
    # glue: placement of the sub-models' blocks (Lean model) against the composed model's result
    if not fixed and not bare:
        try:
            placement(ctx, chi, subs, models, n_ids, bottom, top, cov, lls, pm, inp)
        except Exception as e:  # noqa
            ctx.notes.append('placement correspondence skipped: ' + repr(e)[:120])
    if i % 3 == 0 and len(x) > 0:
        prior = pints.ComposedLogPrior(*[pints.GaussianLogPrior(1.0, 3.0) for _ in range(int(np.sum(free)))]) \
            if int(np.sum(free)) > 1 else pints.GaussianLogPrior(1.0, 3.0)
        if int(np.sum(free)) == 0:
            return
        post = chi.HierarchicalLogPosterior(hll, prior)
        pinp = dict(inp, object='HierarchicalLogPosterior')
        pv, ps, pg = score_consistency(ctx, 'C03.HierarchicalLogPosterior', post, post.evaluateS1, x, pinp,
                                       retag=rt)
        if pg is not None and math.isfinite(pv):
            fd_all(ctx, post, x, pg, (TAG3 if cov_pooled else
                                      'C03.HierarchicalLogPosterior.gradient_is_derivative'), pinp)


def placement(ctx, chi, subs, models, n_ids, bottom, top, cov, lls, pm, inp):
    """ComposedPopulationModel.compute_sensitivities(reduce=True) vs the Lean placement of the
    sub-models' own reduced gradients"""
    eta = pm.compute_individual_parameters(top, bottom, covariates=cov, return_eta=True) if cov is not None \
        else pm.compute_individual_parameters(top, bottom, return_eta=True)
    psi = pm.compute_individual_parameters(top, eta, covariates=cov) if cov is not None \
        else pm.compute_individual_parameters(top, eta)
    D = psi.shape[1]
    dl = np.empty((n_ids, D))
    for i, ll in enumerate(lls):
        _, d = ll.evaluateS1(psi[i])
        dl[i] = d
    kw = {'covariates': cov} if cov is not None else {}
    sc, ds = pm.compute_sensitivities(top, eta, dlogp_dpsi=dl, reduce=True, **kw)
    blocks = []
    t = c0 = d0 = 0
    for (code, nd, nc, sel), m in zip(subs, models):
        ntop = m.n_parameters()
        kw = {'covariates': cov[:, c0:c0 + nc]} if nc else {}
        _, dsub = m.compute_sensitivities(top[t:t + ntop], eta[:, d0:d0 + nd], dlogp_dpsi=dl[:, d0:d0 + nd],
                                          reduce=True, **kw)
        dsub = np.asarray(dsub, float)
        nb = len(dsub) - ntop
        blocks.append([nd, bool(nb > 0), list(dsub[:nb]), list(dsub[nb:])])
        t += ntop
        c0 += nc
        d0 += nd
    mb, mt = ctx.model('C03.place', n_ids, blocks)
    ctx.agree('C03.place', np.asarray(ds, float), list(mb) + list(mt), inp, rtol=1e-9)


def run(ctx):
    chi = core.import_chi()
    n = 220 if ctx.tier == 'quick' else 2500
    # corpus: witnesses of known findings and past defects
    hier_case(ctx, chi, ctx.sub_rng(10 ** 6), 0, subs=[(5, 1, 1, None), (0, 1, 0, None)], n_ids=2)
    hier_case(ctx, chi, ctx.sub_rng(10 ** 6 + 1), 1, subs=[(4, 2, 0, None)], n_ids=3)
    for i in range(n):
        ctx.guard(loglik_case, ctx, chi, ctx.sub_rng(2 * i), i)
        ctx.guard(hier_case, ctx, chi, ctx.sub_rng(2 * i + 1), i)


def replay(ctx, data):
    core.import_chi()
    print('failing case:', str(data['failing'])[:2000])
    ctx.seed = int(data.get('seed', 0))
    run(ctx)
    bad = [b for b in ctx.spec_bad if b['tag'] == data['failing']['tag']]
    print('reproduced' if bad else 'not reproduced', str(bad[:1])[:800])
    return 1 if bad else 0
