"""C03 — analytic gradients equal the true derivatives of the evaluated log-pdf"""
import math
from types import SimpleNamespace
import numpy as np
import pints

import core
import oracle
import toy
import refsim
import closedform as cf
from props import c01, c02, c04

REQUIRED_THEOREMS = [
    'C03_s1_mech_is_partial', 'C03_s1_sigma_is_partial', 'llS1Raw_eq_llOf', 'C03_s1_is_gradient',
    'llOf_curve_hasDerivAt', 'emDPsi_linear', 'C03_hier_upstream_is_gradient', 'C03_hier_gauss_end_to_end',
    'C03_hier_logn_end_to_end', 'llS1Grad_length_eq',
    'em_hasDerivAt', 'C03_loglik_hasDerivAt', 'C03_s1_layout', 'C03_s1_mech_entry', 'C03_score_agree',
    'C03_posterior_grad', 'C03_hier_chain', 'C03_switch_step', 'C03_switch_history', 'C03_switch_from_new',
    'C03_switch_columns_published_order',
    'C03_guarded_ll_score', 'C03_guarded_ll_raises', 'C03_guarded_ll_gradient_length', 'C03_guarded_hier_finite_iff',
    'C03_guarded_hier_raises', 'C03_guarded_prior_finite_iff', 'C03_guarded_hier_score_eq',
    'C03_guarded_hier_posterior_finite_iff', 'C03_guarded_hier_posterior_score_eq',
    'C03_switch_renamed_selection', 'C03_switch_renamed_free', 'C03_switch_own_names_counterexample']
RULE = ('individual likelihoods (1-4 outputs, any error models, random grids, optional fixed parameters), '
        'log-posteriors with pints priors, hierarchical likelihoods / posteriors over random population '
        'compositions (generator of C02); evaluateS1 is compared with __call__ (score) and with Richardson '
        'finite differences of __call__ (every coordinate); the gradient assembly is compared with the Lean '
        'model; evaluations are made in both orders (sensitivities before any plain evaluation, and after); call '
        'histories on one likelihood (fix_parameters with any mixture of fixing / re-fixing / releasing, releasing '
        'everything, evaluations in either order, the object left with sensitivities on or off; posteriors and '
        'hierarchical likelihoods built on likelihoods with such a past) are compared point by point with '
        'finite differences and, through the Lean model of the sensitivity switch (C03.switch -> delivered columns, '
        'regimen attached) and the Lean assembly, with independently computed outputs; likelihoods / posteriors / '
        'hierarchical likelihoods over the library one-compartment PK model with a dosing regimen (bolus or '
        'infusion, single or periodic, direct or through a depot; harness/refsim.py as solver) are compared with '
        'the closed-form solution of the documented equations; the same library model (dosed or not) with '
        'user-defined parameter names (set_parameter_names before / after the administration, in one call or '
        'several, names changed twice, the default names handed round among the parameters), some mechanistic '
        'parameters fixed under the published names while others stay free, first evaluation of either kind, then '
        'fix / release histories, posteriors and hierarchical likelihoods on top: every coordinate against finite '
        'differences, names against the names the harness gave; likelihoods / posteriors / hierarchical likelihoods '
        '/ hierarchical posteriors over a mechanistic model with a restricted domain (simulate raises one of ten '
        'kinds of exception outside of it, also exactly on its edge, also with the offending parameter fixed) are '
        'walked through points inside and outside of the domain (one or several individuals outside), either kind '
        'of evaluation first: evaluateS1 reports a non-finite score wherever __call__ does, agrees with it and with '
        'finite differences inside, and both follow the Lean model of the refusing model (C03.guarded); non-trivial = >=2 outputs, or fixed parameters, '
        'or a hierarchical composition with a special or wrapped sub-model, or a history, or a dosed model; '
        'distinct = distinct structural keys')
ASSUMPTIONS = ['the mechanistic model supplies exact output sensitivities (toy model with closed-form '
               'derivatives, honouring the parameter selection of enable_sensitivities as chi.SBMLModel does); '
               'for the dosed library model the native solver is absent and harness/refsim.py stands in for '
               'myokit.Simulation (validated on every run against harness/closedform.py, see '
               'coverage.refsim_validation)',
               'priors are pints priors, assumed to return their own derivative',
               'population sub-model gradient formulas are C05; here their placement and the chain rule']

N_HISTORY = {'quick': 110, 'thorough': 1500}
N_DOSED = {'quick': 14, 'thorough': 120}
N_RENAMED = {'quick': 10, 'thorough': 100}
N_DOMAIN = {'quick': 40, 'thorough': 500}
TAG3 = 'C03.covariate_over_pooled'
TAG22 = 'C03.sensitivities_with_all_mechanistic_parameters_fixed'


def fd_all(ctx, f, x, g, tag, inp, coords=None, retag=None):
    tag = retag or tag
    ok_all = True
    for k in (range(len(x)) if coords is None else coords):
        ok, est = oracle.grad_matches(f, np.array(x, float), k, float(g[k]))
        if not ok:
            ok_all = False
            ctx.spec(tag, False, inp, {'coordinate': k, 'analytic': float(g[k]), 'finite_difference': est})
            break
    if ok_all:
        ctx.spec(tag, True, inp)


def score_consistency(ctx, tag, call, s1, x, inp, retag=None):
    """score agreement + 'succeeds wherever finite, reports non-finite wherever not'"""
    with np.errstate(all='ignore'):
        v = float(call(x))
    try:
        with np.errstate(all='ignore'):
            s, g = s1(x)
        s = float(s)
        g = np.asarray(g, float)
    except Exception as e:  # noqa
        # "succeeds wherever plain evaluation yields a finite score, and REPORTS a non-finite score wherever
        # plain evaluation does": an exception is neither
        ctx.spec(retag or tag + ('.succeeds_where_finite' if math.isfinite(v) else '.nonfinite_reported'), False, inp,
                 {'call': v, 'evaluateS1_raised': repr(e)[:200]})
        return v, None, None
    if math.isfinite(v):
        ctx.spec(retag or tag + '.score_agrees', core.close(s, v), inp, {'call': v, 'S1': s})
    else:
        ctx.spec(retag or tag + '.nonfinite_reported', not math.isfinite(s), inp, {'call': v, 'S1': s})
    ctx.spec(retag or tag + '.gradient_length', len(g) == len(x), inp, {'len': len(g), 'n': len(x)})
    if len(g) != len(x):
        return v, s, None
    return v, s, g


def s1_tuple(obj, a):
    sc, g = obj.evaluateS1(a)
    sc = float(sc)
    return (sc, np.array(g, float)) if math.isfinite(sc) else (sc,)


def held_and_arguments(ctx, tag, obj, x, inp):
    """a gradient handed out earlier stays what it was when the object is evaluated elsewhere; the caller's
    vector is left alone"""
    x0 = np.array(x, float, copy=True)
    xa = x0.copy()
    with np.errstate(all='ignore'):
        s1, g1 = obj.evaluateS1(xa)
        snap = np.array(g1, float, copy=True)
        obj.evaluateS1(x0 * np.linspace(1.05, 1.3, len(x0)))
        obj(x0 * 0.9)
    if math.isfinite(float(s1)):
        ctx.spec(tag + '.earlier_gradient_unchanged', np.array_equal(np.asarray(g1, float), snap, equal_nan=True), inp,
                 {'then': snap, 'now': np.asarray(g1, float)})
    ctx.spec(tag + '.arguments_unchanged', np.array_equal(xa, x0, equal_nan=True), inp)


def whole_numbers(ctx, tag, obj, x, inp):
    """the same whole numbers as floats, as integers and as a list of Python ints are the same parameters:
    score and sensitivities must not depend on how they are handed over"""
    whole = np.where(np.abs(x) < 0.3, 0.0, np.where(x < 1.0, 1.0, 2.0))

    def f(p):
        s, g = obj.evaluateS1(p)
        s = float(s)
        return (s, np.asarray(g, float)) if math.isfinite(s) else (s,)
    ctx.number_types(tag + '.whole_number_parameters', f, whole, inp)


def sensitivities_first(ctx, tag, obj, x, inp):
    """the very first evaluation of a newly built / newly configured object is one WITH sensitivities (a
    gradient-based sampler's first step); returns what it gave, to be compared with the evaluations made after
    plain ones"""
    try:
        with np.errstate(all='ignore'):
            s, g = obj.evaluateS1(np.array(x, float))
        return float(s), np.array(g, float)
    except Exception as e:  # noqa
        return e


def compare_first(ctx, tag, pre, v, s, g, inp):
    if pre is None:
        return
    if isinstance(pre, Exception):
        ctx.spec(tag + ('.succeeds_where_finite' if math.isfinite(v) else '.nonfinite_reported'), False,
                 dict(inp, order='evaluateS1 first'), {'call': v, 'evaluateS1_raised': repr(pre)[:200]})
        return
    if not math.isfinite(v):
        ctx.spec(tag + '.nonfinite_reported', not math.isfinite(pre[0]), dict(inp, order='evaluateS1 first'),
                 {'call': v, 'S1': pre[0]})
        return
    ok = core.close(pre[0], v) and (g is None or core.close(list(pre[1]), list(g), 1e-9, 1e-12))
    ctx.spec(tag + '.sensitivities_before_any_plain_evaluation', ok, dict(inp, order='evaluateS1 first'),
             {'first evaluateS1': pre, 'call': v, 'evaluateS1 after the plain evaluation': (s, g)})



# ------------------------------------------------------------------------------------------------
def loglik_case(ctx, chi, rng, i):
    kinds, grids, obs, n_mech, psi, sig = c01.gen_case(rng)
    boundary = any(s <= 0 for s in sig) and rng.random() < 0.6
    if any(s <= 0 for s in sig) and not boundary:
        sig = [abs(s) + 0.3 for s in sig]
    # (boundary: an error parameter exactly 0 or negative stays — both evaluation kinds must say -inf there)
    _, ll = c01.build(chi, kinds, grids, obs, n_mech, i)
    names = ll.get_parameter_names()
    x_full = np.concatenate([psi, sig])
    fixed = {}
    if rng.random() < 0.35:
        k = int(rng.integers(1, len(names)))
        for j in rng.choice(len(names), size=k, replace=False):
            fixed[names[j]] = float(x_full[j])
        ll.fix_parameters(fixed)
    free = np.array([n not in fixed for n in names])
    x = x_full[free]
    inp = {'object': 'LogLikelihood', 'kinds': kinds, 'times': grids, 'obs': obs, 'n_mech': n_mech,
           'toy_seed': i, 'fixed': fixed, 'x': x}
    ctx.case('LogLikelihood/%dout%s' % (len(kinds), '+fixed' if fixed else ''),
             nontrivial=('LL/%s/%s/%s' % (''.join(kinds), [len(g) for g in grids], sorted(fixed)))
             if (len(kinds) >= 2 or fixed) else False, sample=inp)
    all_mech_fixed = all(n in fixed for n in names[:n_mech])
    pre = sensitivities_first(ctx, 'C03.LogLikelihood', ll, x, inp) if rng.random() < 0.5 else None
    with np.errstate(all='ignore'):
        v = float(ll(x))
    try:
        with np.errstate(all='ignore'):
            s, g = ll.evaluateS1(x)
    except Exception as e:  # noqa
        ctx.spec(TAG22 if all_mech_fixed else ('C03.LogLikelihood.succeeds_where_finite' if math.isfinite(v)
                                               else 'C03.LogLikelihood.nonfinite_reported'),
                 False, inp, {'call': v, 'raised': repr(e)[:200]})
        return
    v, s, g = score_consistency(ctx, 'C03.LogLikelihood', ll, ll.evaluateS1, x, inp)
    compare_first(ctx, TAG22 if all_mech_fixed else 'C03.LogLikelihood', pre, v, s, g, inp)
    if g is None or not math.isfinite(v):
        return
    fd_all(ctx, ll, x, g, 'C03.LogLikelihood.gradient_is_derivative', inp)
    if fixed and len(fixed) < len(names) and not boundary:
        # the set of fixed parameters changes in ONE call (one released, another fixed) after sensitivities
        # were computed: the gradient is the one of the new configuration
        old_n = sorted(fixed)[int(rng.integers(len(fixed)))]
        new_n = [n for n in names if n not in fixed][int(rng.integers(len(names) - len(fixed)))]
        fixed2 = dict(fixed)
        del fixed2[old_n]
        fixed2[new_n] = float(x_full[names.index(new_n)])
        ll.fix_parameters({old_n: None, new_n: fixed2[new_n]})
        free2 = np.array([n not in fixed2 for n in names])
        x2 = x_full[free2]
        inp2 = dict(inp, fixed=fixed2, x=x2, fixed_before=fixed)
        if any(n in fixed2 for n in names[:n_mech]) and all(n in fixed2 for n in names[:n_mech]):
            pass        # (every mechanistic parameter fixed: TAG22 covers that configuration)
        else:
            v2, s2, g2 = score_consistency(ctx, 'C03.LogLikelihood', ll, ll.evaluateS1, x2, inp2)
            if g2 is not None and math.isfinite(v2):
                fd_all(ctx, ll, x2, g2, 'C03.LogLikelihood.gradient_is_derivative', inp2)
        ll.fix_parameters({new_n: None, old_n: fixed[old_n]})
    whole_numbers(ctx, 'C03.LogLikelihood', ll, x, inp)
    held_and_arguments(ctx, 'C03.LogLikelihood', ll, x, inp)
    if i % 3 == 1:
        ctx.inplace_reuse('C03.LogLikelihood.array_changed_in_place_between_calls',
                          lambda a: s1_tuple(ll, a), x, x * np.linspace(1.1, 1.3, len(x)), inp)
    # correspondence with the Lean model of the assembly (unfixed objects)
    if not fixed:
        model = toy.ToyModel(len(kinds), n_mech, i, c01.offsets(kinds, i))
        outs = []
        for o in range(len(kinds)):
            yb = [model.value(psi, o, t) for t in grids[o]]
            S = [[model.dvalue(psi, o, t, k) for k in range(n_mech)] for t in grids[o]]
            outs.append([yb, S, list(obs[o])])
        raw, mg = ctx.model('C03.s1', n_mech, kinds, list(sig), outs)
        ctx.agree('C03.s1.score', s, raw, inp)
        ctx.agree('C03.s1.gradient', g, mg, inp, rtol=1e-8)
    # posterior
    if i % 3 == 0:
        pri = []
        for j in range(len(x)):
            r = rng.random()
            pri.append(pints.GaussianLogPrior(1.0, 2.0) if r < 0.5 else
                       pints.LogNormalLogPrior(0.0, 1.0) if r < 0.8 else pints.UniformLogPrior(0.0, 10.0))
        prior = pints.ComposedLogPrior(*pri) if len(pri) > 1 else pri[0]
        post = chi.LogPosterior(ll, prior)
        pinp = dict(inp, object='LogPosterior')
        pv, ps, pg = score_consistency(ctx, 'C03.LogPosterior', post, post.evaluateS1, x, pinp)
        if pg is not None and math.isfinite(pv):
            fd_all(ctx, post, x, pg, 'C03.LogPosterior.gradient_is_derivative', pinp)
            lp, dlp = prior.evaluateS1(x)
            ctx.agree('C03.posterior_grad_is_sum', pg, np.asarray(dlp) + g, pinp, rtol=1e-8)


# ------------------------------------------------------------------------------------------------
# call histories on ONE object: fix / release (any mixture in one call) interleaved with evaluations in
# either order — the sensitivity switch, the selection of sensitivity columns and (for dosed models) the
# solver the regimen is attached to are state that every such call may touch
# ------------------------------------------------------------------------------------------------
def same_point_any_order(ctx, tag, obj, x, inp, s1_first, fd=None, rtol=1e-9, plain_may_raise=False):
    """the property at ONE point, with the two kinds of evaluation made in the given order and repeated:
    score(evaluateS1) == score(__call__) whichever came first, gradient == derivative of __call__"""
    x = np.array(x, float)
    seq = ['S1', 'call', 'S1', 'call'] if s1_first else ['call', 'S1', 'call', 'S1']
    plain, withs, grads, raised = [], [], [], None
    for op in seq:
        with np.errstate(all='ignore'):
            if op == 'call':
                if plain_may_raise:
                    try:
                        plain.append(float(obj(x.copy())))
                    except Exception as e:  # noqa
                        # (plain evaluation reports no score at all here: the property says nothing about
                        # evaluateS1 at such a point)
                        ctx.notes.append('%s: plain evaluation raises %s; nothing to compare with'
                                         % (tag, type(e).__name__))
                        return None, None
                else:
                    plain.append(float(obj(x.copy())))
            else:
                try:
                    s, g = obj.evaluateS1(x.copy())
                    withs.append(float(s))
                    grads.append(np.array(g, float))
                except Exception as e:  # noqa
                    raised = repr(e)[:200]
                    withs.append(None)
                    grads.append(None)
    inp = dict(inp, x=x, order=seq)
    v = plain[0]
    if raised is not None:
        ctx.spec(tag + ('.succeeds_where_finite' if math.isfinite(v) else '.nonfinite_reported'), False, inp,
                 {'call': plain, 'evaluateS1_raised': raised})
        return None, None
    if all(math.isfinite(p) for p in plain):
        ctx.spec(tag + '.score_agrees', all(core.close(s, p, rtol) for s in withs for p in plain), inp,
                 {'call': plain, 'S1': withs})
    else:
        ctx.spec(tag + '.nonfinite_reported', all(not math.isfinite(s) for s in withs)
                 and all(not math.isfinite(p) for p in plain), inp, {'call': plain, 'S1': withs})
        return withs[0], None
    ok_len = all(len(g) == len(x) for g in grads)
    ctx.spec(tag + '.gradient_length', ok_len, inp, {'len': [len(g) for g in grads], 'n': len(x)})
    if not ok_len:
        return withs[0], None
    ctx.spec(tag + '.gradient_repeatable', core.close(grads[0], grads[1], rtol), inp,
             {'first': grads[0], 'second': grads[1]})
    if fd is not None:
        # (finite differences of the object's own plain evaluation — made AFTER evaluateS1 has run on it)
        fd_all(ctx, obj, x, grads[0], tag + '.gradient_is_derivative', inp, coords=fd)
    return withs[0], grads[0]


def random_update(rng, names, n_mech, fixed, current):
    """the argument of ONE fix_parameters call: release everything / every mechanistic parameter, or any
    mixture of fixing, re-fixing at another value and releasing; never leaves the object without parameters"""
    r = rng.random()
    mech_fixed = [n for n in fixed if n in names[:n_mech]]
    if fixed and r < 0.25:
        return {n: None for n in fixed}
    if mech_fixed and r < 0.45:
        return {n: None for n in mech_fixed}
    if r < 0.6 and len(names) - len(fixed) > 1:
        free_mech = [n for n in names[:n_mech] if n not in fixed]
        if free_mech:
            n = free_mech[int(rng.integers(len(free_mech)))]
            return {n: float(current[n])}
    upd = {}
    k = int(rng.integers(1, min(3, len(names)) + 1))
    for j in rng.choice(len(names), size=k, replace=False):
        n = names[int(j)]
        if n in fixed and rng.random() < 0.6:
            upd[n] = None
        else:
            upd[n] = float(current[n] * rng.uniform(0.95, 1.05))
    after = {n for n in fixed if n not in upd} | {n for n, v in upd.items() if v is not None}
    if len(after) >= len(names):
        upd[sorted(after)[int(rng.integers(len(after)))]] = None
    return upd


def run_history(ctx, rng, kit, n_steps):
    """kit: dict(tag, make() -> fresh object, names, n_mech, kinds, values {name: value}, inp,
    outs(full mechanistic vector, dosed) -> [[ybar, S rows (all mechanistic columns), obs] per output],
    fd (number of coordinates for finite differences or None = all), rtol_model, dosed (bool), pkpd (bool))"""
    tag, names, n_mech = kit['tag'], kit['names'], kit['n_mech']
    obj = kit['make']()
    fixed = {}
    current = dict(kit['values'])
    script, ops, evals = [], [], []
    for step in range(n_steps):
        if step > 0 or rng.random() < 0.7:
            upd = random_update(rng, names, n_mech, fixed, current)
            if upd:
                obj.fix_parameters(upd)
                for n, v in upd.items():
                    if v is None:
                        fixed.pop(n, None)
                    else:
                        fixed[n] = v
                        current[n] = v
                script.append(['fix_parameters', dict(upd)])
                ops.append(['fix', [[names.index(n), v is not None] for n, v in upd.items()
                                    if n in names[:n_mech]]])
        free = [n for n in names if n not in fixed]
        for n in free:
            current[n] = float(current[n] * rng.uniform(0.97, 1.03))
        x = np.array([current[n] for n in free])
        inp = dict(kit['inp'], history=[list(s_) for s_ in script], fixed=dict(fixed), free=free)
        ok_names = list(obj.get_parameter_names()) == free
        ctx.spec(tag + '.published_order', ok_names, inp, {'names': list(obj.get_parameter_names()), 'free': free})
        if not ok_names:
            return None
        s1_first = bool(rng.random() < 0.6)
        nfd = kit.get('fd')
        coords = None if nfd is None else sorted(int(c) for c in rng.choice(len(x), size=min(nfd, len(x)),
                                                                            replace=False))
        s, g = same_point_any_order(ctx, tag, obj, x, inp, s1_first, fd=(range(len(x)) if coords is None else coords),
                                    rtol=kit.get('rtol_same', 1e-9))
        script.append(['evaluateS1,__call__,...' if s1_first else '__call__,evaluateS1,...', x])
        k_s1 = len(ops) + (0 if s1_first else 1)          # position of this point's first evaluateS1
        ops += ([['s1'], ['call'], ['s1'], ['call']] if s1_first else [['call'], ['s1'], ['call'], ['s1']])
        ops.append(['call'])                               # (the finite differences are plain evaluations)
        evals.append((k_s1, dict(current), dict(fixed), s, g, inp))
        if rng.random() < 0.65:
            # leave the object the way a gradient-based run leaves it
            with np.errstate(all='ignore'):
                obj.evaluateS1(x * rng.uniform(0.98, 1.02, len(x)))
            script.append(['evaluateS1', 'nearby'])
            ops.append(['s1'])
    # correspondence with the Lean model of the switch: the columns it says the mechanistic model delivers at
    # each evaluateS1 (and whether the regimen is attached to the solver in use) determine, through the Lean
    # assembly (C03.s1) on independently computed outputs / sensitivities, the gradient chi must return
    (res,) = ctx.model('C03.switch', n_mech, bool(kit.get('pkpd', False)), bool(kit.get('dosed', False)), ops)
    for k, cur, fx, s, g, inp in evals:
        if g is None:
            continue
        r = res[k]
        if not isinstance(r, (list, tuple)) or len(r) != 2:
            ctx.agree(tag + '/switch.evaluable', 'ok', r, inp)
            continue
        cols, attached = [int(c) for c in r[0]], bool(r[1])
        outs = kit['outs']([cur[n] for n in names[:n_mech]], attached)
        outs = [[yb, [[row[c] for c in cols] for row in S], ob] for yb, S, ob in outs]
        sig_names = names[n_mech:]
        raw, mg = ctx.model('C03.s1', len(cols), kit['kinds'], [cur[n] for n in sig_names], outs)
        mg = list(mg)
        pred = mg[:len(cols)] + [mg[len(cols) + j] for j, n in enumerate(sig_names) if n not in fx]
        rt = kit.get('rtol_model', 1e-8)
        scale = max([1.0] + [abs(v) for v in pred])
        ctx.agree(tag + '/switch.score', s, raw, inp, rtol=rt)
        ctx.agree(tag + '/switch.gradient', list(g), pred, inp, rtol=rt, atol=rt * scale)
    free = [n for n in names if n not in fixed]
    return {'obj': obj, 'history': [list(s_) for s_ in script], 'x': np.array([current[n] for n in free])}


def toy_history_case(ctx, chi, rng, i, n_steps=None, n_mech_min=1):
    kinds, grids, obs, n_mech, psi, sig = c01.gen_case(rng)
    while n_mech < n_mech_min:
        kinds, grids, obs, n_mech, psi, sig = c01.gen_case(rng)
    sig = [abs(s) + 0.3 if s <= 0 else s for s in sig]
    _, probe = c01.build(chi, kinds, grids, obs, n_mech, i)
    names = list(probe.get_parameter_names())
    model = toy.ToyModel(len(kinds), n_mech, i, c01.offsets(kinds, i))

    def outs(p, dosed):
        return [[[model.value(p, o, t) for t in grids[o]],
                 [[model.dvalue(p, o, t, k) for k in range(n_mech)] for t in grids[o]], list(obs[o])]
                for o in range(len(kinds))]
    inp = {'object': 'LogLikelihood', 'kinds': kinds, 'times': grids, 'obs': obs, 'n_mech': n_mech, 'toy_seed': i}
    n_steps = n_steps or int(rng.integers(2, 6))
    ctx.case('LogLikelihood/history%d' % n_steps, nontrivial='hist/%s/%d/%d' % (''.join(kinds), n_mech, n_steps),
             sample=inp)
    kit = {'tag': 'C03.LogLikelihood/history', 'make': lambda: c01.build(chi, kinds, grids, obs, n_mech, i)[1],
           'names': names, 'n_mech': n_mech, 'kinds': kinds, 'values': dict(zip(names, list(psi) + list(sig))),
           'inp': inp, 'outs': outs, 'fd': None}
    left = run_history(ctx, rng, kit, n_steps)
    if left is not None and rng.random() < 0.35:
        # an object built on a likelihood with such a past, sensitivities asked for first
        k = len(left['x'])
        prior = pints.ComposedLogPrior(*[pints.GaussianLogPrior(1.0, 2.0) for _ in range(k)]) if k > 1 \
            else pints.GaussianLogPrior(1.0, 2.0)
        post = chi.LogPosterior(left['obj'], prior)
        same_point_any_order(ctx, 'C03.LogPosterior/history', post, left['x'] * rng.uniform(0.97, 1.03, k),
                             dict(inp, object='LogPosterior', likelihood_history=left['history']), True,
                             fd=range(k))


# ------------------------------------------------------------------------------------------------
# a mechanistic model that is an ODE system with a dosing regimen (library one-compartment model, dose into
# the central compartment or into a depot; harness/refsim.py stands in for the absent native solver); the
# independent reference is the closed-form solution of the documented equations (harness/closedform.py) with
# the dose schedule built from the regimen's numbers
# ------------------------------------------------------------------------------------------------
CF_KEY = {'central.drug_amount': ('init', 'A'), 'dose.drug_amount': ('init', 'Ad'), 'central.size': ('const', 'V'),
          'dose.absorption_rate': ('const', 'ka'), 'global.elimination_rate': ('const', 'ke')}


def dosed_model(chi, direct, reg, renames=(), administer=True):
    """renames: [(when, {current name: new name})] with when = 'before' / 'after' the administration is set"""
    from chi.library import ModelLibrary
    m = ModelLibrary().one_compartment_pk_model()
    for when, d in renames:
        if when == 'before':
            m.set_parameter_names(dict(d))
    if administer:
        m.set_administration('central', direct=direct)
        m.set_dosing_regimen(**reg)
    for when, d in renames:
        if when != 'before':
            m.set_parameter_names(dict(d))
    return m


PUBLIC = {'central.drug_amount': 'Initial amount', 'dose.drug_amount': 'Amount in depot', 'central.size': 'Volume',
          'dose.absorption_rate': 'Absorption rate', 'global.elimination_rate': 'Elimination rate'}
BASE = ['central.drug_amount', 'central.size', 'global.elimination_rate']


def gen_renames(rng, orig):
    """user-defined parameter names (set_parameter_names): any non-empty subset of the parameters, given before
    or after the route of administration is chosen, in one call or two; sometimes the new names are the model's
    own default names handed round (a cyclic shift, reached through temporary names). Returns the calls and the
    names the model has to publish afterwards (by position: renaming does not reorder)."""
    public = {n: n for n in orig}
    calls = []
    r = rng.random()
    if r < 0.15 and len(orig) >= 2:
        k = int(rng.integers(2, len(orig) + 1))
        cyc = [orig[int(j)] for j in rng.choice(len(orig), size=k, replace=False)]
        calls.append(('after', {n: 'tmp %d' % j for j, n in enumerate(cyc)}))
        calls.append(('after', {'tmp %d' % j: cyc[(j + 1) % k] for j in range(k)}))
        for j, n in enumerate(cyc):
            public[n] = cyc[(j + 1) % k]
        return calls, [public[n] for n in orig]
    k = int(rng.integers(1, len(orig) + 1))
    chosen = [orig[int(j)] for j in sorted(rng.choice(len(orig), size=k, replace=False))]
    early = [n for n in chosen if n in BASE and rng.random() < 0.4]
    late = [n for n in chosen if n not in early]
    if early:
        calls.append(('before', {n: PUBLIC[n] for n in early}))
    if late and rng.random() < 0.3 and len(late) >= 2:
        calls.append(('after', {n: PUBLIC[n] for n in late[:1]}))
        late = late[1:]
    if late:
        calls.append(('after', {n: PUBLIC[n] for n in late}))
    for n in chosen:
        public[n] = PUBLIC[n]
    if early and rng.random() < 0.3:
        # a name given earlier is changed again
        n = early[0]
        calls.append(('after', {PUBLIC[n]: PUBLIC[n] + ' (2)'}))
        public[n] = PUBLIC[n] + ' (2)'
    return calls, [public[n] for n in orig]


def gen_regimen(rng):
    reg = {'dose': float(rng.uniform(2.0, 20.0)), 'start': float(rng.choice([0.0, 0.25, 0.5, 1.0])),
           'duration': float(rng.choice([0.05, 0.1, 0.5])), 'period': None, 'num': None}
    if rng.random() < 0.5:
        reg['period'] = float(rng.choice([1.0, 1.5, 2.0]))
        reg['num'] = None if rng.random() < 0.4 else int(rng.integers(1, 4))
    return reg


def dosed_setup(chi, rng, renamed=False):
    direct = bool(rng.random() < 0.5)
    reg = gen_regimen(rng)
    kind = c04.KINDS[int(rng.integers(4))]
    nt = int(rng.integers(3, 7))
    times = np.sort(rng.choice(np.arange(1, 21) * 0.25, nt, replace=False))
    administer = not (renamed and rng.random() < 0.25)
    if not administer:
        direct = True
    mnames = list(dosed_model(chi, direct, reg, (), administer).parameters())      # (the model file's own names)
    renames, public = gen_renames(rng, mnames) if renamed else ((), list(mnames))
    model = dosed_model(chi, direct, reg, renames, administer)
    vals = {'central.drug_amount': float(rng.uniform(0.2, 1.0)), 'dose.drug_amount': float(rng.uniform(0.1, 0.5)),
            'central.size': float(rng.uniform(0.7, 2.0)), 'dose.absorption_rate': float(rng.uniform(0.5, 2.0)),
            'global.elimination_rate': float(rng.uniform(0.3, 1.2))}
    lm = cf.one_compartment_documented(depot=not direct)
    sched = cf.schedule(reg['dose'], reg['start'], reg['duration'], reg['period'], reg['num'], float(times[-1]) + 1)
    if not administer:
        sched = []

    def solve(p, dosed=True):
        v = dict(zip(mnames, p))
        x0 = {'A': v['central.drug_amount'], 'Ad': v.get('dose.drug_amount', 0.0)}
        th = {'V': v['central.size'], 'ke': v['global.elimination_rate'], 'ka': v.get('dose.absorption_rate', 1.0)}
        return lm.solve(x0, th, list(times), [CF_KEY[n] for n in mnames], ['C'], sched if dosed else [])
    p0 = [vals[n] for n in mnames]
    clean = solve(p0)[0][0]
    obs = clean * rng.uniform(0.85, 1.15, nt) + 0.02
    sig = list(rng.uniform(0.1, 0.5, 2 if kind == 'CM' else 1))
    return SimpleNamespace(direct=direct, reg=reg, kind=kind, times=times, model=model, mnames=mnames, p0=p0, obs=obs,
                           sig=sig, solve=solve, renames=renames, public=public, administer=administer)


def dosed_case(ctx, chi, rng, i, renamed=False):
    su = dosed_setup(chi, rng, renamed)
    direct, reg, kind, times, mnames, p0, obs, sig, solve = (su.direct, su.reg, su.kind, su.times, su.mnames, su.p0,
                                                             su.obs, su.sig, su.solve)
    em = c04.classes(chi)[kind][0]

    def new_model():
        return dosed_model(chi, direct, reg, su.renames, su.administer)

    def make():
        return chi.LogLikelihood(new_model(), em(), list(obs), list(times))
    n_mech = len(mnames)
    inp = {'object': 'LogLikelihood', 'mechanistic_model': 'library one-compartment PK model',
           'administration': ('direct' if direct else 'depot') if su.administer else None,
           'regimen': reg if su.administer else None, 'error_model': kind, 'times': times, 'obs': obs}
    tag = 'C03.LogLikelihood/dosed_model'
    if renamed:
        inp['set_parameter_names'] = [[w, dict(d)] for w, d in su.renames]
        tag = 'C03.LogLikelihood/renamed_parameters'
    # the names the likelihood publishes: the user's names where given, position by position, then the error
    # model's (taken from an error model of the same kind on an un-renamed model)
    err_names = list(chi.LogLikelihood(dosed_model(chi, direct, reg, (), su.administer), em(), list(obs),
                                       list(times)).get_parameter_names())[n_mech:]
    names = list(su.public) + err_names
    got = list(make().get_parameter_names())
    if renamed:
        ctx.spec(tag + '.published_order', got == names, inp, {'names': got, 'expected': names})
    if got != names:
        return

    def outs(p, dosed):
        y, S = solve(p, dosed)
        return [[list(y[0]), [list(S[t, 0, :]) for t in range(len(times))], list(obs)]]
    if renamed:
        ctx.case('LogLikelihood/renamed-%s' % (('direct' if direct else 'depot') if su.administer else 'undosed'),
                 nontrivial='renamed/%s/%s/%s/%s' % (direct, su.administer, kind, sorted(set(su.public) - set(mnames))),
                 sample=inp)
    else:
        ctx.case('LogLikelihood/dosed-%s' % ('direct' if direct else 'depot'),
                 nontrivial='dosed/%s/%s/%s' % (direct, kind, bool(reg['period'])), sample=inp)
    # the stand-in solver against the closed form on this very model (the oracle's own health)
    ll = make()
    x0 = np.array(list(p0) + list(sig))
    ref = float(np.sum(c04.documented_logpdf(kind, sig, solve(p0)[0][0], obs)))
    with np.errstate(all='ignore'):
        fresh = float(ll(x0))
    ctx.extra.setdefault('refsim_validation', {'oracle': 'harness/closedform.py', 'max_rel_err': 0.0,
                                               'comparisons': 0})
    ctx.extra['refsim_validation']['comparisons'] += 1
    ctx.extra['refsim_validation']['max_rel_err'] = max(ctx.extra['refsim_validation']['max_rel_err'],
                                                        abs(fresh - ref) / max(1.0, abs(ref)))
    kit = {'tag': tag, 'make': make, 'names': names, 'n_mech': n_mech, 'kinds': [kind],
           'values': dict(zip(names, list(p0) + list(sig))), 'inp': inp, 'outs': outs, 'fd': None if renamed else 2,
           'rtol_model': 2e-6, 'rtol_same': 1e-7, 'pkpd': True, 'dosed': bool(su.administer)}
    if renamed:
        # some mechanistic parameters fixed under the names the user gave (or left), at least one stays free:
        # the very first evaluation of the reduced likelihood is either kind
        ll1 = make()
        k = int(rng.integers(1, n_mech))
        fx = {names[int(j)]: float(p0[int(j)]) for j in sorted(rng.choice(n_mech, size=k, replace=False))}
        if rng.random() < 0.3:
            fx[names[n_mech]] = float(sig[0])
        ll1.fix_parameters(fx)
        free1 = [n for n in names if n not in fx]
        inp1 = dict(inp, fixed=fx, free=free1)
        ok_names = list(ll1.get_parameter_names()) == free1
        ctx.spec(tag + '.published_order', ok_names, inp1, {'names': list(ll1.get_parameter_names()), 'free': free1})
        if ok_names:
            x1 = np.array([kit['values'][n] for n in free1])
            same_point_any_order(ctx, tag, ll1, x1, inp1, bool(rng.random() < 0.6), fd=range(len(x1)), rtol=1e-7)
    run_history(ctx, rng, kit, int(rng.integers(1, 4)))
    # objects built on such likelihoods
    which = i % 3
    if which == 0:
        pri = pints.ComposedLogPrior(*[pints.LogNormalLogPrior(0.0, 1.0) for _ in names])
        post = chi.LogPosterior(make(), pri)
        same_point_any_order(ctx, 'C03.LogPosterior/dosed_model', post, x0, dict(inp, object='LogPosterior'),
                             bool(rng.random() < 0.6),
                             fd=sorted(int(c) for c in rng.choice(len(x0), 2, replace=False)), rtol=1e-7)
        if renamed:
            # a posterior over a likelihood with one mechanistic parameter fixed
            llp = make()
            j = int(rng.integers(n_mech))
            llp.fix_parameters({names[j]: float(p0[j])})
            xp = np.delete(x0, j)
            pri = pints.ComposedLogPrior(*[pints.LogNormalLogPrior(0.0, 1.0) for _ in xp])
            same_point_any_order(ctx, 'C03.LogPosterior/renamed_parameters', chi.LogPosterior(llp, pri), xp,
                                 dict(inp, object='LogPosterior', fixed={names[j]: float(p0[j])}),
                                 bool(rng.random() < 0.6), fd=range(len(xp)), rtol=1e-7)
    elif which == 1:
        n_ids = 2
        lls = [chi.LogLikelihood(new_model(), em(), list(obs * rng.uniform(0.9, 1.1, len(obs))),
                                 list(times)) for _ in range(n_ids)]
        pop = []
        hier = []
        for k in range(len(names)):
            r = rng.random()
            pop.append(chi.PooledModel() if r < 0.6 else chi.LogNormalModel() if r < 0.8 else chi.GaussianModel())
            hier.append(r >= 0.6)
        if not any(hier):
            pop[n_mech - 1] = chi.LogNormalModel()
            hier[n_mech - 1] = True
        hll = chi.HierarchicalLogLikelihood(lls, chi.ComposedPopulationModel(pop))
        bottom = [x0[k] * rng.uniform(0.95, 1.05) for _ in range(n_ids) for k in range(len(names)) if hier[k]]
        top = []
        for k in range(len(names)):
            if not hier[k]:
                top.append(x0[k])
            elif isinstance(pop[k], chi.LogNormalModel):
                top += [float(np.log(x0[k])), 0.3]
            else:
                top += [x0[k], 0.4]
        x = np.array(bottom + top)
        hinp = dict(inp, object='HierarchicalLogLikelihood', n_ids=n_ids,
                    population=[type(p).__name__ for p in pop])
        if len(x) == hll.n_parameters():
            same_point_any_order(ctx, 'C03.Hierarchical/dosed_model', hll, x, hinp, bool(rng.random() < 0.6),
                                 fd=sorted(int(c) for c in rng.choice(len(x), 2, replace=False)), rtol=1e-7)


# ------------------------------------------------------------------------------------------------
def hier_build(chi, rng, subs=None, n_ids=None, mech=None):
    """a random hierarchical likelihood (population composition of C02's generator) and a point; `mech(j, n_mech,
    seed)` builds individual j's mechanistic model (default: the toy model)"""
    if subs is None:
        n_ids, subs = c02.gen_case(rng)
    D = sum(nd for _, nd, _, _ in subs)
    seed = int(rng.integers(10 ** 6))
    bare = len(subs) == 1 and rng.random() < 0.5
    reduced = rng.random() < 0.2
    models = [c02.make_sub(chi, *s, n_ids=n_ids) for s in subs]
    pm = models[0] if bare else chi.ComposedPopulationModel(models)
    lls = []
    for j in range(n_ids):
        nt = int(rng.integers(1, 4))
        times = np.sort(rng.choice(np.arange(1, 20) * 0.5, nt, replace=False))
        lls.append(chi.LogLikelihood(toy.ToyModel(1, D - 1, seed) if mech is None else mech(j, D - 1, seed),
                                     chi.GaussianErrorModel(), list(rng.uniform(0.5, 3.0, nt)), list(times)))
    # the individual likelihoods may have served a gradient-based analysis of a reduced model before
    before = None
    if D >= 2 and rng.random() < 0.25:
        before = []
        for ll in lls:
            nm = ll.get_parameter_names()
            j = int(rng.integers(D - 1))
            ll.fix_parameters({nm[j]: 1.0})
            with np.errstate(all='ignore'):
                ll.evaluateS1(np.ones(D - 1))
            ll.fix_parameters({nm[j]: None})
            before.append(['fix', nm[j], 'evaluateS1', 'release'])
    n_cov = sum(nc for _, _, nc, _ in subs)
    cov = rng.normal(size=(n_ids, n_cov)) * 0.3 if n_cov else None
    pm.set_n_ids(n_ids)
    names_top = pm.get_parameter_names()
    top = rng.uniform(0.5, 1.5, pm.n_parameters())
    t = 0
    for code, nd, nc, sel in subs:
        npop = c02.per_dim(code, n_ids) * nd
        ncp = len(c02.stored_selection(code, nd, nc, sel, n_ids)) * nc
        top[t + npop:t + npop + ncp] = rng.normal(size=ncp) * 0.2
        t += npop + ncp
    fixed = {}
    if reduced and len(set(names_top)) == len(names_top):
        pm = chi.ReducedPopulationModel(pm)
        for j in rng.choice(len(names_top), size=int(rng.integers(1, len(names_top) + 1)), replace=False):
            fixed[names_top[j]] = float(top[j])
        pm.fix_parameters(fixed)
    free = np.array([n not in fixed for n in names_top])
    boundary = rng.random() < 0.06 and len(top) > 0
    if boundary:
        top[int(rng.integers(len(top)))] = float(rng.choice([0.0, -0.6]))
    hll = chi.HierarchicalLogLikelihood(lls, pm, covariates=cov)
    nH = sum(nd for c, nd, _, _ in subs if c not in (5, 6))
    bottom = rng.uniform(0.5, 1.5, n_ids * nH)
    x = np.concatenate([bottom, top[free]])
    cov_pooled = any(c == 5 and nc > 0 for c, _, nc, _ in subs)
    inp = {'object': 'HierarchicalLogLikelihood', 'n_ids': n_ids,
           'subs': [[c02.KINDS[c], nd, nc, sel] for c, nd, nc, sel in subs], 'bare': bare, 'fixed': fixed,
           'x': x, 'cov': cov, 'seed': seed}
    if before:
        inp['individual_likelihoods_before'] = before
    return SimpleNamespace(n_ids=n_ids, subs=subs, D=D, seed=seed, bare=bare, models=models, pm=pm, lls=lls,
                           before=before, n_cov=n_cov, cov=cov, top=top, fixed=fixed, free=free, boundary=boundary,
                           hll=hll, bottom=bottom, x=x, cov_pooled=cov_pooled, inp=inp)


def hier_case(ctx, chi, rng, i, subs=None, n_ids=None):
    b = hier_build(chi, rng, subs, n_ids)
    n_ids, subs, bare, models, pm, lls, before = b.n_ids, b.subs, b.bare, b.models, b.pm, b.lls, b.before
    n_cov, cov, top, fixed, free, boundary, hll = b.n_cov, b.cov, b.top, b.fixed, b.free, b.boundary, b.hll
    bottom, x, cov_pooled, inp = b.bottom, b.x, b.cov_pooled, b.inp
    codes = [c for c, _, _, _ in subs]
    nontriv = any(c in (5, 6) for c in codes) or n_cov or fixed or len(subs) >= 3
    ctx.case('Hierarchical/nsub%d%s%s' % (len(subs), '+cov' if n_cov else '', '+reduced' if fixed else ''),
             nontrivial=('H/%s/%s' % ([(c02.KINDS[c], nd, nc) for c, nd, nc, _ in subs], bool(fixed)))
             if nontriv else False, sample=inp)
    tag = TAG3 if cov_pooled else 'C03.Hierarchical'
    pre = sensitivities_first(ctx, tag, hll, x, inp) if (before or rng.random() < 0.4) else None
    with np.errstate(all='ignore'):
        v = float(hll(x))
    try:
        with np.errstate(all='ignore'):
            s, g = hll.evaluateS1(x)
    except Exception as e:  # noqa
        ctx.spec(TAG3 if cov_pooled else ('C03.Hierarchical.succeeds_where_finite' if math.isfinite(v)
                                          else 'C03.Hierarchical.nonfinite_reported'), False, inp,
                 {'call': v, 'raised': repr(e)[:200]})
        return
    rt = TAG3 if cov_pooled else None
    v, s, g = score_consistency(ctx, 'C03.Hierarchical', hll, hll.evaluateS1, x, inp, retag=rt)
    compare_first(ctx, tag, pre, v, s, g, inp)
    if g is None or not math.isfinite(v) or boundary:
        return          # (at a boundary value finite differences would step outside the support)
    fd_all(ctx, hll, x, g, (TAG3 if cov_pooled else 'C03.Hierarchical.gradient_is_derivative'), inp)
    if not cov_pooled:
        whole_numbers(ctx, 'C03.Hierarchical', hll, x, inp)
    held_and_arguments(ctx, 'C03.Hierarchical', hll, x, inp)
    if i % 3 == 1:
        ctx.inplace_reuse('C03.Hierarchical.array_changed_in_place_between_calls',
                          lambda a: s1_tuple(hll, a), x, x * np.linspace(1.1, 1.3, len(x)), inp)
    # glue: placement of the sub-models' blocks (Lean model) against the composed model's result
    if not fixed and not bare:
        try:
            placement(ctx, chi, subs, models, n_ids, bottom, top, cov, lls, pm, inp)
        except Exception as e:  # noqa
            ctx.notes.append('placement correspondence skipped: ' + repr(e)[:120])
    if i % 3 == 0 and len(x) > 0:
        prior = pints.ComposedLogPrior(*[pints.GaussianLogPrior(1.0, 3.0) for _ in range(int(np.sum(free)))]) \
            if int(np.sum(free)) > 1 else pints.GaussianLogPrior(1.0, 3.0)
        if int(np.sum(free)) == 0:
            return
        post = chi.HierarchicalLogPosterior(hll, prior)
        pinp = dict(inp, object='HierarchicalLogPosterior')
        pv, ps, pg = score_consistency(ctx, 'C03.HierarchicalLogPosterior', post, post.evaluateS1, x, pinp,
                                       retag=rt)
        if pg is not None and math.isfinite(pv):
            fd_all(ctx, post, x, pg, (TAG3 if cov_pooled else
                                      'C03.HierarchicalLogPosterior.gradient_is_derivative'), pinp)


def placement(ctx, chi, subs, models, n_ids, bottom, top, cov, lls, pm, inp):
    """ComposedPopulationModel.compute_sensitivities(reduce=True) vs the Lean placement of the
    sub-models' own reduced gradients"""
    eta = pm.compute_individual_parameters(top, bottom, covariates=cov, return_eta=True) if cov is not None \
        else pm.compute_individual_parameters(top, bottom, return_eta=True)
    psi = pm.compute_individual_parameters(top, eta, covariates=cov) if cov is not None \
        else pm.compute_individual_parameters(top, eta)
    D = psi.shape[1]
    dl = np.empty((n_ids, D))
    for i, ll in enumerate(lls):
        _, d = ll.evaluateS1(psi[i])
        dl[i] = d
    kw = {'covariates': cov} if cov is not None else {}
    sc, ds = pm.compute_sensitivities(top, eta, dlogp_dpsi=dl, reduce=True, **kw)
    blocks = []
    t = c0 = d0 = 0
    for (code, nd, nc, sel), m in zip(subs, models):
        ntop = m.n_parameters()
        kw = {'covariates': cov[:, c0:c0 + nc]} if nc else {}
        _, dsub = m.compute_sensitivities(top[t:t + ntop], eta[:, d0:d0 + nd], dlogp_dpsi=dl[:, d0:d0 + nd],
                                          reduce=True, **kw)
        dsub = np.asarray(dsub, float)
        nb = len(dsub) - ntop
        blocks.append([nd, bool(nb > 0), list(dsub[:nb]), list(dsub[nb:])])
        t += ntop
        c0 += nc
        d0 += nd
    mb, mt = ctx.model('C03.place', n_ids, blocks)
    ctx.agree('C03.place', np.asarray(ds, float), list(mb) + list(mt), inp, rtol=1e-9)


# ------------------------------------------------------------------------------------------------
# a mechanistic model with a restricted DOMAIN: `simulate` raises (any kind of exception a numerical model
# raises) at parameter points outside of it. chi reports such a point as a score of -infinity; the property:
# evaluateS1 reports a non-finite score wherever plain evaluation does — at the likelihood, under a prior,
# and in a hierarchical likelihood / posterior one of whose individuals is outside its model's domain —
# and behaves as ever inside the domain, before and after visits outside.
# ------------------------------------------------------------------------------------------------
DOMAINS = {}      # key -> {'k', 'side', 'bound', 'exc', 'seen'}; shared by the copies chi makes of a model


class OutsideDomain(Exception):
    """a model's own exception class"""


def refusal(kind):
    import myokit
    classes = {'ValueError': ValueError, 'ArithmeticError': ArithmeticError, 'ZeroDivisionError': ZeroDivisionError,
               'FloatingPointError': FloatingPointError, 'OverflowError': OverflowError, 'RuntimeError': RuntimeError,
               'LinAlgError': np.linalg.LinAlgError, 'myokit.SimulationError': myokit.SimulationError,
               'myokit.NumericalError': myokit.NumericalError, 'own exception class': OutsideDomain}
    return classes[kind]('the parameters are outside of the domain of the model')


REFUSALS = ['ValueError', 'ArithmeticError', 'ZeroDivisionError', 'FloatingPointError', 'OverflowError',
            'RuntimeError', 'LinAlgError', 'myokit.SimulationError', 'myokit.NumericalError', 'own exception class']


def new_domain(k=None, side=None, bound=None, exc='ValueError'):
    key = len(DOMAINS)
    DOMAINS[key] = {'k': k, 'side': side, 'bound': bound, 'exc': exc, 'seen': None}
    return key


def outside(d, p):
    """the domain check of the model (also the harness's own knowledge of where the model refuses)"""
    if d['side'] is None:
        return False
    if d['side'] == 'everywhere':
        return True
    v = float(p[d['k']])
    return v <= d['bound'] if d['side'] == 'low' else v >= d['bound']


class DomainToy(toy.ToyModel):
    """the toy model with a domain check in `simulate`"""

    def __init__(self, n_outputs, n_parameters, seed, offset, key):
        super().__init__(n_outputs, n_parameters, seed, offset)
        self._domain_key = key

    def simulate(self, parameters, times):
        d = DOMAINS[self._domain_key]
        p = np.asarray(parameters, float)
        d['seen'] = p.copy()
        if outside(d, p):
            raise refusal(d['exc'])
        return super().simulate(parameters, times)


def gen_prior(rng, n, admit_all):
    pri = []
    for _ in range(n):
        r = 0.0 if admit_all else rng.random()
        pri.append(pints.GaussianLogPrior(1.0, 2.0) if r < 0.6 else
                   pints.LogNormalLogPrior(0.0, 1.0) if r < 0.8 else pints.UniformLogPrior(0.0, 10.0))
    return pints.ComposedLogPrior(*pri) if n > 1 else pri[0]


def guarded_agree(ctx, label, obj, x, n_par, prior, pop, inds, inp):
    """chi against the Lean model of the refusing mechanistic model (C03.guarded): scores of both kinds of
    evaluation from the ingredients (who refuses, the others' scores, population score, prior)"""
    m_call, m_s1, _ = ctx.model('C03.guarded', int(n_par), prior, pop, inds)
    with np.errstate(all='ignore'):
        try:
            c = float(obj(np.array(x, float)))
        except Exception:  # noqa
            return
        try:
            s = float(obj.evaluateS1(np.array(x, float))[0])
        except Exception as e:  # noqa
            s = core.errkind(e)
    ctx.agree(label + '.call', c, m_call, inp, rtol=1e-8)
    ctx.agree(label + '.evaluateS1', s, m_s1, inp, rtol=1e-8)


def domain_loglik_case(ctx, chi, rng, i):
    kinds, grids, obs, n_mech, psi, sig = c01.gen_case(rng)
    sig = [abs(s) + 0.3 if s <= 0 else s for s in sig]
    k = int(rng.integers(n_mech))
    side = 'low' if rng.random() < 0.6 else 'high'
    bound = float(rng.choice([0.0, 0.3])) if side == 'low' else float(rng.choice([1.8, 2.5]))
    exc = REFUSALS[int(rng.integers(len(REFUSALS)))]
    key = new_domain(k, side, bound, exc)
    model = DomainToy(len(kinds), n_mech, i, c01.offsets(kinds, i), key)
    ems = [c04.classes(chi)[kd][0]() for kd in kinds]
    ll = chi.LogLikelihood(model, ems, [list(o) for o in obs], [list(g) for g in grids])
    names = list(ll.get_parameter_names())
    x_full = np.concatenate([psi, sig])

    def out_value():
        r = rng.random()
        if r < 0.25:
            return bound                                    # exactly on the edge (refused)
        return bound - float(rng.uniform(0.05, 1.0)) if side == 'low' else bound + float(rng.uniform(0.05, 1.0))
    fixed = {}
    guard_fixed_outside = rng.random() < 0.12 and len(names) > 1
    if guard_fixed_outside:
        fixed[names[k]] = out_value()                       # no point of the reduced likelihood is inside
    if rng.random() < 0.3:
        others = [j for j in range(len(names)) if j != k]
        m = int(rng.integers(1, len(others) + 1)) if others else 0
        for j in rng.choice(others, size=m, replace=False) if m else []:
            fixed[names[int(j)]] = float(x_full[int(j)])
    if len(fixed) >= len(names):
        fixed.pop(sorted(n for n in fixed if n != names[k])[0])
    if fixed:
        ll.fix_parameters(fixed)
    free = [n for n in names if n not in fixed]
    base = {'object': 'LogLikelihood', 'mechanistic_model': 'toy model whose simulate raises outside its domain',
            'domain': '%s %s %r is refused' % (names[k], '<=' if side == 'low' else '>=', bound), 'raises': exc,
            'kinds': kinds, 'times': grids, 'obs': obs, 'n_mech': n_mech, 'toy_seed': i, 'fixed': fixed}
    ctx.case('LogLikelihood/model_domain%s' % ('+fixed' if fixed else ''),
             nontrivial='dom/%s/%s/%s/%s' % (''.join(kinds), side, exc, sorted(fixed)), sample=base)
    ref_model = toy.ToyModel(len(kinds), n_mech, i, c01.offsets(kinds, i))
    tag = 'C03.LogLikelihood/model_domain'
    # a walk through points inside and outside of the domain (a sampler's proposals), either kind of evaluation first
    where = ['outside', 'inside', 'outside' if rng.random() < 0.5 else 'inside']
    where = [where[int(j)] for j in rng.permutation(3)]
    walk = []
    post = None
    for step, w in enumerate(where):
        full = x_full * rng.uniform(0.97, 1.03, len(x_full))
        if w == 'outside' and not guard_fixed_outside:
            full[k] = out_value()
        for n, v in fixed.items():
            full[names.index(n)] = v
        is_out = outside(DOMAINS[key], full[:n_mech])
        x = np.array([full[names.index(n)] for n in free])
        inp = dict(base, x=x, point='outside the domain' if is_out else 'inside the domain', visited_before=list(walk))
        s1_first = bool(rng.random() < 0.5)
        s, g = same_point_any_order(ctx, tag, ll, x, inp, s1_first, fd=None if is_out else range(len(x)),
                                    plain_may_raise=True)
        walk.append(['outside' if is_out else 'inside', 'evaluateS1 first' if s1_first else '__call__ first'])
        # the Lean model on independent ingredients: who refuses (the domain), the documented density otherwise
        ref = None if is_out else float(c01.spec_value(kinds, grids, obs, ref_model, full[:n_mech], full[n_mech:])[0])
        guarded_agree(ctx, 'C03.guarded/LogLikelihood', ll, x, len(x), None, None, [ref], inp)
        if step == 1 and rng.random() < 0.7:
            prior = gen_prior(rng, len(x), admit_all=rng.random() < 0.6)
            post = chi.LogPosterior(ll, prior)
        if post is not None:
            pinp = dict(inp, object='LogPosterior')
            same_point_any_order(ctx, 'C03.LogPosterior/model_domain', post, x, pinp, bool(rng.random() < 0.5),
                                 fd=None if is_out else range(len(x)), plain_may_raise=True)
            guarded_agree(ctx, 'C03.guarded/LogPosterior', post, x, len(x), float(prior(x)), None, [ref], pinp)
    DOMAINS[key]['side'] = None


def domain_hier_case(ctx, chi, rng, i):
    keys = []

    def mech(j, n_mech, seed):
        keys.append(new_domain())
        return DomainToy(1, n_mech, seed, None, keys[-1])
    b = hier_build(chi, rng, mech=mech)
    hll, x, n_ids, n_mech = b.hll, b.x, b.n_ids, b.D - 1
    doms = [DOMAINS[key] for key in keys]
    # what each individual's model receives at x (all domains open)
    with np.errstate(all='ignore'):
        v_open = float(hll(x))
        if any(d['seen'] is None for d in doms):
            hll.evaluateS1(x)
    seen = [np.array(d['seen'], float) for d in doms]
    # ingredients for the Lean model: every individual's own score at its parameters, the population score
    pop = ind_scores = None
    if math.isfinite(v_open):
        try:
            kw = {'covariates': b.cov} if b.cov is not None else {}
            top_free, bottom = x[len(x) - int(np.sum(b.free)):], x[:len(x) - int(np.sum(b.free))]
            with np.errstate(all='ignore'):
                eta = b.pm.compute_individual_parameters(top_free, bottom, return_eta=True, **kw)
                psi = b.pm.compute_individual_parameters(top_free, eta, **kw)
                ind_scores = [float(ll(np.array(p, float))) for ll, p in zip(b.lls, psi)]
            pop = v_open - sum(ind_scores)
        except Exception as e:  # noqa
            ctx.notes.append('guarded correspondence skipped: ' + repr(e)[:120])
            pop = None
    exc = REFUSALS[int(rng.integers(len(REFUSALS)))]
    base = dict(b.inp, mechanistic_model='toy model whose simulate raises outside its domain', raises=exc)
    ctx.case('Hierarchical/model_domain%s' % ('+reduced' if b.fixed else ''),
             nontrivial='Hdom/%s/%s/%s' % ([(c02.KINDS[c], nd, nc) for c, nd, nc, _ in b.subs], bool(b.fixed), exc),
             sample=base)
    post = None
    if int(np.sum(b.free)) > 0 and rng.random() < 0.5:
        prior = gen_prior(rng, int(np.sum(b.free)), admit_all=True)
        post = chi.HierarchicalLogPosterior(hll, prior)
    where = ['outside', 'inside', 'outside' if rng.random() < 0.5 else 'inside']
    where = [where[int(j)] for j in rng.permutation(3)]
    walk = []
    for w in where:
        refusing = []
        for d in doms:
            d['side'] = None
        if w == 'outside':
            m = 1 if rng.random() < 0.7 else int(rng.integers(1, n_ids + 1))
            refusing = sorted(int(j) for j in rng.choice(n_ids, size=m, replace=False))
        for j, d in enumerate(doms):
            d['exc'] = exc
            if n_mech == 0:
                d['side'] = 'everywhere' if j in refusing else None
                continue
            kk = int(rng.integers(n_mech))
            v = float(seen[j][kk])
            margin = 0.5 * max(1.0, abs(v))
            side = 'low' if rng.random() < 0.5 else 'high'
            sign = 1.0 if side == 'low' else -1.0
            if j in refusing:
                bound = v if rng.random() < 0.25 else v + sign * float(rng.uniform(0.05, 1.0))
            else:
                bound = v - sign * margin
            d.update(k=kk, side=side, bound=bound)
        inp = dict(base, x=x, individuals_outside_their_domain=refusing, visited_before=list(walk),
                   domains=[None if d['side'] is None else [d['k'], d['side'], d['bound']] for d in doms])
        s1_first = bool(rng.random() < 0.5)
        fd = None
        if not refusing and not b.boundary and len(x):
            fd = sorted(int(c) for c in rng.choice(len(x), size=min(3, len(x)), replace=False))
        same_point_any_order(ctx, 'C03.Hierarchical/model_domain', hll, x, inp, s1_first, fd=fd, plain_may_raise=True)
        walk.append([refusing, 'evaluateS1 first' if s1_first else '__call__ first'])
        if pop is not None:
            inds = [None if j in refusing else ind_scores[j] for j in range(n_ids)]
            guarded_agree(ctx, 'C03.guarded/Hierarchical', hll, x, b.D, None, pop, inds, inp)
        if post is not None:
            pinp = dict(inp, object='HierarchicalLogPosterior')
            same_point_any_order(ctx, 'C03.HierarchicalLogPosterior/model_domain', post, x, pinp,
                                 bool(rng.random() < 0.5), fd=fd, plain_may_raise=True)
            if pop is not None:
                top_free = x[len(x) - int(np.sum(b.free)):]
                guarded_agree(ctx, 'C03.guarded/HierarchicalLogPosterior', post, x, b.D, float(prior(top_free)), pop,
                              inds, pinp)
    for d in doms:
        d['side'] = None


def run(ctx):
    chi = core.import_chi()
    n = 220 if ctx.tier == 'quick' else 2500
    # corpus: witnesses of known findings and past defects
    hier_case(ctx, chi, ctx.sub_rng(10 ** 6), 0, subs=[(5, 1, 1, None), (0, 1, 0, None)], n_ids=2)
    hier_case(ctx, chi, ctx.sub_rng(10 ** 6 + 1), 1, subs=[(4, 2, 0, None)], n_ids=3)
    # a parameter fixed for a gradient-based analysis and released afterwards, sensitivities asked for first
    ctx.guard(toy_history_case, ctx, chi, ctx.sub_rng(10 ** 6 + 2), 2, n_steps=4, n_mech_min=2)
    for i in range(n):
        ctx.guard(loglik_case, ctx, chi, ctx.sub_rng(2 * i), i)
        ctx.guard(hier_case, ctx, chi, ctx.sub_rng(2 * i + 1), i)
    for i in range(N_HISTORY[ctx.tier]):
        ctx.guard(toy_history_case, ctx, chi, ctx.sub_rng(3 * 10 ** 6 + i), i)
    for i in range(N_DOMAIN[ctx.tier]):
        ctx.guard(domain_loglik_case, ctx, chi, ctx.sub_rng(5 * 10 ** 6 + 2 * i), i)
        ctx.guard(domain_hier_case, ctx, chi, ctx.sub_rng(5 * 10 ** 6 + 2 * i + 1), i)
    refsim.install()
    for i in range(N_DOSED[ctx.tier]):
        ctx.guard(dosed_case, ctx, chi, ctx.sub_rng(4 * 10 ** 6 + i), i)
    for i in range(N_RENAMED[ctx.tier]):
        ctx.guard(dosed_case, ctx, chi, ctx.sub_rng(6 * 10 ** 6 + i), i, renamed=True)


def replay(ctx, data):
    core.import_chi()
    print('failing case:', str(data['failing'])[:2000])
    ctx.seed = int(data.get('seed', 0))
    run(ctx)
    bad = [b for b in ctx.spec_bad if b['tag'] == data['failing']['tag']]
    print('reproduced' if bad else 'not reproduced', str(bad[:1])[:800])
    return 1 if bad else 0
