"""C16 — seeds fully determine random results; random streams are independent; generator objects
are advanced.

The Lean model (lean/ChiModel/Seeds.lean) says, for every sampling entry point, which primitive
variate (stream, call, position) every returned number is computed from, which distribution calls
are made in which order, and in which state the seed object and the global generator are left.
Here the real classes are run and compared with those predictions:

* exact replay: the model's call trace is executed on real numpy generators and every returned value
  is recomputed from the variates at the modelled reads (error models, population models,
  PredictiveModel, sample_initial_parameters);
* equality pattern: with a mechanistic model whose outputs coincide and are constant in time, two
  entries of a predictive sample are equal exactly when the model says they read the same variates;
* a Generator passed as seed, and the global generator, are left in exactly the modelled state;
* the property itself on the real code (`ctx.spec`): same seed twice under different global states
  and interleaved calls => identical; different seeds => different; entries pairwise different;
  a Generator is advanced, not restarted, and the result is a function of its state alone.
"""
import copy
import math

import numpy as np
import pandas as pd
import pints
import xarray as xr
from scipy.stats import truncnorm

import core
import toy
from props import seedkit as K

REQUIRED_THEOREMS = [
    'C16_reproducible', 'C16_reproducible_any_world', 'C16_reproducible_generator',
    'C16_pam_global_counterexample', 'C16_seed_sensitive', 'C16_disjoint', 'C16_pam_alloc_disjoint',
    'C16_disjoint_prior_partial', 'C16_independent_outputs_counterexample', 'C16_noise_nonempty',
    'C16_generator_advanced', 'C16_generator_advanced_prior', 'C16_generator_rejected_counterexample']
RULE = ('entry points: the four error models (also reduced), elementary / covariate-wrapped / composed '
        'population models (also reduced), PredictiveModel, PopulationPredictiveModel, Prior-, Posterior- and '
        'PAM predictive models over both, sample_initial_parameters of LogPosterior, HierarchicalLogPosterior '
        'and PopulationFilterLogPosterior; seeds: integer, Generator (fresh or already advanced), None; global '
        'generator re-seeded and advanced between repeated calls; non-trivial = at least two outputs, '
        'sub-models, individuals or samples; distinct = distinct (entry point, structure, sizes, seed kind)')
ASSUMPTIONS = [
    'primitive samplers are ideal: distinct (stream, call, position) triples are independent variates; streams '
    'of different seeds are independent; default_rng(g) returns g (statistical independence of PCG64 / MT19937 '
    'output is assumed, not proved)',
    'numpy identities used by the replay, re-checked on every run: normal/lognormal are affine/exponential maps '
    'of standard_normal of the same generator state; choice(ids, size) and choice(rows) consume like integers; '
    'np.random.choice(p=...) and scipy truncnorm.rvs consume one uniform per variate in C order',
    'np.random.seed(integers(0, 1e6)) of two different calls can collide with probability 1e-6: the model '
    'treats the derived streams as different']

# the model variant that is compared with chi: the code as it is (after the fix: commits 80b4fea, d48fa6e,
# b1514f4).  The third component is the integer PriorPredictiveModel draws from a Generator seed (irrelevant
# for other seeds).  The pre-fix variant exists in the Lean model for the counterexample theorems only.
AS_IS = (False, False, 0)


def as_is(prior_draw=0):
    return (False, False, int(prior_draw))


# ----------------------------------------------------------------------------------------
# numpy identities the replay rests on
# ----------------------------------------------------------------------------------------
def check_numpy_identities(ctx):
    for k in range(3):
        s = int(ctx.rng.integers(1 << 30))
        g, h = np.random.default_rng(s), np.random.default_rng(s)
        a = g.normal(loc=0, scale=1.7, size=(3, 2))
        ok = np.array_equal(a, 1.7 * h.standard_normal((3, 2))) and g.bit_generator.state == h.bit_generator.state
        a = g.lognormal(mean=-0.125, sigma=0.5, size=(3, 2))
        ok = ok and np.allclose(a, np.exp(-0.125 + 0.5 * h.standard_normal((3, 2))), rtol=1e-14)
        a = g.choice(np.arange(5), size=4, replace=True)
        ok = ok and np.array_equal(a, h.integers(0, 5, size=4)) and g.bit_generator.state == h.bit_generator.state
        rows = np.arange(14.).reshape(7, 2)
        a = g.choice(rows)
        ok = ok and np.array_equal(a, rows[h.integers(0, 7)]) and g.bit_generator.state == h.bit_generator.state
        ok = ok and g.integers(low=0, high=1E6) == h.integers(0, 10 ** 6)
        np.random.seed(s)
        p = np.array([.2, .3, .5])
        a = np.random.choice(np.arange(3), p=p, size=6)
        st = np.random.get_state()
        rs = np.random.RandomState(s)
        u = rs.random_sample(6)
        ok = ok and np.array_equal(a, np.searchsorted(np.cumsum(p), u, side='right'))
        ok = ok and K.legacy_state_equal(st, rs.get_state())
        np.random.seed(s)
        mus, sg = np.array([1., 2.]), np.array([1., .5])
        x = truncnorm.rvs(a=-mus / sg, b=np.inf, loc=mus, scale=sg, size=(3, 2))
        st = np.random.get_state()
        rs = np.random.RandomState(s)
        u = rs.uniform(size=6).reshape(3, 2)
        ok = ok and np.allclose(x, truncnorm.ppf(u, a=-mus / sg, b=np.inf, loc=mus, scale=sg), rtol=1e-12)
        ok = ok and K.legacy_state_equal(st, rs.get_state())
        ctx.agree('C16.numpy_identities', bool(ok), True, {'seed': s})


# ----------------------------------------------------------------------------------------
# case generation
# ----------------------------------------------------------------------------------------
def gen_times(rng, nT):
    """unsorted times; replicate measurements (the same time point requested more than once) are part of the
    input space: every requested entry must get its own noise"""
    t = rng.choice(np.arange(1, 41) * 0.25, size=nT, replace=False)
    t = [float(x) for x in t]
    if nT > 1 and rng.random() < 0.35:
        j = int(rng.integers(1, nT))
        t[j] = t[int(rng.integers(0, j))]
        if nT > 2 and rng.random() < 0.3:
            t[int(rng.integers(nT))] = t[0]
    return t


def gen_sig(rng, kinds):
    sig = []
    for k in kinds:
        sig += [float(x) for x in rng.uniform(0.05, 0.4, K.em_nparams(k))]
    return sig


def gen_pop(rng, n_dim, n, positive_from=0, allow_trunc=True, allow_hetero=True, allow_cov=True):
    """a population model over n_dim dimensions; dims >= positive_from must stay positive (noise scales)"""
    subs = []
    d = 0
    composed = bool(rng.random() < 0.8) or n_dim > 1 and bool(rng.random() < 0.7)
    while d < n_dim:
        width = 1 if (not composed and False) else int(rng.integers(1, min(2, n_dim - d) + 1))
        if not composed:
            width = n_dim
        elems = ['gaussian', 'logNormal', 'pooled', 'logNormal', 'gaussian']
        if allow_hetero:
            elems.append('hetero')
        if allow_trunc:
            elems.append('truncGauss')
        e = elems[int(rng.integers(len(elems)))]
        if d + width > positive_from and e == 'gaussian':
            e = 'logNormal'
        sub = {'elem': e, 'nDim': width, 'cov': bool(allow_cov and rng.random() < 0.25),
               'centered': bool(rng.random() < 0.6)}
        if d + width > positive_from and e in ('gaussian',):
            sub['centered'] = True
        subs.append(sub)
        d += width
    pop = {'subs': subs, 'composed': composed, 'n_ids': max(1, n), 'n_cov': 2}
    return pop


def pop_params(rng, pop):
    th = []
    for s in pop['subs']:
        th += K.sub_params(rng, s, pop['n_ids'], pop['n_cov'])
    return th


def pop_covariates(rng, pop, n):
    nc = K.pop_ncov_total(pop)
    if nc == 0:
        return None
    return [[float(x) for x in rng.uniform(-1, 1, nc)] for _ in range(n)]


def gen_spec(rng, n, flat=True, allow_pop=True):
    n_out = int(rng.choice([1, 2, 2, 3]))
    kind = K.KINDS[int(rng.integers(4))]
    kinds = [kind] * n_out if flat else [K.KINDS[int(rng.integers(4))] for _ in range(n_out)]
    n_mech = int(rng.integers(1, 3))
    spec = {'type': 'indiv', 'kinds': kinds, 'n_mech': n_mech, 'toy_seed': int(rng.integers(1000)),
            'flat': flat}
    sig1 = [float(x) for x in rng.uniform(0.05, 0.4, K.em_nparams(kind))]
    spec['sig'] = sig1 * n_out if flat else gen_sig(rng, kinds)
    spec['psi'] = [float(x) for x in rng.uniform(0.6, 1.4, n_mech)]
    if allow_pop and rng.random() < 0.5:
        spec['type'] = 'pop'
        n_dim = n_mech + len(spec['sig'])
        spec['pop'] = gen_pop(rng, n_dim, n, positive_from=n_mech)
        spec['theta'] = pop_params(rng, spec['pop'])
        if flat:
            # equal noise scales for all outputs, so that equal variates give equal values
            spec['pop'] = flat_pop(rng, n_mech, len(sig1), n_out, n)
            spec['theta'] = flat_theta(rng, spec['pop'], n_mech, sig1, n_out)
    return spec


def flat_pop(rng, n_mech, n_sig1, n_out, n):
    """mechanistic dims random; every noise-scale dim pooled (same value for every output)"""
    pop = gen_pop(rng, n_mech, n, positive_from=n_mech)
    if not pop['composed']:
        pop['composed'] = True
    pop['subs'].append({'elem': 'pooled', 'nDim': n_sig1 * n_out, 'cov': False, 'centered': True})
    return pop


def flat_theta(rng, pop, n_mech, sig1, n_out):
    th = []
    for s in pop['subs'][:-1]:
        th += K.sub_params(rng, s, pop['n_ids'], pop['n_cov'])
    return th + list(sig1) * n_out


def gen_seed_triplet(rng):
    s = int(rng.integers(0, 1 << 31))
    if rng.random() < 0.15:
        s = int(rng.choice([0, 0, 1, 2]))      # boundary seeds: 0 is a valid (and falsy) integer seed
    s2 = int(s + rng.integers(2, 1000)) if rng.random() < 0.5 else int(rng.integers(0, 1 << 31))
    if s2 == s:
        s2 = s + 7
    g = ('gen', int(rng.integers(0, 1 << 31)), int(rng.choice([0, 0, 1, 3])))
    return s, s2, g


def gen_worlds(rng):
    w1 = ('LS', int(rng.integers(0, 1 << 31)), int(rng.choice([0, 1])))
    w2 = ('LS', int(rng.integers(0, 1 << 31)), int(rng.choice([0, 2, 5])))
    return w1, w2


# ----------------------------------------------------------------------------------------
# building the real objects
# ----------------------------------------------------------------------------------------
def build_predictive(chi, spec, dosed=False):
    cls = K.FlatToy if spec.get('flat') else (K.DosedToy if dosed else toy.ToyModel)
    mech = cls(len(spec['kinds']), spec['n_mech'], spec['toy_seed'])
    ems = [K.em_class(chi, k)() for k in spec['kinds']]
    pm = chi.PredictiveModel(mech, ems)
    if spec['type'] == 'indiv':
        return pm, mech, None
    pop = K.build_pop(chi, spec['pop'])
    return chi.PopulationPredictiveModel(pm, pop), mech, pop


def spec_parameters(spec):
    if spec['type'] == 'indiv':
        return list(spec['psi']) + list(spec['sig'])
    return list(spec['theta'])


def interleave(chi, rng_state):
    """unrelated sampling between two calls (must not matter)"""
    chi.GaussianErrorModel().sample([0.5], [1.0, 2.0], n_samples=2)
    chi.LogNormalModel().sample([0.1, 0.2], n_samples=3, seed=int(rng_state % 1000))
    np.random.default_rng().standard_normal(3)
    np.random.random_sample(2)


class Runner:
    """one entry point with one configuration: `run(seed_object)` on the real code and its wire form"""

    def __init__(self, name, cls, entry, run, bounds=None, prior=None, forward=None, labels='array',
                 pattern=True, accepts_generator=True, documented_generator=True, counts=None):
        self.name = name          # entry kind
        self.cls = cls            # chi class name (for tags)
        self.entry = entry        # wire form, or callable(observed entries) -> wire form (PAM)
        self.run = run
        self.bounds = bounds or {}
        self.prior = prior
        self.forward = forward    # (model_run, replay) -> {label: predicted value} | None
        self.pattern = pattern    # equality pattern of values is determined by the reads
        self.accepts_generator = accepts_generator
        self.documented_generator = documented_generator
        self.counts = counts
        self.box = None           # the argument arrays handed to chi (K.ArgBox)
        self.continuous = True    # some returned number is a continuous function of a variate
        self.random = True        # some returned number depends on a variate at all


# ----------------------------------------------------------------------------------------
# entry points
# ----------------------------------------------------------------------------------------
def runner_error(chi, rng):
    k = K.KINDS[int(rng.integers(4))]
    nT = int(rng.integers(1, 5))
    nS = None if rng.random() < 0.2 else int(rng.integers(1, 5))
    sig = gen_sig(rng, [k])
    ybar = [float(x) for x in rng.uniform(0.5, 3.0, nT)]
    reduced = bool(rng.random() < 0.3)
    em = K.em_class(chi, k)()
    params = list(sig)
    if reduced:
        em = chi.ReducedErrorModel(em)
        if k == 'CM' and rng.random() < 0.7:
            em.fix_parameters({'Sigma rel.': sig[1]})
            params = [sig[0]]
    nS1 = 1 if nS is None else nS

    box = K.ArgBox(parameters=params, model_output=ybar)

    def run(seed):
        a = np.asarray(em.sample(box['parameters'], box['model_output'], n_samples=nS, seed=seed), float)
        return {(s, 0, t): float(a[t, s]) for t in range(nT) for s in range(nS1)}

    def forward(m, rp):
        out = {}
        for c in m.cells:
            z = [rp.value(r) for r in c['noise']]
            if any(v is None for v in z):
                return None
            out[(c['unit'], c['out'], c['time'])] = float(K.em_transform(k, sig, ybar[c['time']], z))
        return out

    cfg = {'entry': 'error', 'kind': k, 'nT': nT, 'nS': nS, 'sig': sig, 'ybar': ybar, 'reduced': reduced}
    r = Runner('error', type(em).__name__ if not reduced else K.em_class(chi, k).__name__,
               ['error', k, nT, nS1], run, forward=forward, pattern=False)
    r.box = box
    return r, cfg, 'error/%s/%s' % (k, 'reduced' if reduced else 'plain'), nT * nS1 > 1


def pop_forward(chi, pop, theta, n, cov):
    """value of entry (i, d) of population_model.sample from the variates at the modelled reads"""
    def forward(m, rp):
        out = {}
        by = m.by_label()
        d0 = 0
        p0 = 0
        for s in pop['subs']:
            npar = K.sub_nparams(s, pop['n_ids'], pop['n_cov'])
            pr = theta[p0:p0 + npar]
            e, w = s['elem'], s['nDim']
            for i in range(n):
                for d in range(w):
                    c = by[(i, d0 + d, 0)]
                    z = [rp.value(r) for r in c['par']]
                    if any(v is None for v in z):
                        return None
                    if e in ('gaussian', 'logNormal'):
                        if not s.get('centered', True):
                            v = z[0]
                        elif e == 'gaussian':
                            v = pr[d] + pr[w + d] * z[0]
                        else:
                            v = math.exp(pr[d] + pr[w + d] * z[0])
                    elif e == 'pooled':
                        v = pr[d]
                    elif e == 'hetero':
                        v = pr[int(z[0]) * w + d]
                    else:
                        mu, sg = pr[d], pr[w + d]
                        v = float(truncnorm.ppf(z[0], a=-mu / sg, b=np.inf, loc=mu, scale=sg))
                    out[(i, d0 + d, 0)] = float(v)
            d0 += w
            p0 += npar
        return out
    return forward


def runner_population(chi, rng):
    n = None if rng.random() < 0.15 else int(rng.integers(1, 5))
    n1 = 1 if n is None else n
    n_dim = int(rng.integers(1, 4))
    pop = gen_pop(rng, n_dim, int(rng.integers(2, 5)))
    theta = pop_params(rng, pop)
    cov = pop_covariates(rng, pop, n1)
    if cov is not None and rng.random() < 0.3:
        cov = cov[0]          # shape (n_cov,): broadcast to every individual
    model = K.build_pop(chi, pop)
    reduced = bool(rng.random() < 0.25) and not K.pop_has_cov(pop)
    if reduced:
        model = chi.ReducedPopulationModel(model)

    box = K.ArgBox(parameters=theta, covariates=cov)

    def run(seed):
        if pop['composed'] or reduced:
            a = model.sample(box['parameters'], n_samples=n, seed=seed, covariates=box['covariates'])
        elif pop['subs'][0].get('cov'):
            a = model.sample(box['parameters'], box['covariates'], n_samples=n, seed=seed)
        else:
            a = model.sample(box['parameters'], n_samples=n, seed=seed)
        a = np.asarray(a, float)
        return {(i, d, 0): float(a[i, d]) for i in range(a.shape[0]) for d in range(a.shape[1])}

    cfg = {'entry': 'population', 'pop': pop, 'n': n, 'theta': theta, 'cov': cov, 'reduced': reduced}
    r = Runner('population', type(model).__name__, ['population', K.pop_wire(pop), n1], run,
               bounds={'ids': pop['n_ids']}, forward=pop_forward(chi, pop, theta, n1, cov), pattern=False)
    r.continuous = any(s['elem'] in ('gaussian', 'logNormal', 'truncGauss') for s in pop['subs'])
    r.random = r.continuous or (n1 > 0 and any(s['elem'] == 'hetero' for s in pop['subs']))
    if not r.continuous:
        r.random = False      # a choice among a few stored rows can coincide for two seeds
    cls = '+'.join(('cov:' if s.get('cov') else '') + s['elem'] for s in pop['subs'])
    r.box = box
    return r, cfg, 'population/%s/%s' % ('composed' if pop['composed'] else 'single', cls), \
        n1 > 1 or len(pop['subs']) > 1


def runner_predictive(chi, rng, flat=None):
    n = int(rng.integers(1, 4))
    flat = bool(rng.random() < 0.5) if flat is None else flat
    spec = gen_spec(rng, n, flat=flat, allow_pop=False)
    nT = int(rng.integers(1, 4))
    times = gen_times(rng, nT)
    nS = None if rng.random() < 0.15 else n
    nS1 = 1 if nS is None else nS
    pm, mech, _ = build_predictive(chi, spec)
    params = spec_parameters(spec)
    ts = np.sort(times)
    ybar = mech.simulate(spec['psi'], ts)

    box = K.ArgBox(parameters=params, times=times)

    def run(seed):
        return K.array_entries(pm.sample(box['parameters'], box['times'], n_samples=nS, seed=seed, return_df=False))

    def forward(m, rp):
        out = {}
        start = 0
        slices = []
        for k in spec['kinds']:
            slices.append(spec['sig'][start:start + K.em_nparams(k)])
            start += K.em_nparams(k)
        for c in m.cells:
            z = [rp.value(r) for r in c['noise']]
            if any(v is None for v in z):
                return None
            o = c['out']
            out[(c['unit'], o, c['time'])] = float(K.em_transform(spec['kinds'][o], slices[o], ybar[o][c['time']], z))
        return out

    cfg = {'entry': 'predictive', 'spec': spec, 'times': times, 'nS': nS}
    r = Runner('predictive', 'PredictiveModel', ['predictive', spec['kinds'], nT, nS1], run,
               forward=forward, pattern=flat)
    r.box = box
    return r, cfg, 'predictive/%d-outputs/%s' % (len(spec['kinds']), 'flat' if flat else 'mixed'), \
        len(spec['kinds']) > 1


def runner_pop_predictive(chi, rng):
    n = int(rng.integers(1, 5))
    spec = gen_spec(rng, n, flat=True, allow_pop=False)
    spec['type'] = 'pop'
    n_sig1 = K.em_nparams(spec['kinds'][0])
    spec['pop'] = flat_pop(rng, spec['n_mech'], n_sig1, len(spec['kinds']), n)
    spec['theta'] = flat_theta(rng, spec['pop'], spec['n_mech'], spec['sig'][:n_sig1], len(spec['kinds']))
    nT = int(rng.integers(1, 4))
    times = gen_times(rng, nT)
    ppm, mech, pop = build_predictive(chi, spec)
    cov = pop_covariates(rng, spec['pop'], n)
    theta = spec['theta']

    box = K.ArgBox(parameters=theta, times=times, covariates=cov)

    def run(seed):
        return K.array_entries(ppm.sample(box['parameters'], box['times'], n_samples=n, seed=seed, return_df=False,
                                          covariates=box['covariates']))

    cfg = {'entry': 'popPredictive', 'spec': spec, 'times': times, 'n': n, 'cov': cov}
    r = Runner('popPredictive', 'PopulationPredictiveModel',
               ['popPredictive', K.pop_wire(spec['pop']), spec['kinds'], nT, n], run,
               bounds={'ids': spec['pop']['n_ids']})
    r.box = box
    return r, cfg, 'popPredictive/%d-outputs/%d-subs' % (len(spec['kinds']), len(spec['pop']['subs'])), True


def lognormal_prior(values, width=0.05):
    return pints.ComposedLogPrior(*[pints.LogNormalLogPrior(math.log(max(abs(v), 0.05)), width) for v in values])


def runner_prior_predictive(chi, rng):
    n = int(rng.integers(1, 4))
    spec = gen_spec(rng, n, flat=True, allow_pop=True)
    if spec['type'] == 'pop':
        # the prior draws every population parameter: keep them valid (positive scales)
        for s in spec['pop']['subs']:
            s['cov'] = False
            if s['elem'] == 'gaussian':
                s['elem'] = 'logNormal'
        n_sig1 = K.em_nparams(spec['kinds'][0])
        spec['theta'] = flat_theta(rng, spec['pop'], spec['n_mech'], spec['sig'][:n_sig1], len(spec['kinds']))
    nT = int(rng.integers(1, 4))
    times = gen_times(rng, nT)
    model, mech, pop = build_predictive(chi, spec)
    params = spec_parameters(spec)
    prior = lognormal_prior(params)
    if spec['type'] == 'pop' and len(set(spec['kinds'])) == 1:
        pass
    prm = chi.PriorPredictiveModel(model, prior)
    outputs = model.get_output_names()
    ts = list(np.sort(times))

    box = K.ArgBox(times=times)

    def run(seed):
        return K.table_entries(prm.sample(box['times'], n_samples=n, seed=seed), outputs, ts)

    cfg = {'entry': 'priorPredictive', 'spec': spec, 'times': times, 'n': n}
    # with a prior on the noise scales two outputs have different scales: equal variates no longer
    # give equal values; compare standardised residuals instead (done in `pattern_prior`)
    r = Runner('priorPredictive', 'PriorPredictiveModel', ['priorPredictive', K.spec_wire(spec), nT, n], run,
               bounds={'ids': spec['pop']['n_ids']} if spec['type'] == 'pop' else {}, prior=prior,
               pattern=False, accepts_generator=False, documented_generator=True)
    r.box = box
    return r, cfg, 'priorPredictive/%s/%d-outputs' % (spec['type'], len(spec['kinds'])), n > 1 or len(outputs) > 1


def build_posterior(rng, names, spec, base_values, shift=0.0, n_chains=None, n_draws=None):
    n_chains = int(rng.integers(1, 4)) if n_chains is None else n_chains
    n_draws = int(rng.integers(2, 5)) if n_draws is None else n_draws
    pad = int(rng.choice([0, 0, 1])) if n_draws > 2 else 0
    if spec['type'] == 'pop':
        ids = None
    else:
        ids = ['id%d' % i for i in range(int(rng.integers(1, 4)))]
    jitter = rng.uniform(0.97, 1.03, size=(len(names), n_chains, n_draws, 3))

    def values(p, c, d, i):
        return float((base_values[p] + (shift if p == 0 else 0.0)) * jitter[p, c, d, i])

    pop_level = [nm for nm in names if 'Sigma' in nm]
    ds = K.make_posterior(names, n_chains, n_draws, ids, values, pop_level=pop_level, pad=pad)
    return ds, ids, n_chains * (n_draws - pad)


def runner_posterior_predictive(chi, rng):
    n = int(rng.integers(1, 4))
    spec = gen_spec(rng, n, flat=True, allow_pop=True)
    if spec['type'] == 'pop':
        for s in spec['pop']['subs']:
            s['cov'] = False
        n_sig1 = K.em_nparams(spec['kinds'][0])
        spec['theta'] = flat_theta(rng, spec['pop'], spec['n_mech'], spec['sig'][:n_sig1], len(spec['kinds']))
    nT = int(rng.integers(1, 4))
    times = gen_times(rng, nT)
    model, mech, pop = build_predictive(chi, spec)
    names = model.get_parameter_names()
    ds, ids, rows = build_posterior(rng, names, spec, spec_parameters(spec), n_draws=1 if False else None)
    # equal noise scales across outputs in every posterior row (so that equal variates => equal values)
    ppm = chi.PosteriorPredictiveModel(model, ds)
    outputs = model.get_output_names()
    ts = list(np.sort(times))
    individual = None if ids is None or rng.random() < 0.3 else ids[int(rng.integers(len(ids)))]

    box = K.ArgBox(times=times)

    def run(seed):
        return K.table_entries(ppm.sample(box['times'], n_samples=n, individual=individual, seed=seed), outputs, ts)

    cfg = {'entry': 'posteriorPredictive', 'spec': spec, 'times': times, 'n': n, 'individual': individual}
    bounds = {'rows': rows}
    if spec['type'] == 'pop':
        bounds['ids'] = spec['pop']['n_ids']
    r = Runner('posteriorPredictive', 'PosteriorPredictiveModel',
               ['posteriorPredictive', K.spec_wire(spec), nT, n], run, bounds=bounds, pattern=False)
    r.box = box
    return r, cfg, 'posteriorPredictive/%s/%d-outputs' % (spec['type'], len(outputs)), n > 1 or len(outputs) > 1


def runner_pam(chi, rng):
    n = int(rng.integers(2, 7))
    spec = gen_spec(rng, n, flat=True, allow_pop=False)
    spec['sig'] = [0.05 * x for x in spec['sig']]      # the model an ID came from must stay visible
    nT = int(rng.integers(1, 3))
    times = gen_times(rng, nT)
    n_models = int(rng.integers(2, 4))
    model, mech, _ = build_predictive(chi, spec)
    names = model.get_parameter_names()
    n_chains, n_draws = int(rng.integers(1, 3)), int(rng.integers(2, 4))
    posts = []
    base = spec_parameters(spec)
    base[0] = 1.0
    for mdl in range(n_models):
        ds = K.make_posterior(names, n_chains, n_draws, ['a', 'b'],
                              lambda p, c, d, i, mdl=mdl: float(base[p] + (3.0 * mdl if p == 0 else 0.0)
                                                                 + (0.001 * (c * n_draws + d) if p == 0 else 0.0)),
                              pop_level=[nm for nm in names if 'Sigma' in nm])
        posts.append(chi.PosteriorPredictiveModel(model, ds))
    weights = [float(x) for x in rng.uniform(0.2, 1.0, n_models)]
    pam = chi.PAMPredictiveModel(posts, weights)
    outputs = model.get_output_names()
    ts = list(np.sort(times))
    # the mechanistic output grows with psi0^2: the model an ID was drawn from is visible in its values
    level = [mech.value([base[0] + 3.0 * mdl] + list(base[1:spec['n_mech']]), 0, 0.0) for mdl in range(n_models)]
    cuts = [(level[i] + level[i + 1]) / 2 for i in range(n_models - 1)]

    box = K.ArgBox(times=times)

    def run(seed):
        return K.table_entries(pam.sample(box['times'], n_samples=n, individual='a', seed=seed), outputs, ts)

    def counts_of(entries):
        per_id = {}
        for (u, o, t), v in entries.items():
            per_id.setdefault(u, []).append(v)
        which = [int(np.searchsorted(cuts, np.median(per_id[u]))) for u in sorted(per_id)]
        return [which.count(mdl) for mdl in range(n_models)], which

    def entry(entries):
        cnt, _ = counts_of(entries)
        return ['pam', [[K.spec_wire(spec), int(c)] for c in cnt], nT]

    cfg = {'entry': 'pam', 'spec': spec, 'times': times, 'n': n, 'weights': weights, 'n_models': n_models}
    r = Runner('pam', 'PAMPredictiveModel', entry, run,
               bounds={'rows': n_chains * n_draws, 'pam_p': list(np.asarray(weights) / np.sum(weights))}, pattern=False,
               counts=(counts_of, weights))
    r.box = box
    return r, cfg, 'pam/%d-models/%d-outputs' % (n_models, len(outputs)), True


def runner_init_logposterior(chi, rng):
    n = int(rng.integers(1, 5))
    n_mech = int(rng.integers(1, 3))
    mech = toy.ToyModel(1, n_mech, int(rng.integers(100)))
    ll = chi.LogLikelihood(mech, [chi.GaussianErrorModel()], [[1.0, 2.0, 1.5]], [[0.0, 1.0, 2.0]])
    prior = pints.ComposedLogPrior(*([pints.GaussianLogPrior(1.0, 0.2)] * n_mech + [pints.HalfCauchyLogPrior(0, 1)]))
    lp = chi.LogPosterior(ll, prior)

    def run(seed):
        a = np.asarray(lp.sample_initial_parameters(n_samples=n, seed=seed), float)
        return {(k, p, 0): float(a[k, p]) for k in range(a.shape[0]) for p in range(a.shape[1])}

    def forward(m, rp):
        out = {}
        for c in m.cells:
            row = rp.value(c['par'][0])
            if row is None:
                return None
            for p, v in enumerate(np.asarray(row).ravel()):
                out[(c['unit'], p, 0)] = float(v)
        return out

    cfg = {'entry': 'initLogPosterior', 'n': n, 'n_mech': n_mech}
    r = Runner('initLogPosterior', 'LogPosterior', ['initLogPosterior', n], run, prior=prior, forward=forward,
               pattern=False, accepts_generator=False, documented_generator=False)
    return r, cfg, 'initLogPosterior', n > 1


def runner_init_hier(chi, rng, filt=False):
    n = int(rng.integers(1, 4))
    n_ids = int(rng.integers(1, 4))
    n_mech = int(rng.integers(1, 3))
    mech = toy.ToyModel(1, n_mech, int(rng.integers(100)))
    n_dim = n_mech if filt else n_mech + 1
    pop = gen_pop(rng, n_dim, n_ids, positive_from=n_mech, allow_cov=False)
    pop['composed'] = True
    pop['n_ids'] = n_ids
    theta = pop_params(rng, pop)
    model = K.build_pop(chi, pop)
    prior = lognormal_prior(theta)
    if filt:
        nS = n_ids
        obs = rng.uniform(0.5, 2.0, size=(4, 1, 3))
        flt = chi.GaussianFilter(obs)
        lp = chi.PopulationFilterLogPosterior(flt, [1.0, 2.0, 3.0], mech, model, prior, sigma=[0.3], n_samples=nS)
        n_eps = nS * 3 * 1
        name = 'PopulationFilterLogPosterior'
    else:
        lls = [chi.LogLikelihood(mech, [chi.GaussianErrorModel()], [[1.0, 2.0, 1.5]], [[0.0, 1.0, 2.0]])
               for _ in range(n_ids)]
        lp = chi.HierarchicalLogPosterior(chi.HierarchicalLogLikelihood(lls, model), prior)
        n_eps = 0
        name = 'HierarchicalLogPosterior'
    n_top = len(theta)
    # kept (hierarchical) dimensions, in order
    kept = []
    d0 = 0
    for s in pop['subs']:
        if s['elem'] not in ('pooled', 'hetero'):
            kept += list(range(d0, d0 + s['nDim']))
        d0 += s['nDim']
    n_bottom = n_ids * len(kept)

    def run(seed):
        a = np.asarray(lp.sample_initial_parameters(n_samples=n, seed=seed), float)
        out = {}
        for k in range(a.shape[0]):
            if filt:
                top, bottom, eps = a[k, :n_top], a[k, n_top:n_top + n_bottom], a[k, n_top + n_bottom:]
            else:
                bottom, top, eps = a[k, :n_bottom], a[k, n_bottom:], a[k, :0]
            for p, v in enumerate(top):
                out[(k, 0, p)] = float(v)
            for j, v in enumerate(bottom):
                out[(k, 1 + j // len(kept), j % len(kept))] = float(v)
            for j, v in enumerate(eps):
                out[(k, n_ids + 1, j)] = float(v)
        return out

    def forward(m, rp):
        """top rows from the prior's array, bottom rows by the population transformation of the variates the
        model says each individual reads (per dimension: the reads of `population` run at the same
        generator position), noise realisations from the last call"""
        out = {}
        tops = {}
        for c in m.cells:
            if c['out'] == 0:
                row = rp.value(c['par'][0])
                if row is None:
                    return None
                tops[c['unit']] = [float(v) for v in np.asarray(row).ravel()]
                for p, v in enumerate(tops[c['unit']]):
                    out[(c['unit'], 0, p)] = v
        for c in m.cells:
            if c['out'] == n_ids + 1:
                for j, r in enumerate(c['noise']):
                    out[(c['unit'], n_ids + 1, j)] = float(rp.value(r))
        return out, tops

    cfg = {'entry': 'initHierarchical', 'pop': pop, 'n_ids': n_ids, 'n': n, 'filter': filt, 'theta': theta}
    r = Runner('initHierarchical', name, ['initHierarchical', K.pop_wire(pop), n_ids, n_eps, n], run,
               bounds={'ids': n_ids}, prior=prior, forward=None, pattern=False, accepts_generator=False,
               documented_generator=False)
    r.hier = {'forward': forward, 'pop': pop, 'n_ids': n_ids, 'kept': kept, 'n': n, 'n_eps': n_eps}
    return r, cfg, 'init/%s' % name, n > 1 or n_ids > 1


RUNNERS = [runner_error, runner_population, runner_predictive, runner_pop_predictive, runner_prior_predictive,
           runner_posterior_predictive, runner_pam, runner_init_logposterior, runner_init_hier]


# ----------------------------------------------------------------------------------------
# checks on one runner
# ----------------------------------------------------------------------------------------
def duplicates(entries, cells_by_label=None):
    """pairs of different labels with exactly equal values, classified by what differs"""
    groups = {}
    for lab, v in entries.items():
        groups.setdefault(v, []).append(lab)
    kinds = set()
    for g in groups.values():
        if len(g) < 2:
            continue
        for a in g:
            for b in g:
                if a < b:
                    if a[0] != b[0]:
                        kinds.add('samples')
                    elif a[1] != b[1]:
                        kinds.add('outputs')
                    else:
                        kinds.add('times')
    return sorted(kinds)


def seed_kind(seed):
    if seed is None:
        return 'none'
    if isinstance(seed, (int, np.integer)):
        return 'int'
    return 'generator'


def check_runner(ctx, chi, r, cfg, cls, nontrivial, rng):
    s, s2, g = gen_seed_triplet(rng)
    if cfg.get('force_seed') is not None:
        s = int(cfg['force_seed'])
        s2 = s + 11
    w1, w2 = gen_worlds(rng)
    inp = dict(cfg, seed=s, seed2=s2, gen=list(g), world1=list(w1), world2=list(w2))
    tagc = r.cls
    if r.box is not None and not getattr(r, 'run_is_checked', False):
        # the same argument arrays are handed to every call of this case and must come back unchanged
        raw_run = r.run

        def run_checked(seed_):
            try:
                return raw_run(seed_)
            finally:
                r.box.check(ctx, 'C16.arguments_unchanged/%s' % tagc, dict(inp, call_seed=repr(seed_)[:60]))
        r.run = run_checked
        r.run_is_checked = True

    # ------------------------------------------------------------------ integer seed
    K.set_world(w1)
    out1 = r.run(s)
    glob1 = np.random.get_state()
    K.set_world(w2)
    interleave(chi, s)
    before2 = np.random.get_state()
    out2 = r.run(s)
    ctx.case(cls + '/int', nontrivial=(cls + '/int') if nontrivial else False, sample=inp)
    rep_ok = K.entries_equal(out1, out2)
    if r.name == 'pam' and r.counts is not None:
        # make the failure of the code as it is deterministic: choose a second global state for which
        # np.random.choice allots different numbers of samples
        rep_ok = pam_reproducible(ctx, r, s, w1, out1, inp)
    ctx.spec('C16.reproducible/%s.int_seed' % tagc, rep_ok, inp,
             {'first': sorted(out1.items())[:4], 'second': sorted(out2.items())[:4]})
    out3 = r.run(s2)
    if r.random:
        ctx.spec('C16.seed_sensitive/%s' % tagc, not K.entries_equal(out1, out3), inp)
        check_seed_sensitive_entries(ctx, r, cfg, out1, out3, inp)
    entry = r.entry(out1) if callable(r.entry) else r.entry

    v = AS_IS
    m = K.model_run(ctx, v, entry, s, w1)
    ctx.agree('C16.accepts_int_seed/%s' % r.name, True, not m.err, inp)
    ctx.agree('C16.labels/%s' % r.name, sorted(out1.keys()) if r.name not in ('initLogPosterior', 'initHierarchical')
              else len(set(k[0] for k in out1)),
              sorted(m.by_label().keys()) if r.name not in ('initLogPosterior', 'initHierarchical')
              else len(set(c['unit'] for c in m.cells)), inp)
    if r.pattern:
        ctx.agree('C16.equality_pattern/%s.int_seed' % r.name, K.partition(out1), K.read_partition(m.cells), inp)
    rp = K.Replay(w1, s, r.bounds, r.prior).run(m.calls)
    if r.forward is not None:
        pred = r.forward(m, rp)
        if pred is not None:
            ctx.agree('C16.replay/%s.int_seed' % r.name, sorted(out1.items()), sorted(pred.items()), inp)
    if getattr(r, 'hier', None):
        check_hier(ctx, chi, r, m, rp, out1, s, w1, inp)
    # the global generator afterwards
    want = rp.state_of(m.glob_after[0])
    if want is not None:
        ctx.agree('C16.global_state_after/%s.int_seed' % r.name, True, K.legacy_state_equal(glob1, want), inp)
    # independence: entries pairwise different
    check_independent(ctx, r, out1, 'int', inp, cfg)
    if r.name == 'priorPredictive':
        check_prior_pattern(ctx, chi, r, cfg, m, out1, s, w1, inp)

    # ------------------------------------------------------------------ generator
    ctx.case(cls + '/generator', nontrivial=(cls + '/generator') if nontrivial else False)
    gobj = K.make_seed(g)
    state0 = gobj.bit_generator.state
    K.set_world(w1)
    try:
        outA = r.run(gobj)
        raised = None
    except Exception as e:  # noqa
        raised = core.errkind(e)
        ctx.errkinds.add(raised)
    entry_g = entry if not callable(r.entry) else r.entry(outA if raised is None else out1)
    vg = v
    mg = K.model_run(ctx, vg, entry_g, g, w1)
    if r.name == 'priorPredictive':
        # one integer is drawn from the Generator and used as the seed: the model is told its value
        vg = as_is(K.make_seed(g).integers(low=0, high=1E6))
        mg = K.model_run(ctx, vg, entry_g, g, w1)
    ctx.agree('C16.generator_accepted/%s' % r.name, raised is None, not mg.err, inp)
    if r.documented_generator:
        ctx.spec('C16.generator_accepted/%s' % tagc, raised is None, inp, {'raised': raised})
    if raised is None:
        stateA = gobj.bit_generator.state
        globA = np.random.get_state()
        rpg = K.Replay(w1, g, r.bounds, r.prior).run(mg.calls)
        ctx.agree('C16.generator_state_after/%s' % r.name, True,
                  stateA == rpg.state_of(['S', g[1]]), inp)
        want = rpg.state_of(mg.glob_after[0])
        if want is not None:
            ctx.agree('C16.global_state_after/%s.generator' % r.name, True, K.legacy_state_equal(globA, want), inp)
        if r.pattern:
            ctx.agree('C16.equality_pattern/%s.generator' % r.name, K.partition(outA), K.read_partition(mg.cells), inp)
        if r.forward is not None:
            pred = r.forward(mg, rpg)
            if pred is not None:
                ctx.agree('C16.replay/%s.generator' % r.name, sorted(outA.items()), sorted(pred.items()), inp)
        reads_any = any(c['noise'] or c['par'] for c in mg.cells)
        outB = r.run(gobj)
        K.set_world(w2)
        interleave(chi, s2)
        outA2 = r.run(K.make_seed(g))
        if reads_any:
            # (values may coincide by chance only where every variate is a choice among a few rows)
            restarted = r.continuous and K.entries_equal(outA, outB)
            ctx.spec('C16.generator_advanced/%s' % tagc,
                     gobj.bit_generator.state != stateA and stateA != state0 and not restarted,
                     inp, {'restarted': restarted})
        # second call continues the stream: model run from the advanced counter
        if mg.seed_after is not None and not callable(r.entry):
            vg2 = as_is(_clone_generator(state_of=stateA).integers(low=0, high=1E6))
            m2 = K.model_run_wire(ctx, vg2, entry, mg.seed_after, K.world_wire(w1))
            rp2 = K.Replay(w1, g, r.bounds, r.prior)
            rp2.gens[K.skey(['S', g[1]])] = _clone_generator(state_of=stateA)
            rp2._seed_key = (K.skey(['S', g[1]]), mg.seed_after[2])
            rp2.run(m2.calls)
            ctx.agree('C16.generator_second_call_state/%s' % r.name, True,
                      gobj.bit_generator.state == rp2.state_of(['S', g[1]]), inp)
            if r.forward is not None:
                pred = r.forward(m2, rp2)
                if pred is not None:
                    ctx.agree('C16.generator_second_call_replay/%s' % r.name, sorted(outB.items()),
                              sorted(pred.items()), inp)
        rep_g = K.entries_equal(outA, outA2)
        if r.name == 'pam':
            rep_g = True if rep_ok is False else rep_g   # the known PAM defect is reported once, under int_seed
        ctx.spec('C16.reproducible/%s.generator' % tagc, rep_g, inp)
        check_independent(ctx, r, outA, 'generator', inp, cfg)

    # ------------------------------------------------------------------ no seed
    ctx.case(cls + '/none', nontrivial=(cls + '/none') if nontrivial else False)
    K.set_world(w1)
    outN = r.run(None)
    entryN = r.entry(outN) if callable(r.entry) else r.entry
    mn = K.model_run(ctx, v, entryN, None, w1)
    if r.pattern:
        ctx.agree('C16.equality_pattern/%s.none' % r.name, K.partition(outN), K.read_partition(mn.cells), inp)
    check_independent(ctx, r, outN, 'none', inp, cfg)


def _clone_generator(state_of):
    g = np.random.default_rng(0)
    g.bit_generator.state = state_of
    return g


def pop_standardise_value(pop, theta, d, x):
    """(kind, primitive variate) behind the value x of dimension d, for continuous dimensions"""
    d0 = p0 = 0
    for sub in pop['subs']:
        npar = K.sub_nparams(sub, pop['n_ids'], pop['n_cov'])
        w, e = sub['nDim'], sub['elem']
        if d0 <= d < d0 + w:
            pr = theta[p0:p0 + npar]
            dd = d - d0
            if e in ('gaussian', 'logNormal'):
                if not sub.get('centered', True):
                    return ('normal', x)
                if e == 'gaussian':
                    return ('normal', (x - pr[dd]) / pr[w + dd])
                return ('normal', (math.log(x) - pr[dd]) / pr[w + dd]) if x > 0 else None
            if e == 'truncGauss':
                mu, sg = pr[dd], pr[w + dd]
                return ('uniform', float(truncnorm.cdf(x, a=-mu / sg, b=np.inf, loc=mu, scale=sg)))
            return None
        d0 += w
        p0 += npar
    return None


def near_duplicates(z):
    """pairs of labels whose primitive variates coincide (same kind, equal to 1e-9)"""
    items = sorted(((kv[0], kv[1], lab) for lab, kv in z.items() if kv is not None), key=lambda t: (t[0], t[1]))
    out = []
    for a, b in zip(items, items[1:]):
        if a[0] == b[0] and abs(a[1] - b[1]) <= 1e-9 * max(1.0, abs(a[1])):
            out.append((a[2], b[2]))
    return out


def check_independent_population(ctx, r, cfg, out, sk, inp):
    pop, theta = cfg['pop'], cfg['theta']
    z = {lab: pop_standardise_value(pop, theta, lab[1], x) for lab, x in out.items()}
    dup = near_duplicates(z)
    ctx.spec('C16.independent_individuals/%s.%s_seed' % (r.cls, sk), not any(a[0] != b[0] for a, b in dup), inp,
             {'equal_variates': dup[:3]})
    ctx.spec('C16.independent_dimensions/%s.%s_seed' % (r.cls, sk), not any(a[0] == b[0] for a, b in dup), inp,
             {'equal_variates': dup[:3]})


def init_standardise(r, out):
    """primitive variate behind every bottom-level / noise entry of sample_initial_parameters, given the
    top-level parameters of the same sample"""
    h = r.hier
    pop, kept, n_ids = h['pop'], h['kept'], h['n_ids']
    z = {}
    for (k, o, j), x in out.items():
        if 1 <= o <= n_ids:
            theta = [out[(k, 0, p)] for p in range(len([1 for key in out if key[0] == k and key[1] == 0]))]
            z[(k, o, j)] = pop_standardise_value(pop, theta, kept[j], x)
        elif o == n_ids + 1:
            z[(k, o, j)] = ('normal', x)
        else:
            z[(k, o, j)] = ('top', x)
    return z


def check_seed_sensitive_entries(ctx, r, cfg, out_a, out_b, inp):
    """different seeds give different draws — entry by entry: no entry that has randomness of its own may be
    computed from the same variate under both seeds (comparing whole results would accept a result of which
    only a part still depends on the seed)"""
    if not (r.random and r.continuous):
        return
    if r.name == 'population':
        za = {lab: pop_standardise_value(cfg['pop'], cfg['theta'], lab[1], x) for lab, x in out_a.items()}
        zb = {lab: pop_standardise_value(cfg['pop'], cfg['theta'], lab[1], x) for lab, x in out_b.items()}
    elif r.name == 'initHierarchical':
        za, zb = init_standardise(r, out_a), init_standardise(r, out_b)
    else:
        za = {lab: ('value', x) for lab, x in out_a.items()}
        zb = {lab: ('value', x) for lab, x in out_b.items()}
    same = []
    for lab, a in za.items():
        b = zb.get(lab)
        if a is None or b is None or a[0] != b[0]:
            continue
        if abs(a[1] - b[1]) <= 1e-9 * max(1.0, abs(a[1])):
            same.append(lab)
    ctx.spec('C16.seed_sensitive_entries/%s' % r.cls, not same, inp,
             {'entries_with_the_same_variate_under_both_seeds': sorted(same)[:6], 'n_entries': len(za)})


def check_independent_init(ctx, r, out, sk, inp):
    n_ids = r.hier['n_ids']
    z = {lab: v for lab, v in init_standardise(r, out).items() if v is None or v[0] != 'top'}
    dup = near_duplicates(z)
    ctx.spec('C16.independent_samples/%s.%s_seed' % (r.cls, sk), not any(a[0] != b[0] for a, b in dup), inp,
             {'equal_variates': dup[:3]})
    ctx.spec('C16.independent_individuals/%s.%s_seed' % (r.cls, sk),
             not any(a[0] == b[0] for a, b in dup), inp, {'equal_variates': dup[:3]})


def check_independent(ctx, r, out, sk, inp, cfg=None):
    """entries with their own noise must be pairwise different numbers"""
    if r.name == 'population':
        # deterministic (pooled) or row-copying (heterogeneous) entries may legitimately coincide:
        # compare the primitive variates behind the continuous dimensions
        return check_independent_population(ctx, r, cfg, out, sk, inp)
    if r.name == 'initHierarchical':
        return check_independent_init(ctx, r, out, sk, inp)
    if r.name == 'initLogPosterior':
        return
    dup = duplicates(out)
    for what in ('outputs', 'times', 'samples'):
        ctx.spec('C16.independent_%s/%s.%s_seed' % (what, r.cls, sk), what not in dup, inp,
                 {'equal_entries': K.partition(out)[:3]})


def pam_reproducible(ctx, r, s, w1, out1, inp):
    counts_of, weights = r.counts
    c1, _ = counts_of(out1)
    n = sum(c1)
    p = np.asarray(weights) / np.sum(weights)

    def legacy_counts(k):
        u = np.random.RandomState(k).random_sample(n)
        d = np.searchsorted(np.cumsum(p), u, side='right')
        return [int(np.sum(d == mdl)) for mdl in range(len(weights))]
    k = 1
    while legacy_counts(k) == c1 and k < 500:
        k += 1
    np.random.seed(k)
    out2 = r.run(s)
    c2, _ = counts_of(out2)
    inp['pam_counts'] = [c1, c2, legacy_counts(int(w1[1])) if w1[2] == 0 else None]
    return K.entries_equal(out1, out2)


def prior_standardised(r, cfg, out1, s):
    """PriorPredictiveModel over an individual-level model: standardised residual of every entry, given the
    parameters of sample k = row k of the prior's draws under the global generator seeded with `seed`"""
    spec = cfg['spec']
    if spec['type'] != 'indiv' or spec['kinds'][0] == 'CM':
        return None
    n, times = cfg['n'], cfg['times']
    ts = np.sort(times)
    keep = np.random.get_state()
    np.random.seed(s)
    rows = [r.prior.sample().flatten() for _ in range(n)]
    np.random.set_state(keep)
    cls_ = K.FlatToy if spec.get('flat') else toy.ToyModel
    mech = cls_(len(spec['kinds']), spec['n_mech'], spec['toy_seed'])
    kind = spec['kinds'][0]
    z = {}
    for (u, o, t), val in out1.items():
        psi = rows[u][:spec['n_mech']]
        sig = rows[u][spec['n_mech'] + o * 1]
        yb = mech.simulate(psi, ts)[o][t]
        if kind == 'G':
            z[(u, o, t)] = (val - yb) / sig
        elif kind == 'M':
            z[(u, o, t)] = (val - yb) / (yb * sig)
        else:
            z[(u, o, t)] = (math.log(val / yb) + sig ** 2 / 2) / sig
    return z


def prior_model_noise(r, m, s, w1):
    """the noise variate the model says every entry reads"""
    rp = K.Replay(w1, s, r.bounds, r.prior)
    rp.run([c for c in m.calls if c['kind'] != 'prior'])
    pred = {}
    for c in m.cells:
        v = rp.value(c['noise'][0])
        if v is not None:
            pred[(c['unit'], c['out'], c['time'])] = float(v)
    return pred


def check_prior_pattern(ctx, chi, r, cfg, m, out1, s, w1, inp):
    """given the prior draws, standardised residuals of two outputs coincide exactly when the model says they
    read the same variates"""
    spec = cfg['spec']
    z = prior_standardised(r, cfg, out1, s)
    if z is None:
        return
    pred = prior_model_noise(r, m, s, w1)
    ctx.agree('C16.replay/priorPredictive.standardised_noise', sorted(z.items()), sorted(pred.items()), inp,
              rtol=1e-7, atol=1e-7)
    same = False
    for (u, o, t), v in z.items():
        for o2 in range(o + 1, len(spec['kinds'])):
            if abs(v - z[(u, o2, t)]) < 1e-7 * max(1.0, abs(v)):
                same = True
    ctx.spec('C16.independent_outputs/PriorPredictiveModel.int_seed', not same, inp,
             {'standardised_noise_equal_across_outputs': same})


def check_hier(ctx, chi, r, m, rp, out1, s, w1, inp):
    h = r.hier
    res = h['forward'](m, rp)
    if res is None:
        return
    pred, tops = res
    pop, n_ids, kept = h['pop'], h['n_ids'], h['kept']
    # bottom level: per sample the population model is run once more at the modelled generator position
    ctr = 0
    for k in range(h['n']):
        mk = K.model_run_wire(ctx, AS_IS, ['population', K.pop_wire(pop), n_ids], ['gen', ['S', s + 1], ctr],
                              K.world_wire(w1))
        ctr = mk.seed_after[2]
        f = pop_forward(chi, pop, tops[k], n_ids, None)(mk, rp)
        if f is None:
            return
        union = {}
        for (i, d, _), v in f.items():
            if d in kept:
                pred[(k, 1 + i, kept.index(d))] = v
        for c in mk.cells:
            union.setdefault(c['unit'], []).extend(c['par'])
        mine = {c['out'] - 1: c['noise'] for c in m.cells if c['unit'] == k and 1 <= c['out'] <= n_ids}
        ctx.agree('C16.init.reads_per_individual', sorted(mine.items()), sorted(union.items()), inp)
    ctx.agree('C16.replay/%s.int_seed' % r.cls, sorted(out1.items()), sorted(pred.items()), inp)


# ----------------------------------------------------------------------------------------
def corpus(ctx, chi):
    """inputs of the counterexample theorems about the pre-fix code: the code as it is must not show them"""
    # C16_independent_outputs_counterexample: two outputs, Gaussian error models, integer seed
    mech = K.FlatToy(2, 1, 3)
    pm = chi.PredictiveModel(mech, [chi.GaussianErrorModel(), chi.GaussianErrorModel()])
    inp = {'witness': 'C16_independent_outputs_counterexample', 'seed': 7}
    a = K.array_entries(pm.sample([1.0, 0.3, 0.3], [1.0, 2.0], n_samples=2, seed=7, return_df=False))
    m = K.model_run(ctx, AS_IS, ['predictive', ['G', 'G'], 2, 2], 7, ('LS', 0, 0))
    ctx.case('corpus/predictive-int', nontrivial='corpus/predictive-int', sample=inp)
    ctx.agree('C16.witness/predictive.int_seed', K.partition(a), K.read_partition(m.cells), inp)
    ctx.spec('C16.independent_outputs/PredictiveModel.int_seed', 'outputs' not in duplicates(a), inp,
             {'equal_entries': K.partition(a)[:2]})


def bare_models_boundary_seeds(ctx, chi):
    """elementary population / error models used directly (not inside a composed model, where they
    receive a Generator), with the boundary integer seeds 0 and 1: same seed twice under different
    global states and interleaved calls gives identical draws; the two seeds give different draws"""
    pops = [('GaussianModel', lambda: chi.GaussianModel(), [1.0, 0.5]),
            ('LogNormalModel', lambda: chi.LogNormalModel(), [0.2, 0.5]),
            ('TruncatedGaussianModel', lambda: chi.TruncatedGaussianModel(), [1.0, 2.0]),
            ('GaussianModel(nc)', lambda: chi.GaussianModel(centered=False), [1.0, 0.5])]
    objs = []
    for name, mk, th in pops:
        objs.append((name, mk(), th))
        red = chi.ReducedPopulationModel(mk())
        red.fix_parameters({red.get_parameter_names()[-1]: th[-1]})
        objs.append(('ReducedPopulationModel(%s)' % name, red, th[:-1]))
    ems = [('GaussianErrorModel', chi.GaussianErrorModel(), [0.5]),
           ('LogNormalErrorModel', chi.LogNormalErrorModel(), [0.3]),
           ('ConstantAndMultiplicativeGaussianErrorModel', chi.ConstantAndMultiplicativeGaussianErrorModel(), [0.5, 0.1])]
    for name, m, th in objs:
        draws = {}
        for seed in (0, 1):
            np.random.seed(12345)
            a = np.asarray(m.sample(th, n_samples=6, seed=seed), float)
            np.random.seed(54321)
            np.random.normal(size=17)
            chi.GaussianModel().sample([0, 1], n_samples=3, seed=3)
            b = np.asarray(m.sample(th, n_samples=6, seed=seed), float)
            inp = {'object': name, 'parameters': th, 'seed': seed, 'case': 'bare-boundary-seed'}
            ctx.case('bare/%s/seed%d' % (name.split('(')[0], seed), nontrivial='bare/%s/%d' % (name, seed), sample=inp)
            ctx.spec('C16.reproducible/%s.int_seed' % name.split('(')[0], np.array_equal(a, b), inp,
                     {'first': a.ravel()[:4], 'second': b.ravel()[:4]})
            draws[seed] = a
        ctx.spec('C16.seed_sensitive/%s' % name.split('(')[0], not np.array_equal(draws[0], draws[1]),
                 {'object': name, 'seeds': [0, 1]})
    for name, m, th in ems:
        for seed in (0, 1):
            np.random.seed(1)
            a = np.asarray(m.sample(th, [1.0, 2.0], n_samples=4, seed=seed), float)
            np.random.seed(2)
            np.random.normal(size=5)
            b = np.asarray(m.sample(th, [1.0, 2.0], n_samples=4, seed=seed), float)
            inp = {'object': name, 'seed': seed, 'case': 'bare-boundary-seed'}
            ctx.case('bare/%s/seed%d' % (name, seed), nontrivial='bare/%s/%d' % (name, seed), sample=inp)
            ctx.spec('C16.reproducible/%s.int_seed' % name, np.array_equal(a, b), inp)


# ----------------------------------------------------------------------------------------
# histories on ONE object: the arguments (individual, n_samples, times) change from call to call
# ----------------------------------------------------------------------------------------
def history_posterior(ctx, chi, rng, case):
    """ONE PosteriorPredictiveModel / PAMPredictiveModel over a posterior with >= 2 individuals is asked for
    different individuals (also the default one), sample sizes and times in sequence.  The seed determines the
    result whatever was called before on the object: every call must return what a freshly built object returns
    for the same arguments and the same seed (under another global generator state)."""
    spec = gen_spec(rng, 1, flat=False, allow_pop=False)
    n_mech = spec['n_mech']
    ids = ['id%d' % i for i in range(int(rng.integers(2, 5)))]
    if rng.random() < 0.3:
        ids = [str(x) for x in rng.permutation(ids)]
    n_chains, n_draws = int(rng.integers(1, 4)), int(rng.integers(2, 6))
    pad = int(rng.choice([0, 0, 1])) if n_draws > 2 else 0
    use_pam = bool(rng.random() < 0.3)
    n_models = int(rng.integers(2, 4)) if use_pam else 1
    base = spec_parameters(spec)
    jitter = rng.uniform(0.97, 1.03, size=(n_models, len(base), n_chains, n_draws, len(ids)))
    all_individual = bool(rng.random() < 0.3)        # also the noise scales are individual-level parameters
    weights = [float(x) for x in rng.uniform(0.2, 1.0, n_models)]

    def make():
        model, _, _ = build_predictive(chi, spec)
        names = model.get_parameter_names()
        pop_level = [] if all_individual else [nm for nm in names if 'Sigma' in nm]
        posts = []
        for mdl in range(n_models):
            # the individuals' parameters are clearly separated: whose posterior was used shows in the values
            ds = K.make_posterior(
                names, n_chains, n_draws, ids,
                lambda p, c, d, i, mdl=mdl: float(base[p] * (1.0 + (0.5 * i + 0.13 * mdl if p < n_mech else 0.0))
                                                  * jitter[mdl, p, c, d, i]),
                pop_level=pop_level, pad=pad)
            posts.append(chi.PosteriorPredictiveModel(model, ds))
        obj = chi.PAMPredictiveModel(posts, weights) if use_pam else posts[0]
        return obj, model.get_output_names()

    n_calls = int(rng.integers(2, 6))
    calls = []
    for j in range(n_calls):
        ind = None if rng.random() < 0.2 else ids[int(rng.integers(len(ids)))]
        s, _, g = gen_seed_triplet(rng)
        calls.append({'individual': ind, 'seed': list(g) if rng.random() < 0.3 else s,
                      'n': None if rng.random() < 0.15 else int(rng.integers(1, 5)),
                      'times': gen_times(rng, int(rng.integers(1, 4)))})
    eff = [c['individual'] or ids[0] for c in calls]
    if len(set(eff)) < 2:
        calls[-1]['individual'] = [i for i in ids if i != eff[0]][int(rng.integers(len(ids) - 1))]
    if rng.random() < 0.4:
        # the same seed (and arguments) for two different individuals
        calls[-1]['seed'] = calls[0]['seed']
        if rng.random() < 0.5:
            calls[-1]['n'], calls[-1]['times'] = calls[0]['n'], list(calls[0]['times'])

    def seed_obj(sd):
        return K.make_seed(tuple(sd)) if isinstance(sd, list) else int(sd)

    def call(obj, outputs, c):
        df = obj.sample(list(c['times']), n_samples=c['n'], individual=c['individual'], seed=seed_obj(c['seed']))
        return K.table_entries(df, outputs, list(np.sort(c['times'])))

    cls = type(make()[0]).__name__
    inp = {'case': case, 'entry': 'history/' + cls, 'spec': spec, 'ids': ids, 'n_chains': n_chains,
           'n_draws': n_draws, 'pad': pad, 'calls': calls, 'weights': weights if use_pam else None}
    ctx.case('history/%s' % cls, nontrivial='history/%s/%d-calls' % (cls, min(n_calls, 3)), sample=inp)
    held, outputs = make()
    for j, c in enumerate(calls):
        w1, w2 = gen_worlds(rng)
        K.set_world(w1)
        got = call(held, outputs, c)
        K.set_world(w2)
        interleave(chi, j)
        fresh, _ = make()
        want = call(fresh, outputs, c)
        ctx.spec('C16.reproducible_after_other_calls/%s' % cls, K.entries_equal(got, want),
                 dict(inp, call_index=j, world1=list(w1), world2=list(w2)),
                 {'object_with_history': sorted(got.items())[:4], 'fresh_object': sorted(want.items())[:4],
                  'earlier_individuals': [x['individual'] for x in calls[:j]], 'individual': c['individual']})


# ----------------------------------------------------------------------------------------
# large cohorts: the random effects of the individuals of ONE call are pairwise different draws
# ----------------------------------------------------------------------------------------
def large_cohort(ctx, chi, rng, case, force_trunc_cov=False):
    """thousands of individuals from one call of a population model (elementary, covariate-wrapped, inside a
    composed model; integer or Generator seed).  The inter-individual fluctuations are draws from a continuous
    distribution: no two individuals may carry the same one (streams restarted from a small set of derived
    seeds show as exact ties in a cohort of this size)."""
    n = int(rng.integers(4500, 6001))
    elem = ['gaussian', 'logNormal', 'logNormal', 'truncGauss'][int(rng.integers(4))]
    sub = {'elem': elem, 'nDim': int(rng.integers(1, 3)), 'cov': bool(rng.random() < 0.7),
           'centered': bool(rng.random() < 0.7)}
    if force_trunc_cov:
        sub['elem'], sub['cov'] = 'truncGauss', True
    subs = [sub]
    composed = bool(rng.random() < 0.5)
    if composed:
        other = {'elem': ['gaussian', 'pooled', 'logNormal'][int(rng.integers(3))], 'nDim': 1,
                 'cov': bool(rng.random() < 0.3), 'centered': True}
        subs = [other, sub] if rng.random() < 0.5 else [sub, other]
    pop = {'subs': subs, 'composed': composed, 'n_ids': 2, 'n_cov': int(rng.integers(1, 3))}
    theta = pop_params(rng, pop)
    nc = K.pop_ncov_total(pop)
    cov = None
    if nc:
        if rng.random() < 0.4:
            cov = [float(x) for x in rng.uniform(-1, 1, nc)]                    # one sub-population
        else:
            cov = rng.uniform(-1, 1, size=(n, nc)).tolist()
    s, _, g = gen_seed_triplet(rng)
    seed = list(g) if rng.random() < 0.4 else s
    model = K.build_pop(chi, pop)
    K.set_world(gen_worlds(rng)[0])
    sd = K.make_seed(tuple(seed)) if isinstance(seed, list) else seed
    if composed:
        a = model.sample(theta, n_samples=n, seed=sd, covariates=cov)
    elif sub['cov']:
        a = model.sample(theta, cov, n_samples=n, seed=sd)
    else:
        a = model.sample(theta, n_samples=n, seed=sd)
    a = np.asarray(a, float)
    cls = type(model).__name__
    name = '+'.join(('cov:' if x.get('cov') else '') + x['elem'] for x in subs)
    inp = {'case': case, 'entry': 'large_cohort', 'pop': pop, 'theta': theta, 'n': n, 'seed': seed,
           'covariates': cov if cov is None or not isinstance(cov[0], list) else 'uniform(-1, 1) rows'}
    ctx.case('large_cohort/%s' % name, nontrivial='large_cohort/%s' % name, sample=inp)
    # (covariate coefficients are zero in `pop_params`: equal fluctuations give bit-identical parameters)
    tied, pairs = 0, []
    d0 = 0
    for x in subs:
        for d in range(d0, d0 + x['nDim']):
            if x['elem'] in ('pooled', 'hetero'):
                continue
            col = a[:, d]
            order = np.argsort(col, kind='stable')
            eq = np.nonzero(np.diff(col[order]) == 0)[0]
            tied += len(eq)
            pairs += [(int(order[k]), int(order[k + 1]), d) for k in eq[:2]]
        d0 += x['nDim']
    if any(x['elem'] == 'truncGauss' and x.get('cov') for x in subs):
        # (own tag: TruncatedGaussianModel turns a Generator into one of 10^6 integer seeds per call, and the
        # covariate wrapper calls it once per individual)
        cls = 'CovariatePopulationModel(TruncatedGaussianModel)'
    ctx.spec('C16.independent_individuals/%s.large_cohort' % cls, a.shape[0] == n and tied == 0, inp,
             {'individuals_with_the_fluctuation_of_another_one': tied, 'pairs (i, j, dim)': pairs[:4]})


def run(ctx):
    chi = core.import_chi()
    check_numpy_identities(ctx)
    ctx.guard(corpus, ctx, chi)
    ctx.guard(bare_models_boundary_seeds, ctx, chi)
    n = 80 if ctx.tier == 'quick' else 1300
    k = 0
    for rep in range(n):
        for mk in RUNNERS:
            rng = ctx.sub_rng(k)
            k += 1
            if mk is runner_init_hier:
                r, cfg, cls, nontriv = mk(chi, rng, filt=bool(rep % 3 == 2))
            else:
                r, cfg, cls, nontriv = mk(chi, rng)
            cfg['case'] = k - 1
            ctx.guard(check_runner, ctx, chi, r, cfg, cls, nontriv, rng)
    for j in range(24 if ctx.tier == 'quick' else 300):
        ctx.guard(history_posterior, ctx, chi, ctx.sub_rng(3 * 10 ** 6 + j), 'history/%d' % j)
    for j in range(6 if ctx.tier == 'quick' else 60):
        ctx.guard(large_cohort, ctx, chi, ctx.sub_rng(4 * 10 ** 6 + j), 'cohort/%d' % j, force_trunc_cov=(j == 0))
    # boundary seed 0 (a valid integer seed that is falsy) on every kind of entry point, and on a
    # population model that contains each elementary sampler
    wanted = ['gaussian', 'logNormal', 'truncGauss', 'hetero', 'pooled']
    for j, mk in enumerate(RUNNERS):
        rng = ctx.sub_rng(10 ** 6 + j)
        r, cfg, cls, nontriv = mk(chi, rng, filt=False) if mk is runner_init_hier else mk(chi, rng)
        cfg['case'] = 'seed0/%d' % j
        cfg['force_seed'] = 0
        ctx.guard(check_runner, ctx, chi, r, cfg, cls, nontriv, rng)
    for j, elem in enumerate(wanted):
        for t in range(60):
            rng = ctx.sub_rng(2 * 10 ** 6 + 100 * j + t)
            r, cfg, cls, nontriv = runner_population(chi, rng)
            if elem in cls:
                cfg['case'] = 'seed0/pop/%s' % elem
                cfg['force_seed'] = 0
                ctx.guard(check_runner, ctx, chi, r, cfg, cls, nontriv, rng)
                break


def replay(ctx, data):
    chi = core.import_chi()
    inp = data['failing']['input']
    if 'case' not in inp:
        corpus(ctx, chi)
    elif isinstance(inp['case'], str) and inp['case'].split('/')[0] in ('history', 'cohort'):
        kind, j = inp['case'].split('/')
        ctx.seed = data.get('seed', ctx.seed)
        if kind == 'history':
            history_posterior(ctx, chi, ctx.sub_rng(3 * 10 ** 6 + int(j)), inp['case'])
        else:
            large_cohort(ctx, chi, ctx.sub_rng(4 * 10 ** 6 + int(j)), inp['case'], force_trunc_cov=(int(j) == 0))
    else:
        k = int(inp['case'])
        saved = ctx.seed
        ctx.seed = data.get('seed', saved)
        rng = ctx.sub_rng(k)
        mk = RUNNERS[k % len(RUNNERS)]
        if mk is runner_init_hier:
            r, cfg, cls, nontriv = mk(chi, rng, filt=bool((k // len(RUNNERS)) % 3 == 2))
        else:
            r, cfg, cls, nontriv = mk(chi, rng)
        cfg['case'] = k
        check_runner(ctx, chi, r, cfg, cls, nontriv, rng)
    print('spec failures on replay:', [b['tag'] for b in ctx.spec_bad][:6])
    print('disagreements on replay:', ctx.corr_bad[:2])
    known = {f['tag'] for f in ctx.findings if f.get('status') == 'known'}
    return 1 if any(b['tag'] not in known for b in ctx.spec_bad) else 0
