"""C13 — filter posterior = prior + population + noise + filter terms; exact gradient; names / IDs"""
import copy
import json
import math
import numpy as np
import pints

import core
import oracle
import toy
from props import c12

REQUIRED_THEOREMS = [
    'C13_layout', 'C13_blocks', 'C13_special_dims', 'C13_special_dims_mem', 'C13_scatter', 'C13_gather',
    'C13_scatter_gather', 'C13_all_heterogeneous_counterexample', 'C13_wrapped_pooled_counterexample',
    'C13_noise_is_standard_normal', 'C13_value', 'C13_value_times', 'C13_call_val', 'C13_call_neginf',
    'C13_grad', 'C13_grad_entry', 'C13_names_ids', 'C13_constructor_keeps_arguments',
    'C13_constructor_repeatable', 'C13_constructor_alias_counterexample', 'C13_history_keeps_results',
    'C13_s1_returns_fresh', 'C13_results_held', 'C13_results_held_grad', 'C13_shared_buffer_counterexample',
    'C13_constructor_keeps_array_arguments', 'C13_cohort_posteriors_keep_their_covariates',
    'C13_asarray_counterexample']
RULE = ('random population model (1-3 sub-models out of centred / non-centred Gaussian and log-normal, '
        'truncated Gaussian, pooled, heterogeneous, covariate-wrapped, reduced, 1-2 dims each; composed or '
        'bare), every filter class and compositions of them, fixed or free sigma, additive or log-scale '
        'noise, n_samples 2-6, 1-3 observables, 1-4 unsorted unique times, toy mechanistic model; every '
        'evaluable case ends with a call history on the one posterior object (4-7 evaluateS1 / __call__ at '
        'several vectors incl. ones outside the support, results kept by the caller and read at the end, '
        'the caller writing into a returned array or into the vector it passed) and with the caller '
        'overwriting, twice, the times / sigma / covariates containers it handed to the constructor and '
        're-sorting its filter object (posteriors built before keep their values; a further posterior built '
        'from the refilled containers is the posterior of the new contents); a case is '
        'non-trivial when it has a pooled / heterogeneous dimension or unsorted times; distinct = distinct '
        '(kinds with dims, filter, sigma mode, noise scale, n_samples, time-order class)')
ASSUMPTIONS = ['prior, population density, individual-parameter transform and mechanistic model are '
               'abstract functions of the Lean model; chi\'s own public objects stand for them in the harness',
               'the population model\'s own gradient (C05/C03), the filter gradient (C12) and the mechanistic '
               'sensitivities are hypotheses of C13_grad',
               'pints priors: __call__ and evaluateS1 assumed mutually consistent']

SUBKINDS = ['Gc', 'Gnc', 'LNc', 'LNnc', 'TG', 'P', 'H', 'CovG', 'CovLNnc', 'RedG', 'CovP', 'RedP']
WRAPPED = ('CovP', 'RedP')


def mk_sub(chi, kind, nd, rng):
    if kind == 'Gc':
        return chi.GaussianModel(nd)
    if kind == 'Gnc':
        return chi.GaussianModel(nd, centered=False)
    if kind == 'LNc':
        return chi.LogNormalModel(nd)
    if kind == 'LNnc':
        return chi.LogNormalModel(nd, centered=False)
    if kind == 'TG':
        return chi.TruncatedGaussianModel(nd)
    if kind == 'P':
        return chi.PooledModel(nd)
    if kind == 'H':
        return chi.HeterogeneousModel(nd)
    if kind == 'CovG':
        return chi.CovariatePopulationModel(chi.GaussianModel(nd), chi.LinearCovariateModel(1))
    if kind == 'CovLNnc':
        return chi.CovariatePopulationModel(chi.LogNormalModel(nd, centered=False), chi.LinearCovariateModel(1))
    if kind == 'CovP':
        return chi.CovariatePopulationModel(chi.PooledModel(nd), chi.LinearCovariateModel(1))
    if kind == 'RedP':
        return chi.ReducedPopulationModel(chi.PooledModel(nd))
    if kind == 'RedG':
        r = chi.ReducedPopulationModel(chi.GaussianModel(nd))
        names = r.get_parameter_names()
        r.fix_parameters({names[-1]: float(rng.uniform(0.3, 0.8))})
        return r
    raise ValueError(kind)


def detect_of(kind):
    return True if kind == 'P' else (False if kind == 'H' else None)


def cfg_class(kinds, n_s):
    if any(k in WRAPPED for k, _ in kinds):
        return 'wrapped_pooled'
    if all(k == 'H' for k, _ in kinds) and len(kinds) >= 2 and n_s >= 2:
        return 'all_heterogeneous_multi'
    return 'regular'


class Case:
    pass


def gen_case(chi, rng, force=None):
    c = Case()
    nsub = int(rng.choice([1, 2, 2, 3]))
    weights = np.array([3, 2, 2, 2, 1, 4, 4, 2, 1, 1, 0.6, 0.4])
    c.kinds = [(SUBKINDS[int(rng.choice(len(SUBKINDS), p=weights / weights.sum()))], int(rng.integers(1, 3)))
               for _ in range(nsub)]
    if force is not None:
        c.kinds = force
    c.composed = len(c.kinds) > 1 or bool(rng.integers(2))
    # filter
    c.R = int(rng.choice([1, 1, 2, 3]))
    c.T = int(rng.integers(1, 5))
    c.m = int(rng.integers(1, 5))
    c.obs = c12.gen_obs(rng, c.m, c.R, c.T, rng.random() < 0.6)
    if rng.random() < 0.3 and c.T >= 2:
        cuts = c12.split_points(rng, c.T)
        c.blocks = [(cuts[i], cuts[i + 1]) for i in range(len(cuts) - 1)]
        c.fkinds = [c12.gen_kind(rng) for _ in c.blocks]
    else:
        c.blocks = [(0, c.T)]
        c.fkinds = [c12.gen_kind(rng)]
    c.n_s = c12.gen_nsim(rng, [K for _, K in c.fkinds])
    if c.n_s > 6:
        c.n_s = max(2 * max([K for _, K in c.fkinds] + [1]), 2)
        lcm = 1
        for _, K in c.fkinds:
            if K:
                lcm = lcm * K // math.gcd(lcm, K)
        if c.n_s % lcm or c.n_s < 2 * lcm or c.n_s > 8:
            c.fkinds = [('G', 0) for _ in c.blocks]
            c.n_s = int(rng.integers(2, 7))
    pool = np.arange(1, 33) * 0.125
    c.times = rng.choice(pool, size=c.T, replace=False)
    if rng.random() < 0.2:
        c.times = np.sort(c.times)
    c.sigma_free = bool(rng.integers(2))
    c.log_scale = bool(rng.integers(2))
    c.sigma = None if c.sigma_free else rng.uniform(0.05, 0.3, c.R)
    c.toy_seed = int(rng.integers(1000))
    c.subs = [mk_sub(chi, k, nd, rng) for k, nd in c.kinds]
    c.pm = chi.ComposedPopulationModel(c.subs) if c.composed else c.subs[0]
    n_cov = c.pm.n_covariates()
    c.cov = None
    if n_cov:
        c.cov = rng.normal(size=(n_cov,)) * 0.3 if rng.random() < 0.5 else rng.normal(size=(c.n_s, n_cov)) * 0.3
    return c


def make_filter(chi, c):
    fs = [c12.make(chi, k, K, c.obs[:, :, a:b].copy()) for (k, K), (a, b) in zip(c.fkinds, c.blocks)]
    if len(fs) == 1:
        return fs[0]
    return chi.ComposedPopulationFilter(fs)


def wire_filter(c):
    fs = [c12.wire_filt(k, K, c.obs[:, :, a:b]) for (k, K), (a, b) in zip(c.fkinds, c.blocks)]
    if len(fs) == 1:
        return ['simple', fs[0]]
    return ['comp', fs]


def construct_posterior(chi, c):
    return chi.PopulationFilterLogPosterior(
        c.arg_filter, c.arg_times, c.arg_mech, c.pm, c.prior, sigma=c.arg_sigma,
        error_on_log_scale=c.log_scale, n_samples=c.n_s, covariates=c.arg_cov)


def observe_args(c):
    """what the caller can see (public API only) of the objects it handed to the constructor"""
    snap = {}
    with np.errstate(all='ignore'):
        try:
            v = c.arg_filter.compute_log_likelihood(c.probe.copy())
            snap['filter.log_likelihood(probe)'] = float(np.ma.filled(v, np.nan)) if not np.ma.is_masked(v) \
                else -math.inf
            _, g = c.arg_filter.compute_sensitivities(c.probe.copy())
            snap['filter.sensitivities(probe)'] = np.asarray(np.ma.filled(g, np.nan), float) \
                if math.isfinite(snap['filter.log_likelihood(probe)']) else None
        except Exception as e:  # noqa
            snap['filter.log_likelihood(probe)'] = core.errkind(e)
        snap['filter.n_times'] = int(c.arg_filter.n_times())
        snap['filter.n_observables'] = int(c.arg_filter.n_observables())
        snap['times'] = np.array(c.arg_times, float)
        snap['sigma'] = None if c.arg_sigma is None else list(c.arg_sigma)
        snap['covariates'] = None if c.arg_cov is None else np.array(c.arg_cov, float)
        snap['mechanistic_model.has_sensitivities'] = bool(c.arg_mech.has_sensitivities())
        snap['mechanistic_model.parameters'] = list(c.arg_mech.parameters())
        snap['mechanistic_model.outputs'] = list(c.arg_mech.outputs())
        snap['population_model.parameter_names'] = list(c.pm.get_parameter_names())
        snap['population_model.n_parameters'] = int(c.pm.n_parameters())
        snap['population_model.dim_names'] = list(c.pm.get_dim_names())
        snap['population_model.n_ids'] = int(c.pm.n_ids())
        snap['log_prior(probe)'] = float(c.prior(c.probe_top))
    return snap


def same_obs(a, b):
    if a is None or b is None:
        return a is None and b is None
    if isinstance(a, np.ndarray) or isinstance(b, np.ndarray):
        a, b = np.asarray(a), np.asarray(b)
        return a.shape == b.shape and core.close(a, b, 1e-12, 0.0)
    if isinstance(a, float) or isinstance(b, float):
        return core.close(a, b, 1e-12, 0.0)
    return a == b


def check_args_unchanged(ctx, c, inp, when):
    """the constructor / an evaluation must not change what the caller handed over: the same objects are
    legitimately reused (several posteriors from one filter, one per chain, another n_samples ...)"""
    now = observe_args(c)
    for key, before in c.snap0.items():
        ctx.spec('C13.arguments_unchanged/' + key, same_obs(before, now[key]), inp,
                 {'when': when, 'before the first constructor call': before, 'now': now[key]})


def build(chi, c, rng):
    """constructs the posterior; returns (posterior, n_top, cfg for the model)"""
    pm2 = copy.deepcopy(c.pm)
    pm2.set_n_ids(c.n_s)
    n_pop = pm2.n_parameters()
    n_top = n_pop + (c.R if c.sigma_free else 0)
    priors = []
    for _ in range(n_top):
        u = rng.random()
        if u < 0.5:
            priors.append(pints.GaussianLogPrior(float(rng.uniform(0.5, 1.5)), float(rng.uniform(0.5, 2))))
        elif u < 0.8:
            priors.append(pints.LogNormalLogPrior(float(rng.uniform(-0.3, 0.3)), float(rng.uniform(0.3, 1))))
        else:
            priors.append(pints.UniformLogPrior(0.0, float(rng.uniform(3, 6))))
    c.prior = pints.ComposedLogPrior(*priors) if n_top > 1 else priors[0]
    # the objects the caller hands over (the SAME objects are used for every constructor call of the case)
    c.arg_filter = make_filter(chi, c)
    c.arg_times = np.array(c.times, float)
    c.arg_mech = toy.ToyModel(c.R, c.pm.n_dim(), c.toy_seed)
    c.arg_sigma = None if c.sigma_free else list(c.sigma)
    c.arg_cov = None if c.cov is None else np.array(c.cov, float)
    c.probe = np.random.default_rng([c.toy_seed, 13]).uniform(0.5, 3.0, (c.n_s, c.R, c.T))
    c.probe_top = np.random.default_rng([c.toy_seed, 14]).uniform(0.6, 1.4, n_top)
    c.snap0 = observe_args(c)
    post = construct_posterior(chi, c)
    subs2 = pm2.get_population_models() if isinstance(pm2, chi.ComposedPopulationModel) else [pm2]
    cfg_subs = []
    for (k, nd), sm in zip(c.kinds, subs2):
        cfg_subs.append([int(sm.n_dim()), int(sm.n_hierarchical_parameters(c.n_s)[1]),
                         bool(sm.n_hierarchical_dim() > 0), detect_of(k)])
    cfg = [cfg_subs, c.n_s, c.R, c.T, c.sigma_free, c.log_scale]
    return post, n_pop, n_top, cfg


def assemble_B(c, cfg, x, n_pop, n_top):
    """the (n_samples, n_dim) matrix of individual-level inputs, from the PUBLISHED layout:
    pooled value for every individual, the individual's own heterogeneous value, else its bottom entry"""
    subs = cfg[0]
    n_dim = sum(s[0] for s in subs)
    n_hdim = sum(s[0] for s in subs if s[2])
    B = np.empty((c.n_s, n_dim))
    d0 = 0
    t0 = 0
    rank = 0
    for (kind, _), (nd, ntop, hier, _det) in zip(c.kinds, subs):
        for dd in range(nd):
            if kind in ('P',) + WRAPPED:
                B[:, d0 + dd] = x[t0 + dd]
            elif kind == 'H':
                B[:, d0 + dd] = [x[t0 + s * nd + dd] for s in range(c.n_s)]
            else:
                B[:, d0 + dd] = [x[n_top + s * n_hdim + rank] for s in range(c.n_s)]
                rank += 1
        d0 += nd
        t0 += ntop
    return B


def spec_value(chi, c, post, cfg, x, n_pop, n_top, with_constant=False):
    """hand assembly from chi's own public pieces (no constant unless asked)"""
    pm = post.get_population_model()
    mech = toy.ToyModel(c.R, c.pm.n_dim(), c.toy_seed)
    theta = x[:n_pop]
    sigma = x[n_pop:n_top] if c.sigma_free else c.sigma
    n_hdim = sum(s[0] for s in cfg[0] if s[2])
    end_bottom = n_top + c.n_s * n_hdim
    eps = x[end_bottom:].reshape(c.n_s, c.R, c.T)          # [s, r, position in SORTED time order]
    with np.errstate(all='ignore'):
        score = float(c.prior(x[:n_top]))
        if score == -math.inf:
            return score
        B = assemble_B(c, cfg, x, n_pop, n_top)
        score += float(pm.compute_log_likelihood(parameters=theta, observations=B, covariates=covariates_of(c)))
        if score == -math.inf:
            return score
        score += -float(np.sum(eps ** 2)) / 2
        if with_constant:
            score += -c.n_s * c.R * math.log(2 * math.pi) / 2
        psi = pm.compute_individual_parameters(parameters=theta, eta=B, covariates=covariates_of(c))
        order = np.argsort(c.times)
        rank = np.argsort(order)               # sorted position of original time index k
        y = np.empty((c.n_s, c.R, c.T))
        for s in range(c.n_s):
            for r in range(c.R):
                for k in range(c.T):
                    yb = mech.value(psi[s], r, c.times[k])
                    e = eps[s, r, rank[k]]
                    y[s, r, k] = yb * math.exp(sigma[r] * e) if c.log_scale else yb + sigma[r] * e
        # a fresh filter on the data in the ORIGINAL time order, simulated values in the same order
        score += float(make_filter(chi, c).compute_log_likelihood(y))
    return score


def covariates_of(c):
    if c.cov is None:
        return None
    cov = np.array(c.cov)
    if cov.ndim == 1:
        cov = cov[np.newaxis, :]
    return np.broadcast_to(cov, (c.n_s, cov.shape[1]))


def gen_x(c, rng, n, n_pop, n_top, cfg):
    x = rng.uniform(0.6, 1.4, n)
    if c.sigma_free:
        x[n_pop:n_top] = rng.uniform(0.05, 0.3, c.R)
    n_hdim = sum(s[0] for s in cfg[0] if s[2])
    end_bottom = n_top + c.n_s * n_hdim
    x[end_bottom:] = rng.uniform(-1, 1, n - end_bottom)
    return x


def spec_names(c, post, cfg, n_pop, n_top):
    pm = post.get_population_model()
    mech = toy.ToyModel(c.R, c.pm.n_dim(), c.toy_seed)
    top = list(pm.get_parameter_names())
    if c.sigma_free:
        top += ['Sigma ' + o for o in mech.outputs()]
    names = list(top)
    ids = [None] * len(top)
    d0 = 0
    regular = []
    for (kind, _), (nd, ntop, hier, _det) in zip(c.kinds, cfg[0]):
        if kind not in ('P', 'H') + WRAPPED:
            regular += mech.parameters()[d0:d0 + nd]
        d0 += nd
    for s in range(c.n_s):
        names += regular
        ids += ['Sim. %d' % (s + 1)] * len(regular)
    for s in range(c.n_s):
        for o in mech.outputs():
            for j in range(c.T):
                names.append('%s Epsilon time %d' % (o, j + 1))
                ids.append('Sim. %d' % (s + 1))
    return top, names, ids


def mech_tables(c, psi):
    mech = toy.ToyModel(c.R, c.pm.n_dim(), c.toy_seed)
    order = np.argsort(c.times)
    tab = [[[[float(t), mech.value(psi[s], r, t)] for t in c.times] for r in range(c.R)] for s in range(c.n_s)]
    # dybar_dpsi[s][j (sorted)][r][k]
    S = [[[[mech.dvalue(psi[s], r, c.times[order[j]], k) for k in range(c.pm.n_dim())] for r in range(c.R)]
          for j in range(c.T)] for s in range(c.n_s)]
    return tab, S


def run_case(ctx, chi, rng, c, label='gen'):
    cls = cfg_class(c.kinds, c.n_s)
    inp = {'kinds': c.kinds, 'composed': c.composed, 'filters': [[k, K, list(b)] for (k, K), b in zip(c.fkinds, c.blocks)],
           'obs': c.obs, 'times': c.times, 'n_samples': c.n_s, 'sigma': c.sigma, 'log_scale': c.log_scale,
           'covariates': c.cov, 'toy_seed': c.toy_seed, 'class': cls}
    post, n_pop, n_top, cfg = build(chi, c, rng)
    order_cls = 'sorted' if list(np.argsort(c.times)) == list(range(c.T)) else 'unsorted'
    special = any(k in ('P', 'H') + WRAPPED for k, _ in c.kinds)
    ctx.case('%s/%s/%s/%s' % (cls, 'free' if c.sigma_free else 'fixed', 'log' if c.log_scale else 'add', label),
             nontrivial=('%s/%s/%s/%s/%d/%s' % (c.kinds, c.fkinds, c.sigma_free, c.log_scale, c.n_s, order_cls))
             if (special or order_cls == 'unsorted') else False, sample=inp)
    n = int(post.n_parameters())
    check_args_unchanged(ctx, c, inp, 'after the constructor')
    # ---------------- layout: counts
    lay = ctx.model('C13.layout', cfg)
    ctx.agree('C13.layout.n_parameters', n, lay[4], inp)
    ctx.agree('C13.layout.n_top', int(post.n_parameters(exclude_bottom_level=True)), lay[1], inp)
    ctx.agree('C13.layout.n_pop', n_pop, lay[0], inp)
    mech = toy.ToyModel(c.R, c.pm.n_dim(), c.toy_seed)
    top_names, names_s, ids_s = spec_names(c, post, cfg, n_pop, n_top)
    ctx.spec('C13.names_ids/n_parameters', n == len(names_s) == n_top + c.n_s * (lay[2] + c.R * c.T), inp,
             {'n_parameters': n, 'published positions': len(names_s)})
    # ---------------- names and IDs
    try:
        nm = list(post.get_parameter_names())
        ids = list(post.get_id())
        nm_ids = list(post.get_parameter_names(include_ids=True))
        nm_top = list(post.get_parameter_names(exclude_bottom_level=True))
        uniq = list(post.get_id(unique=True))
        names_err = None
    except Exception as e:  # noqa
        names_err = core.errkind(e)
        nm = ids = nm_ids = nm_top = uniq = None
    if cls == 'wrapped_pooled':
        ok = names_err is None and nm == names_s and ids == ids_s
        ctx.spec('C13.special_dims/wrapped_pooled', ok, inp, {'aspect': 'names/ids', 'error': names_err,
                                                             'n_names': None if nm is None else len(nm), 'n': n})
    else:
        mn = ctx.model('C13.names', cfg, top_names[:n_pop], mech.parameters(), mech.outputs())
        ctx.agree('C13.names', nm if nm else names_err, mn[0], inp)
        ctx.agree('C13.names_with_ids', nm_ids if nm_ids else names_err, mn[2], inp)
        ctx.agree('C13.ids', [None if i is None else int(i.split()[1]) for i in ids] if ids else names_err, mn[1], inp)
        ctx.spec('C13.names_ids/names', names_err is None and nm == names_s, inp,
                 {'chi': nm, 'published': names_s, 'error': names_err})
        ctx.spec('C13.names_ids/ids', names_err is None and ids == ids_s, inp, {'chi': ids, 'published': ids_s})
        want = [(i + ' ' + s) if i else s for s, i in zip(names_s, ids_s)]
        ctx.spec('C13.names_ids/include_ids', names_err is None and nm_ids == want, inp, {'chi': nm_ids})
        ctx.spec('C13.names_ids/top', names_err is None and nm_top == names_s[:n_top] and
                 uniq == ['Sim. %d' % (s + 1) for s in range(c.n_s)], inp, {'chi': nm_top})
    # ---------------- parameter vectors
    x = gen_x(c, rng, n, n_pop, n_top, cfg)
    x2 = gen_x(c, rng, n, n_pop, n_top, cfg)
    mode = rng.random()
    if mode < 0.06:
        x[int(rng.integers(n_top))] = -7.0       # outside some priors / negative scale
    with np.errstate(all='ignore'):
        try:
            v = float(post(x.copy()))
            v2 = float(post(x2.copy()))
            s1, g = post.evaluateS1(x.copy())
            s1 = float(s1)
            g = np.asarray(g, float)
            err = None
        except Exception as e:  # noqa
            err = core.errkind(e)
            v = v2 = s1 = g = None
    check_args_unchanged(ctx, c, inp, 'after __call__ and evaluateS1')
    if cls != 'regular':
        # wrapped_pooled: expected counterexample (known finding).  all_heterogeneous_multi: repaired by
        # edde12c, must hold now.  ONE combined property check with the specific tag
        ok = err is None
        detail = {'error': err}
        if ok:
            sv = spec_value(chi, c, post, cfg, x, n_pop, n_top, with_constant=True)
            ok = core.close(v, sv) and core.close(s1, sv)
            detail = {'x': x, 'chi': v, 'hand assembly': sv, 'S1 score': s1}
        ctx.spec('C13.special_dims/' + cls, ok, inp, detail)
        if cls == 'wrapped_pooled':
            return
        cls = 'regular'      # everything below applies to several heterogeneous sub-models as well
    if err is not None:
        ctx.spec('C13.evaluable/' + cls, False, inp, {'error': err})
        return
    # ---------------- correspondence with the model (pieces come from chi's public objects)
    pm = post.get_population_model()
    cov = covariates_of(c)
    sig_fixed = [0.0] * c.R if c.sigma_free else list(c.sigma)
    rs = ctx.model('C13.reshape', cfg, x.tolist(), sig_fixed)
    B_model = np.array(rs[2], float).reshape(c.n_s, -1)
    if cls == 'regular':
        ctx.agree('C13.reshape.published_layout', assemble_B(c, cfg, x, n_pop, n_top), B_model, inp)
    theta = x[:n_pop]
    with np.errstate(all='ignore'):
        prior_v, prior_g = c.prior.evaluateS1(x[:n_top])
        popll = float(pm.compute_log_likelihood(parameters=theta, observations=B_model, covariates=cov))
        psi = np.asarray(pm.compute_individual_parameters(parameters=theta, eta=B_model, covariates=cov), float)
    tab, S = mech_tables(c, psi)
    args = [cfg, wire_filter(c), [float(t) for t in c.times], x.tolist(), sig_fixed, float(prior_v),
            [float(a) for a in np.atleast_1d(prior_g)], popll, tab, S]
    ev = ctx.model('C13.eval', *(args + [None, None]))
    ctx.branches.add('%s:%s' % (cls, core.fclass(ev[0])))
    y_model = np.array(ev[1], float)
    if ev[0] == 'undef' or popll == math.inf or not (np.isfinite(y_model).all() or ev[0] == 'neginf'):
        # outside the domain of the documented densities (nan individual parameters from a negative scale
        # of a non-centred model, non-positive simulated values under a log-normal filter, ...): plain
        # numpy arrays give nan, masked arrays additionally mask domain errors (-inf, or the cell is
        # dropped); a population log-density of +inf is the truncated Gaussian's normalisation underflowing
        # (mean more than 8 sigma below the truncation point); not modelled, not part of the property
        ctx.case('degenerate/' + cls)
        ctx.notes.append('degenerate case skipped (nan / non-positive simulated values)') if len(ctx.notes) < 3 else None
    else:
        ctx.agree('C13.call', v, ev[0], inp)
        ctx.agree('C13.S1_score', s1, ev[0], inp)
    ctx.agree('C13.sorted_times', np.sort(c.times), ev[6], inp)
    finite = isinstance(ev[0], float) and math.isfinite(ev[0]) and math.isfinite(v)
    if finite:
        gm = np.array(ev[4], float).reshape(c.n_s, -1)
        with np.errstate(all='ignore'):
            _, dbottom, dtheta = pm.compute_sensitivities(
                parameters=theta, observations=B_model, covariates=cov, dlogp_dpsi=gm)
        ev2 = ctx.model('C13.eval', *(args + [np.asarray(dbottom, float).reshape(c.n_s, -1).tolist(),
                                              np.asarray(dtheta, float).flatten().tolist()]))
        # norm-wise tolerance: entries of an ill-conditioned gradient (kernel filters with two simulated
        # individuals and small noise reach 1e12) carry the rounding of the largest one
        gmax = float(np.max(np.abs(np.asarray(ev2[5], float)))) if len(ev2[5]) else 0.0
        ctx.agree('C13.grad', g, np.array(ev2[5], float), inp, rtol=1e-7,
                  atol=1e-9 + (1e-9 * gmax if math.isfinite(gmax) else 0.0))
    # ---------------- a second posterior from the SAME argument objects (call sequence)
    post2 = second_posterior(ctx, chi, c, post, inp, x, v, s1, g, ev, n)
    # ---------------- the property on the real code
    tagc = cls
    sv = spec_value(chi, c, post, cfg, x, n_pop, n_top)
    if cls == 'regular':
        if not math.isfinite(sv):
            # -inf (outside the support of the prior / population model) or nan: same class, no constant
            ctx.spec('C13.value_nonfinite/' + tagc, core.fclass(v) == core.fclass(sv), inp,
                     {'x': x, 'chi': v, 'assembly': sv})
        else:
            # "up to a parameter-independent constant": compare differences between two vectors
            ref = None
            for xb, vb in [(x2, v2)] + [(None, None)] * 2:
                if xb is None:
                    xb = gen_x(c, rng, n, n_pop, n_top, cfg)
                    with np.errstate(all='ignore'):
                        vb = float(post(xb.copy()))
                svb = spec_value(chi, c, post, cfg, xb, n_pop, n_top)
                if math.isfinite(svb) and math.isfinite(vb):
                    ref = (xb, vb, svb)
                    break
            if ref is not None:
                xb, vb, svb = ref
                scale = max(1.0, abs(v), abs(sv), abs(vb), abs(svb))
                ok = math.isfinite(v) and abs((v - sv) - (vb - svb)) <= 1e-9 * scale
                ctx.spec('C13.value/' + tagc, ok, inp, {'x': x, 'chi(x)': v, 'assembly(x)': sv, 'x2': xb,
                                                       'chi(x2)': vb, 'assembly(x2)': svb})
            else:
                ctx.spec('C13.value/' + tagc, math.isfinite(v), inp, {'x': x, 'chi(x)': v, 'assembly(x)': sv})
        ctx.spec('C13.S1_score/' + tagc, core.close(v, s1) or not (math.isfinite(v) or math.isfinite(s1)), inp,
                 {'call': v, 'S1': s1})
        ctx.spec('C13.grad_length/' + tagc, not math.isfinite(v) or len(g) == n, inp, {'len': len(g)})
        if math.isfinite(v):
            n_hdim = lay[2]
            end_bottom = n_top + c.n_s * n_hdim
            coords = set()
            for lo, hi in ((0, n_pop), (n_pop, n_top), (n_top, end_bottom), (end_bottom, n)):
                if hi > lo:
                    coords.update(int(k) for k in rng.choice(np.arange(lo, hi), size=min(3, hi - lo), replace=False))

            def f(z):
                with np.errstate(all='ignore'):
                    return float(post(z))
            for k in sorted(coords):
                hk = 1e-5 * max(1.0, abs(x[k]))
                # round-off floor of a central difference of a function of size |v|
                ok, est = oracle.grad_matches(f, x, k, float(g[k]), h=hk, rtol=2e-4,
                                              atol=2e-5 + 2e-14 * abs(v) / hk)
                blk = 'pop' if k < n_pop else 'sigma' if k < n_top else 'bottom' if k < end_bottom else 'eps'
                ctx.spec('C13.grad/%s/%s' % (tagc, blk), ok, inp,
                         {'x': x, 'coordinate': k, 'name': names_s[k], 'analytic': g[k], 'fd': est})
    # ---------------- a call history on the ONE posterior object, results kept by the caller
    pts, events = gen_history(c, rng, x, x2, n, n_pop, n_top, cfg)
    call_history(ctx, post, post2, inp, pts, events)
    # ---------------- the caller goes on using (overwrites) the arrays / lists / objects it handed over
    caller_reuses_arguments(ctx, chi, c, rng, post, post2, inp, cfg, x, x2, n, n_pop, n_top)


def own_filter_on_probe(post, c):
    """the posterior's own filter (public getter) on the probe at the SORTED times"""
    order = np.argsort(c.arg_times)
    with np.errstate(all='ignore'):
        v = post.get_log_likelihood().compute_log_likelihood(c.probe[:, :, order].copy())
    return -math.inf if np.ma.is_masked(v) else float(v)


def second_posterior(ctx, chi, c, post, inp, x, v, s1, g, ev, n):
    try:
        with np.errstate(all='ignore'):
            post2 = construct_posterior(chi, c)
            v_b = float(post2(x.copy()))
            s1_b, g_b = post2.evaluateS1(x.copy())
            s1_b = float(s1_b)
            g_b = np.asarray(g_b, float)
            names_b = list(post2.get_parameter_names(include_ids=True))
            own1 = own_filter_on_probe(post, c)
            own2 = own_filter_on_probe(post2, c)
        err = None
    except Exception as e:  # noqa
        err = core.errkind(e)
    ctx.spec('C13.same_arguments_same_posterior/constructible', err is None, inp, {'error': err})
    if err is not None:
        return None
    check_args_unchanged(ctx, c, inp, 'after a second constructor call with the same objects')
    same_v = core.close(v, v_b, 1e-12) or not (math.isfinite(v) or math.isfinite(v_b))
    ctx.spec('C13.same_arguments_same_posterior/value', same_v and
             (core.close(s1, s1_b, 1e-12) or not (math.isfinite(s1) or math.isfinite(s1_b))), inp,
             {'x': x, 'first posterior': v, 'second posterior (same filter object, same times, ...)': v_b,
              'S1 first': s1, 'S1 second': s1_b})
    if math.isfinite(v) and math.isfinite(v_b):
        ctx.spec('C13.same_arguments_same_posterior/gradient', g.shape == g_b.shape and
                 core.close(g, g_b, 1e-10, 1e-12), inp, {'x': x})
    ctx.spec('C13.same_arguments_same_posterior/names', names_b == list(post.get_parameter_names(include_ids=True))
             and int(post2.n_parameters()) == n, inp, {})
    ctx.spec('C13.same_arguments_same_posterior/own_filter', core.close(own1, own2, 1e-12), inp,
             {'first posterior own filter on probe': own1, 'second': own2})
    # the model: two constructor calls on the same object in the store
    ms = ctx.model('C13.construct_seq', wire_filter(c), [float(t) for t in c.arg_times], c.probe.tolist())
    if len(ms) == 4:
        now = observe_args(c)['filter.log_likelihood(probe)']
        ctx.agree('C13.construct_seq.caller_before', c.snap0['filter.log_likelihood(probe)'], ms[0], inp)
        ctx.agree('C13.construct_seq.caller_after', now, ms[1], inp)
        ctx.agree('C13.construct_seq.own_first', own1, ms[2], inp)
        ctx.agree('C13.construct_seq.own_second', own2, ms[3], inp)
    if isinstance(ev[0], float) and math.isfinite(ev[0]) and math.isfinite(v_b):
        ctx.agree('C13.call.second_posterior', v_b, ev[0], inp)
    return post2


# ------------------------------------------------------------------------------------------------------
# the caller's containers after the constructor: one covariate / times / sigma buffer filled again for the
# next cohort's posterior, a times array rescaled in place, the filter object re-sorted for another use.
# A posterior is prior + population density GIVEN ITS covariates + noise + filter term at ITS times with
# ITS sigma whenever it is evaluated
# ------------------------------------------------------------------------------------------------------
def overwrite_buffers(c, rng):
    """the caller writes new contents (same shapes, valid values) into the SAME containers it passed to
    the constructor; returns what it wrote"""
    pool = np.arange(1, 33) * 0.125 + 0.0625
    new_times = rng.choice(pool, size=c.T, replace=False)
    c.arg_times[...] = new_times
    new_sigma = None
    if c.arg_sigma is not None:
        new_sigma = rng.uniform(0.05, 0.3, c.R)
        for r in range(c.R):
            c.arg_sigma[r] = float(new_sigma[r])
    new_cov = None
    if c.arg_cov is not None:
        new_cov = rng.normal(size=c.arg_cov.shape) * 0.3 + 0.5
        c.arg_cov[...] = new_cov
    return {'times': np.array(new_times), 'sigma': new_sigma, 'covariates': new_cov}


def snapshot(post, xs):
    """value, S1 score, gradient (copied) at each vector + names with ids"""
    out = []
    with np.errstate(all='ignore'):
        for z in xs:
            val = float(post(z.copy()))
            s, g = post.evaluateS1(z.copy())
            out.append((val, float(s), np.array(g, float, copy=True)))
    return out, list(post.get_parameter_names(include_ids=True)), int(post.n_parameters())


def same_snapshot(a, b):
    (ra, na, ka), (rb, nb, kb) = a, b
    if na != nb or ka != kb or len(ra) != len(rb):
        return False
    for (v1, s1, g1), (v2, s2, g2) in zip(ra, rb):
        if not (core.close(v1, v2, 1e-12) or not (math.isfinite(v1) or math.isfinite(v2))):
            return False
        if not (core.close(s1, s2, 1e-12) or not (math.isfinite(s1) or math.isfinite(s2))):
            return False
        if math.isfinite(s1) and math.isfinite(s2) and not (
                g1.shape == g2.shape and core.close(g1, g2, 1e-10, 1e-12)):
            return False
    return True


def caller_reuses_arguments(ctx, chi, c, rng, post, post2, inp, cfg, x, x2, n, n_pop, n_top):
    xs = [x]
    posts = [('first posterior', post)] + ([('second posterior', post2)] if post2 is not None else [])
    try:
        before = [snapshot(p, xs) for _, p in posts]
        wrote = [overwrite_buffers(c, rng)]
        after = [snapshot(p, xs) for _, p in posts]
        err = None
    except Exception as e:  # noqa
        err = core.errkind(e)
    ctx.spec('C13.caller_reuses_arguments/evaluable', err is None, inp, {'error': err})
    if err is not None:
        return
    ctx.case('caller_reuses_arguments/' + ('cov' if c.arg_cov is not None else 'nocov') +
             ('/fixed_sigma' if c.arg_sigma is not None else '/free_sigma'))
    inp = dict(inp, caller_wrote_into_its_containers=wrote)
    for (who, _), b, a in zip(posts, before, after):
        ctx.spec('C13.caller_reuses_arguments/posterior_unchanged', same_snapshot(b, a), inp,
                 {'which': who, 'x': x, 'before the caller overwrote its times / sigma / covariates containers':
                  [r[:2] for r in b[0]], 'afterwards': [r[:2] for r in a[0]]})
    # the next cohort's posterior from the refilled containers: it is the posterior of the NEW contents ...
    do_new = c.arg_cov is not None or rng.random() < 0.3
    post3 = None
    if do_new:
        c3 = copy.copy(c)
        c3.times, c3.sigma, c3.cov = wrote[0]['times'], wrote[0]['sigma'], wrote[0]['covariates']
        try:
            with np.errstate(all='ignore'):
                post3 = construct_posterior(chi, c)
                v3 = [float(post3(z.copy())) for z in (x, x2)]
                sv3 = [spec_value(chi, c3, post3, cfg, z, n_pop, n_top) for z in (x, x2)]
            err = None
        except Exception as e:  # noqa
            err = core.errkind(e)
        ctx.spec('C13.caller_reuses_arguments/next_posterior_evaluable', err is None, inp, {'error': err})
        if err is not None:
            return
        if all(math.isfinite(t) for t in v3 + sv3):
            scale = max([1.0] + [abs(t) for t in v3 + sv3])
            ctx.spec('C13.caller_reuses_arguments/next_posterior_value',
                     abs((v3[0] - sv3[0]) - (v3[1] - sv3[1])) <= 1e-9 * scale, inp,
                     {'x': x, 'x2': x2, 'chi': v3, 'assembly with the new times / sigma / covariates': sv3})
        elif all(math.isfinite(t) or math.isinf(t) for t in sv3):
            ctx.spec('C13.caller_reuses_arguments/next_posterior_value',
                     [core.fclass(t) for t in v3] == [core.fclass(t) for t in sv3], inp,
                     {'x': x, 'x2': x2, 'chi': v3, 'assembly with the new times / sigma / covariates': sv3})
        posts.append(('posterior built from the refilled containers', post3))
        after.append(snapshot(post3, xs))
    # ... and the earlier ones stay the posteriors of the contents they were built with, also after the
    # containers are filled a third time and the caller re-sorts ITS filter object
    try:
        wrote.append(overwrite_buffers(c, rng))
        perm = np.arange(c.T)[::-1] if c.T > 1 else np.arange(c.T)
        c.arg_filter.sort_times(perm)
        wrote[-1]['filter.sort_times'] = perm
        final = [snapshot(p, xs) for _, p in posts]
        err = None
    except Exception as e:  # noqa
        err = core.errkind(e)
    ctx.spec('C13.caller_reuses_arguments/evaluable', err is None, inp, {'error': err})
    if err is not None:
        return
    for (who, _), a, f in zip(posts, after, final):
        ctx.spec('C13.caller_reuses_arguments/posterior_unchanged', same_snapshot(a, f), inp,
                 {'which': who, 'x': x, 'when': 'after the containers were filled once more and the caller '
                  'called sort_times on its own filter object', 'before': [r[:2] for r in a[0]],
                  'afterwards': [r[:2] for r in f[0]]})


# ------------------------------------------------------------------------------------------------------
# call histories: the caller keeps what evaluateS1 / __call__ returned while it goes on using the posterior
# (a sampler holds the gradient of the current state while the proposal is evaluated, chains share one
# posterior, (score, gradient) pairs are collected in a list and looked at afterwards)
# ------------------------------------------------------------------------------------------------------
def gen_history(c, rng, x, x2, n, n_pop, n_top, cfg):
    """vectors (two regular ones, a third, one with an entry of the top block far outside, one with an
    individual-level entry far outside) and a sequence of events on them"""
    n_hdim = sum(s[0] for s in cfg[0] if s[2])
    end_bottom = n_top + c.n_s * n_hdim
    pts = [np.array(x, float), np.array(x2, float), gen_x(c, rng, n, n_pop, n_top, cfg)]
    out_top = pts[1].copy()
    out_top[int(rng.integers(n_top))] = -7.0
    pts.append(out_top)
    if end_bottom > n_top:
        out_bottom = pts[2].copy()
        out_bottom[int(rng.integers(n_top, end_bottom))] = -7.0
        pts.append(out_bottom)
    first = int(rng.integers(3))
    events = [['s1', first], ['s1', int(rng.choice([i for i in range(len(pts)) if i != first]))]]
    n_s1 = 2
    for _ in range(int(rng.integers(2, 6))):
        u = rng.random()
        if u < 0.5:
            events.append(['s1', int(rng.integers(len(pts)))])
            n_s1 += 1
        elif u < 0.7:
            events.append(['call', int(rng.integers(len(pts)))])
        elif u < 0.85:
            # the caller writes into the array it got from an earlier evaluateS1 call
            events.append(['scribble', int(rng.integers(n_s1)), float(rng.uniform(-3, 3))])
        else:
            # the caller changes, in place, the vector it passed to an earlier evaluateS1 call
            events.append(['move', int(rng.integers(n_s1)), float(rng.uniform(0.1, 0.5))])
    return pts, events


def play_history(post, pts, events):
    """runs the events on `post`; returns the evaluateS1 records (what the caller holds: the returned
    objects themselves, NOT copied, plus a copy taken at the moment of return), the __call__ records and
    the events for the model"""
    recs, calls, wire = [], [], []
    with np.errstate(all='ignore'):
        for ide, ev in enumerate(events):
            if ev[0] == 's1':
                xin = pts[ev[1]].copy()
                raw_s, raw_g = post.evaluateS1(xin)
                recs.append({'event': ide, 'point': ev[1], 'xin': xin, 'raw_s': raw_s, 'raw_g': raw_g,
                             'score': float(raw_s), 'expect': np.array(raw_g, float, copy=True),
                             'at_return': np.array(raw_g, float, copy=True),
                             'input_ok': bool(np.array_equal(xin, pts[ev[1]]))})
                wire.append(['s1', recs[-1]['at_return'].tolist()])
            elif ev[0] == 'call':
                xin = pts[ev[1]].copy()
                raw = post(xin)
                calls.append({'event': ide, 'point': ev[1], 'raw': raw, 'value': float(raw),
                              'input_ok': bool(np.array_equal(xin, pts[ev[1]]))})
                wire.append(['call'])
            elif ev[0] == 'scribble':
                r = recs[ev[1]]
                if isinstance(r['raw_g'], np.ndarray) and r['raw_g'].flags.writeable:
                    r['raw_g'][...] = ev[2]
                    r['expect'] = np.full(r['raw_g'].shape, ev[2], float)
                    wire.append(['scribble', ev[1], r['expect'].tolist()])
            elif ev[0] == 'move':
                recs[ev[1]]['xin'] += ev[2]
    return recs, calls, wire


def call_history(ctx, post, post2, inp, pts, events):
    inp = dict(inp, history_points=pts, history_events=events)
    try:
        recs, calls, wire = play_history(post, pts, events)
        err = None
    except Exception as e:  # noqa
        err = core.errkind(e)
    ctx.spec('C13.call_history/evaluable', err is None, inp, {'error': err})
    if err is not None:
        return
    ctx.case('call_history/%d_s1' % min(len(recs), 4))
    # (1) what the caller holds is, at the END of the history, what it was when it was returned
    #     (or what the caller itself wrote into it)
    for k, r in enumerate(recs):
        later = events[r['event'] + 1:]
        with np.errstate(all='ignore'):
            now_g = np.array(r['raw_g'], float, copy=True)
            now_s = float(r['raw_s'])
        ctx.spec('C13.call_history/held_score', core.close(now_s, r['score'], 0.0), inp,
                 {'evaluateS1 call no.': k, 'vector': pts[r['point']], 'score when returned': r['score'],
                  'the same object after the later calls': now_s, 'later events': later})
        if math.isfinite(r['score']):
            ctx.spec('C13.call_history/held_gradient',
                     now_g.shape == r['expect'].shape and bool(np.array_equal(now_g, r['expect'], equal_nan=True)),
                     inp, {'evaluateS1 call no.': k, 'vector': pts[r['point']],
                           'sensitivities when returned': r['at_return'],
                           'the same array after the later calls': now_g, 'later events': later})
    for r in calls:
        with np.errstate(all='ignore'):
            now = float(r['raw'])
        ctx.spec('C13.call_history/held_value', core.close(now, r['value'], 0.0), inp,
                 {'event': r['event'], 'value when returned': r['value'], 'after the later calls': now})
    ctx.spec('C13.call_history/input_unchanged', all(r['input_ok'] for r in recs + calls), inp,
             {'events whose vector was changed by the call': [r['event'] for r in recs + calls if not r['input_ok']]})
    # the model: arrays by identity
    ms = ctx.model('C13.s1_history', wire)
    with np.errstate(all='ignore'):
        ctx.agree('C13.s1_history.arrays_at_end', [np.array(r['raw_g'], float).tolist() for r in recs], ms[0], inp,
                  rtol=0.0)
    # (2) every result of the history is the result of a posterior that has no history: a second object
    #     built from the same arguments, asked once per vector, result copied at once
    if post2 is None:
        return
    ref = {}

    def reference(i):
        if i not in ref:
            with np.errstate(all='ignore'):
                val = float(post2(pts[i].copy()))
                s, g = post2.evaluateS1(pts[i].copy())
                ref[i] = (val, float(s), np.array(g, float, copy=True))
        return ref[i]
    try:
        for k, r in enumerate(recs):
            val, s, g = reference(r['point'])
            same_s = core.close(r['score'], s, 1e-12) or not (math.isfinite(r['score']) or math.isfinite(s))
            ctx.spec('C13.call_history/score', same_s, inp,
                     {'event': r['event'], 'vector': pts[r['point']], 'in the history': r['score'],
                      'posterior without history': s, 'earlier events': events[:r['event']]})
            if math.isfinite(r['score']) and math.isfinite(s):
                ctx.spec('C13.call_history/gradient', r['at_return'].shape == g.shape and
                         core.close(r['at_return'], g, 1e-10, 1e-12), inp,
                         {'event': r['event'], 'vector': pts[r['point']], 'in the history': r['at_return'],
                          'posterior without history': g, 'earlier events': events[:r['event']]})
        for r in calls:
            val, s, g = reference(r['point'])
            ctx.spec('C13.call_history/value', core.close(r['value'], val, 1e-12) or
                     not (math.isfinite(r['value']) or math.isfinite(val)), inp,
                     {'event': r['event'], 'vector': pts[r['point']], 'in the history': r['value'],
                      'posterior without history': val, 'earlier events': events[:r['event']]})
    except Exception as e:  # noqa
        ctx.spec('C13.call_history/reference_evaluable', False, inp, {'error': core.errkind(e)})


CORPUS = [
    [('P', 2)], [('H', 2)], [('H', 1), ('P', 1)], [('P', 1), ('Gc', 1), ('H', 1)], [('Gnc', 1), ('P', 2), ('LNc', 1)],
    [('H', 1), ('LNnc', 2), ('P', 1)], [('H', 1), ('H', 1)], [('H', 2), ('H', 1)], [('CovP', 1), ('Gc', 1)],
    [('Gc', 2), ('RedP', 1)], [('CovG', 1), ('P', 1)], [('TG', 1), ('H', 1), ('RedG', 1)], [('P', 1), ('P', 2)],
]


def run(ctx):
    chi = core.import_chi()
    quick = ctx.tier == 'quick'
    for i, kinds in enumerate(CORPUS):
        rng = ctx.sub_rng(900000 + i)
        ctx.guard(run_case, ctx, chi, rng, gen_case(chi, rng, force=kinds), 'corpus')
    n_cases = 110 if quick else 1800
    for i in range(n_cases):
        rng = ctx.sub_rng(i)
        ctx.guard(run_case, ctx, chi, rng, gen_case(chi, rng))


def replay(ctx, data):
    bad = data.get('failing', {})
    print('tag:', bad.get('tag'))
    print('input:', json.dumps(bad.get('input'))[:3000])
    print('detail:', json.dumps(bad.get('detail'))[:3000])
    chi = core.import_chi()
    inp = bad.get('input', {})
    if 'kinds' in inp:
        rng = np.random.default_rng(0)
        c = gen_case(chi, rng, force=[tuple(k) for k in inp['kinds']])
        c.composed = inp['composed'] or len(c.kinds) > 1
        c.obs = np.array([[[math.nan if v == 'nan' else v for v in row] for row in ind] for ind in inp['obs']], float)
        c.m, c.R, c.T = c.obs.shape
        c.blocks = [tuple(b) for _, _, b in inp['filters']]
        c.fkinds = [(k, K) for k, K, _ in inp['filters']]
        c.times = np.array(inp['times'], float)
        c.n_s = inp['n_samples']
        c.sigma = None if inp['sigma'] is None else np.array(inp['sigma'], float)
        c.sigma_free = inp['sigma'] is None
        c.log_scale = inp['log_scale']
        c.cov = None if inp['covariates'] is None else np.array(inp['covariates'], float)
        c.toy_seed = inp['toy_seed']
        c.subs = [mk_sub(chi, k, nd, rng) for k, nd in c.kinds]
        c.pm = chi.ComposedPopulationModel(c.subs) if c.composed else c.subs[0]
        post, n_pop, n_top, cfg = build(chi, c, rng)
        d = bad.get('detail') or {}
        if 'x' in d:
            x = np.array(d['x'], float)
            try:
                print('chi __call__', post(x), ' evaluateS1 score', post.evaluateS1(x)[0])
            except Exception as e:  # noqa
                print('chi raises', type(e).__name__, e)
            print('hand assembly (no constant)', spec_value(chi, c, post, cfg, x, n_pop, n_top))
        if 'history_events' in inp:
            pts = [np.array([math.nan if v == 'nan' else v for v in p], float) for p in inp['history_points']]
            recs, calls, _ = play_history(post, pts, inp['history_events'])
            for k, r in enumerate(recs):
                now = np.array(r['raw_g'], float)
                print('evaluateS1 call no. %d (event %d, vector %d): score %r; kept array %s' % (
                    k, r['event'], r['point'], r['score'],
                    'unchanged at the end of the history' if np.array_equal(now, r['expect'], equal_nan=True)
                    else 'CHANGED by later calls: max. abs. change %g' % np.nanmax(np.abs(now - r['expect']))))
    if ctx.lean is not None:
        ctx.lean.close()
    return 0
