"""C17 — parameter counts, names, vector lengths and gradient lengths always agree"""
import itertools
import math
import warnings
import numpy as np
import pints

import core
import toy
from props import c02, c08

REQUIRED_THEOREMS = ['C17_hier_lengths', 'C17_grad_length', 'C17_reduced_lengths',
                     'C17_prefixed_nodup', 'C17_labels_nodup', 'C17_labels_reject_iff',
                     'C17_labels_early_test_counterexample', 'C17_resize_state', 'C17_resize_names',
                     'C17_resize_free_count_counterexample', 'C17_top_level_names', 'C17_top_names_from_end_iff',
                     'C17_top_names_from_end_counterexample', 'C17_top_level_names_reduced', 'C17_selection_count',
                     'C17_selection_raw_count_iff', 'C17_selection_raw_count_counterexample', 'C17_posterior_grad_length',
                     'C17_hier_posterior_grad_length', 'C17_hier_prior_sens_iff', 'C17_hier_prior_sens_counterexample',
                     'C17_filter_posterior_grad_length', 'C17_controller_history', 'C17_controller_names_count',
                     'C17_controller_history_unwrap_only_counterexample']
RULE = ('every kind of object (error models, population models incl. composed / covariate / reduced, individual '
        'and hierarchical likelihoods and posteriors, predictive models, SBML mechanistic models on the '
        'reference integrator) in random compositions (thorough: every composition of <=3 elementary sub-models '
        'with dims <=2) and after random reconfiguration sequences (set_n_ids, set_dim_names, '
        'set_parameter_names, fix_parameters, set_population_parameters, set_outputs, set_administration); '
        'hierarchical likelihoods / posteriors also over reduced population models with some, all but one or ALL '
        'population parameters fixed, observed at all levels and at the top level only (with and without ID '
        'prefixes); selections of covariate-transformed parameters written as users do (any order, lists / tuples '
        '/ arrays, pairs listed repeatedly), on the covariate model itself and through the wrapper; '
        'every likelihood and posterior class (LogLikelihood, HierarchicalLogLikelihood, LogPosterior, '
        'HierarchicalLogPosterior, PopulationFilterLogPosterior, the controller\'s posteriors) is evaluated through '
        'evaluateS1 inside the support AND where the score is -inf / undefined (priors mixed from unbounded, '
        'one-sided and two-sided supports; one entry — individual-level or top-level — at 0, below 0 or far out; '
        'all top-level entries negative): excluded by the prior, by the population model, by an error model; '
        'a ProblemModellingController held across random histories of set_population_model / fix_parameters '
        '(fix, release) / set_data with heterogeneous sub-models and datasets of different numbers of individuals, '
        'observed after every call (names against a fresh population model of the current configuration; prior of '
        'the reported dimension accepted; posterior top level = reported names); '
        'non-trivial = composite with >=2 sub-models or >=1 reconfiguration; distinct = (object kind, '
        'composition, reconfiguration sequence shape)')
ASSUMPTIONS = ['names/counts/IDs are read through the public API only',
               'SBML models run on harness/refsim.py instead of the absent native solver']

TAG19 = 'C17.reduced_population_model_caches_count_before_set_n_ids'
TAG3 = 'C17.covariate_over_pooled'
TAG10 = 'C17.stale_name_tables_after_readministration'


OUTSIDE = (0.0, -0.7, 1e3)
PRIOR_KINDS = ('Gaussian', 'Uniform', 'LogNormal', 'HalfCauchy')


def mixed_prior(rng, n):
    """one prior per parameter: unbounded (Gaussian — the likelihood's own guards are reached), bounded on both
    sides (uniform), bounded on the left (log-normal, half-Cauchy)"""
    kinds = [PRIOR_KINDS[int(rng.integers(len(PRIOR_KINDS)))] for _ in range(n)]
    mk = {'Gaussian': lambda: pints.GaussianLogPrior(1, 1), 'Uniform': lambda: pints.UniformLogPrior(0.01, 10),
          'LogNormal': lambda: pints.LogNormalLogPrior(0, 0.5), 'HalfCauchy': lambda: pints.HalfCauchyLogPrior(0, 1)}
    ps = [mk[k]() for k in kinds]
    return (pints.ComposedLogPrior(*ps) if n > 1 else ps[0]), kinds


def gradient_length_everywhere(ctx, obj, tag, rng, inp, top=None, prior=None, k=3, kind=None):
    """evaluateS1()[1] has n_parameters() entries at EVERY vector of the reported length — inside the support and
    where the score is -inf / undefined: an entry outside the support of the prior, a population scale or an error
    scale at or below zero, a value far outside (what a gradient-based sampler or optimiser meets when a proposal
    leaves the support). `top`: positions of the top-level entries (where the prior lives); `prior`: the prior the
    caller built the object from (only to tell which part excluded the point, for the coverage record)."""
    try:
        n = int(obj.n_parameters())
    except Exception as e:  # noqa
        ctx.spec(tag + '.raises', False, inp, {'raised': repr(e)[:200]})
        return
    if n == 0:
        return
    top = list(range(n)) if top is None else [int(j) for j in top]
    base = rng.uniform(0.6, 1.4, n)
    pts = [('inside', base)]
    pos = set(int(j) for j in rng.permutation(n)[:max(k - 1, 1)])
    if top:
        pos.add(int(top[int(rng.integers(len(top)))]))
    for j in sorted(pos):
        x = base.copy()
        x[j] = float(OUTSIDE[int(rng.integers(len(OUTSIDE)))])
        pts.append(('entry %d = %g' % (j, x[j]), x))
    if len(top) > 1 and rng.random() < 0.4:
        x = base.copy()
        x[top] = -0.7
        pts.append(('all top-level entries = -0.7', x))
    for where, x in pts:
        pin = dict(inp, evaluated_at=where, x=x)
        try:
            with np.errstate(all='ignore'), warnings.catch_warnings():
                warnings.simplefilter('ignore')
                v = obj(x.copy())
                s, g = obj.evaluateS1(x.copy())
        except Exception as e:  # noqa
            ctx.spec(tag + '.accepts_vector_of_reported_length', False, pin, {'raised': repr(e)[:200]})
            continue
        finite = bool(np.isfinite(v))
        shape = list(np.shape(np.asarray(g)))
        suffix = '' if finite else ('_where_score_is_minus_inf' if v == -np.inf else '_where_score_is_undefined')
        ctx.spec(tag + '.gradient_length' + suffix, shape == [n], pin,
                 {'gradient_shape': shape, 'n_parameters': n, 'score': float(v)})
        excluded_by = None
        if not finite:
            excluded_by = 'likelihood'
            if prior is not None:
                with np.errstate(all='ignore'):
                    if not np.isfinite(prior(x[top])):
                        excluded_by = 'prior'
            ctx.branches.add('%s/%s/excluded-by-%s' % (suffix[7:], tag[4:], excluded_by))
        if kind is not None and prior is not None:
            mo = ctx.model('C17.posteriorS1', kind, n - len(top), len(top), excluded_by == 'prior')
            ctx.agree('C17.posteriorS1.gradient_length', len(g), mo[0], pin)


def stable_queries(ctx, tag, obj, inp, names_fn='get_parameter_names', count_fn='n_parameters'):
    """asking twice gives the same answer (a name list handed out is the caller's to change)"""
    try:
        a = list(getattr(obj, names_fn)())
        a.append('appended by the caller')
        b = list(getattr(obj, names_fn)())
        c = list(getattr(obj, names_fn)())
        n = getattr(obj, count_fn)()
        ctx.spec(tag + '.repeated_queries', b == c == a[:-1] and n == len(b), inp,
                 {'first': a[:-1], 'second': b, 'third': c, 'count': n})
    except Exception as e:  # noqa
        ctx.spec(tag + '.repeated_queries', False, inp, {'raised': repr(e)[:200]})

def repeat_pairs(rng, sel):
    """a selection as a user may write it: some [param, dim] pairs listed more than once (adjacent or not), as
    lists or as tuples — the selection is a set, repeating a pair selects it once"""
    sel = [list(p) for p in sel]
    for _ in range(int(rng.integers(1, 4))):
        sel.insert(int(rng.integers(0, len(sel) + 1)), list(sel[int(rng.integers(len(sel)))]))
    if rng.random() < 0.3:
        sel = [tuple(p) for p in sel]
    return sel


def with_repeats(rng, subs, p=0.4):
    out = []
    for c, nd, nc, sel in subs:
        if nc and sel is not None and rng.random() < p:
            sel = repeat_pairs(rng, sel)
        out.append((c, nd, nc, sel))
    return out


def once(sel):
    """the selection with every pair written once, in the order of first appearance (the order in which the
    transformed parameters are stored is not at stake here)"""
    out = []
    for p, d in sel:
        if [int(p), int(d)] not in out:
            out.append([int(p), int(d)])
    return out


def canon(subs):
    """the same configuration with every selection written once per pair (for independent twins)"""
    return [(c, nd, nc, None if sel is None else once(sel)) for c, nd, nc, sel in subs]


def has_repeats(sel):
    return sel is not None and len({(int(p), int(d)) for p, d in sel}) < len(sel)


def make_models(ctx, chi, rng, subs, n_ids, inp):
    """the sub-models of a case; a selection that lists a pair twice is made through the documented call on the
    finished wrapper. Should such a selection be refused, the refusing call must leave the wrapper as consistent
    as it found it (and the case ends there)."""
    models = []
    for c, nd, nc, sel in subs:
        if not (nc and has_repeats(sel)):
            models.append(c02.make_sub(chi, c, nd, nc, sel, n_ids=n_ids))
            continue
        m = c02.make_sub(chi, c, nd, nc, None, n_ids=n_ids)
        try:
            m.set_population_parameters(sel)
        except (ValueError, IndexError):
            ctx.branches.add('repeated-selection-refused')
            m.set_n_ids(n_ids)
            check_pop(ctx, m, n_ids, rng, dict(inp, refused_selection=sel, subs=[[c02.KINDS[c], nd, nc, None]]),
                      'C17.population.after_refused_selection')
            return None
        models.append(m)
    return models


def check_pop(ctx, pm, n_ids, rng, inp, tag, known_tag=None, cov_pooled=False):
    """count == names == accepted vector == gradient length, for a population model"""
    t = known_tag or tag
    try:
        n = pm.n_parameters()
        names = pm.get_parameter_names()
        nb, nt = pm.n_hierarchical_parameters(n_ids)
    except Exception as e:  # noqa
        ctx.spec(t + '.raises', False, inp, {'raised': repr(e)[:200]})
        return
    ctx.spec(t + '.count_eq_names', n == len(names), inp, {'n_parameters': n, 'names': names})
    stable_queries(ctx, t, pm, inp)
    ctx.spec(t + '.top_eq_count', nt == n, inp, {'n_hierarchical_parameters': [nb, nt], 'n_parameters': n})
    if inp.get('composed') or len(inp.get('subs', [])) == 1:
        ctx.spec(t + '.names_distinct', len(set(names)) == len(names), inp, {'names': names})
    if n != len(names) or nt != n:
        return
    x = rng.uniform(0.5, 1.5, n)
    nd = pm.n_dim()
    psi = rng.uniform(0.5, 1.5, (n_ids, nd))
    ncov = pm.n_covariates()
    kw = {'covariates': rng.normal(size=(n_ids, ncov)) * 0.1} if ncov else {}
    try:
        with np.errstate(all='ignore'):
            pm.compute_log_likelihood(x, psi, **kw)
    except Exception as e:  # noqa
        ctx.spec(t + '.accepts_vector_of_reported_length', False, inp, {'raised': repr(e)[:200]})
        return
    tg = TAG3 if cov_pooled else t
    try:
        with np.errstate(all='ignore'):
            _, g = pm.compute_sensitivities(x, psi, reduce=True, **kw)
    except Exception as e:  # noqa
        ctx.spec(tg + '.gradient_raises', False, inp, {'raised': repr(e)[:200]})
        return
    ctx.spec(tg + '.gradient_length', len(g) == nb + nt, inp, {'len': len(g), 'reported': [nb, nt]})


def pop_objects(ctx, chi, rng, i, subs=None, n_ids=None, ops=True):
    if subs is None:
        n_ids, subs = c02.gen_case(rng)
        subs = with_repeats(rng, subs)
    composed = len(subs) > 1 or rng.random() < 0.5
    inp = {'object': 'population model', 'subs': [[c02.KINDS[c], nd, nc, sel] for c, nd, nc, sel in subs],
           'composed': composed, 'n_ids': n_ids}
    models = make_models(ctx, chi, rng, subs, n_ids, inp)
    if models is None:
        return
    pm = chi.ComposedPopulationModel(models) if composed else models[0]
    pm.set_n_ids(n_ids)
    hetero = any(c == 6 for c, _, _, _ in subs)
    seq = []
    wrapped_before_n_ids = False
    known = None
    last_sel = None
    if ops:
        for _ in range(int(rng.integers(0, 4))):
            r = rng.random()
            try:
                if r < 0.3:
                    n_new = int(rng.integers(1, 5))
                    H = sum(nd for c, nd, _, _ in subs if c == 6)
                    if isinstance(pm, chi.ReducedPopulationModel) and H and rng.random() < 0.6:
                        # the change removes (or adds) exactly as many parameters as are fixed
                        k = pm.n_fixed_parameters()
                        if k % H == 0 and n_ids - k // H >= 1:
                            n_new = n_ids - k // H
                    n_ids = n_new
                    pm.set_n_ids(n_ids)
                    seq.append('set_n_ids(%d)' % n_ids)
                    if isinstance(pm, chi.ReducedPopulationModel) and hetero:
                        known = TAG19
                elif r < 0.5:
                    pm.set_dim_names(['d%d' % k for k in range(pm.n_dim())])
                    seq.append('set_dim_names')
                elif r < 0.58:
                    pm.set_parameter_names(['p%d' % k for k in range(pm.n_parameters())])
                    seq.append('set_parameter_names')
                elif r < 0.65 and not isinstance(pm, chi.ReducedPopulationModel):
                    # custom names, then a reset: the defaults of a fresh object come back
                    pm.set_parameter_names(['q%d' % k for k in range(pm.n_parameters())])
                    pm.set_parameter_names(None)
                    seq.append('set_parameter_names(None)')
                    fresh = [c02.make_sub(chi, *s_, n_ids=n_ids) for s_ in canon(subs)]
                    fresh = chi.ComposedPopulationModel(fresh) if composed else fresh[0]
                    fresh.set_n_ids(n_ids)
                    if any(x == 'set_dim_names' for x in seq):
                        fresh.set_dim_names(['d%d' % k for k in range(fresh.n_dim())])
                    # (the twin carries the current selection, each pair written once: names of covariate
                    # coefficients follow it)
                    ctx.spec('C17.population.names_after_reset', pm.get_parameter_names() == fresh.get_parameter_names(),
                             dict(inp, sequence=list(seq)),
                             {'after_reset': pm.get_parameter_names(), 'fresh': fresh.get_parameter_names()})
                elif r < 0.85 and not isinstance(pm, chi.ReducedPopulationModel):
                    pm = chi.ReducedPopulationModel(pm)
                    nm = pm.get_parameter_names()
                    if len(set(nm)) == len(nm) and nm:
                        k = int(rng.integers(1, len(nm) + 1))
                        pm.fix_parameters({nm[j]: 1.0 for j in rng.choice(len(nm), size=k, replace=False)})
                    seq.append('fix_parameters')
                elif isinstance(pm, chi.CovariatePopulationModel):
                    # a new selection among the existing [param, dim] pairs, possibly listing pairs repeatedly
                    allp = [[p_, d_] for p_ in range(c02.per_dim(subs[0][0], n_ids)) for d_ in range(subs[0][1])]
                    sel_ = [allp[j] for j in rng.choice(len(allp), size=int(rng.integers(1, len(allp) + 1)),
                                                        replace=False)]
                    if rng.random() < 0.5:
                        sel_ = repeat_pairs(rng, sel_)
                    seq.append('set_population_parameters(%s)' % (sel_,))
                    try:
                        pm.set_population_parameters(sel_)
                        last_sel = sel_
                    except (ValueError, IndexError):
                        if not has_repeats(sel_):
                            raise
                        ctx.branches.add('repeated-selection-refused')     # then nothing may have changed
                    subs = [(subs[0][0], subs[0][1], subs[0][2], last_sel if last_sel is not None else subs[0][3])]
            except Exception as e:  # noqa
                stale_sel = any(c == 6 and nc and sel is not None and any(p_ >= n_ids for p_, _ in sel)
                                for c, _, nc, sel in subs)
                if stale_sel and isinstance(e, ValueError) and 'do not exist for n_ids' in str(e):
                    # documented rejection: covariate-shifted parameters of individuals that no longer exist
                    ctx.branches.add('set_n_ids-rejected-stale-selection')
                    return
                ctx.spec((known or 'C17.population') + '.reconfiguration_raises', False,
                         dict(inp, sequence=seq), {'raised': repr(e)[:200]})
                return
    inp['sequence'] = seq
    inp['n_ids'] = n_ids
    ctx.case('population/nsub%d/%s' % (len(subs), '+'.join(s.split('(')[0] for s in seq) or 'fresh'),
             nontrivial=('P/%s/%s' % ([(c02.KINDS[c], nd, nc) for c, nd, nc, _ in subs],
                                      [s.split('(')[0] for s in seq])) if (len(subs) > 1 or seq) else False,
             sample=inp)
    check_pop(ctx, pm, n_ids, rng, inp, 'C17.population', known,
              cov_pooled=any(c == 5 and nc > 0 for c, _, nc, _ in subs))
    if composed and not seq:
        sub_names = sum([m.get_parameter_names() for m in models], [])
        ctx.spec('C17.submodel_names_in_composite_order', pm.get_parameter_names() == sub_names, inp,
                 {'composite': pm.get_parameter_names(), 'parts': sub_names})
    if not seq and any(has_repeats(sel) for _, _, _, sel in subs):
        # a selection is a set: the object equals, in count and names, a fresh one whose selection lists each
        # pair once
        twin = [c02.make_sub(chi, *s_, n_ids=n_ids) for s_ in canon(subs)]
        twin = chi.ComposedPopulationModel(twin) if composed else twin[0]
        twin.set_n_ids(n_ids)
        ctx.spec('C17.population.repeated_selection_is_a_set', pm.get_parameter_names() == twin.get_parameter_names()
                 and pm.n_parameters() == twin.n_parameters(), inp,
                 {'names': pm.get_parameter_names(), 'n': pm.n_parameters(),
                  'fresh_with_each_pair_once': twin.get_parameter_names()})


def reduced_before_n_ids(ctx, chi, rng):
    """#19: wrap a model containing a HeterogeneousModel, then change the number of individuals"""
    pm = chi.ReducedPopulationModel(chi.ComposedPopulationModel(
        [chi.HeterogeneousModel(n_dim=1), chi.GaussianModel(n_dim=1)]))
    pm.set_n_ids(3)
    inp = {'object': 'ReducedPopulationModel(Composed[Heterogeneous, Gaussian])', 'sequence': ['wrap', 'set_n_ids(3)']}
    ctx.case('population/reduced-then-set_n_ids', nontrivial='P/reduced-then-set_n_ids', sample=inp)
    check_pop(ctx, pm, 3, rng, inp, 'C17.population', TAG19)


def reduced_then_resized(ctx, chi, rng):
    """a reduced population model with k fixed parameters around heterogeneous sub-models is resized — by
    set_n_ids or by building a hierarchical likelihood with another number of individuals —, in particular
    by exactly as many parameters as are fixed"""
    hd = [int(rng.integers(1, 3)) for _ in range(int(rng.integers(1, 3)))]
    others = [(int(rng.choice([0, 2, 5])), int(rng.integers(1, 3))) for _ in range(int(rng.integers(1, 3)))]
    parts = [('H', d) for d in hd] + [(c02.KINDS[c], d) for c, d in others]
    order = rng.permutation(len(parts))
    parts = [parts[j] for j in order]

    def mk(kind, d):
        return {'H': chi.HeterogeneousModel, 'Gc': chi.GaussianModel, 'LNc': chi.LogNormalModel,
                'P': chi.PooledModel}[kind](n_dim=d)
    n0 = int(rng.integers(2, 5))
    base = chi.ComposedPopulationModel([mk(k, d) for k, d in parts])
    base.set_n_ids(n0)
    pm = chi.ReducedPopulationModel(base)
    names = pm.get_parameter_names()
    H = sum(hd)
    # fix only parameters that exist for every number of individuals (not those of heterogeneous models)
    stable = [n for n in names if not n.startswith('ID ')]
    if not stable:
        return
    kmax = min(len(stable), (n0 - 1) * H)
    ks = [k for k in range(1, kmax + 1) if k % H == 0]
    k = int(rng.choice(ks)) if ks and rng.random() < 0.7 else int(rng.integers(1, len(stable) + 1))
    fx = [stable[j] for j in rng.choice(len(stable), size=k, replace=False)]
    names_old = list(names)
    pm.fix_parameters({n: 1.0 for n in fx})
    n1 = n0 - k // H if (k % H == 0 and n0 - k // H >= 1) else int(rng.integers(1, 5))
    via_hier = rng.random() < 0.5
    inp = {'object': 'ReducedPopulationModel(Composed%s)' % parts, 'n_ids_before': n0, 'fixed': fx, 'n_ids_after': n1,
           'resized_by': 'HierarchicalLogLikelihood' if via_hier else 'set_n_ids'}
    ctx.case('population/reduced-then-resized', nontrivial='P/red-resize/%s/%d/%d/%d' % (parts, n0, k, n1), sample=inp)
    try:
        if via_hier:
            D = sum(d for _, d in parts)
            lls = [chi.LogLikelihood(toy.ToyModel(1, D - 1, 5), chi.GaussianErrorModel(), [1.0, 2.0], [1.0, 2.0])
                   for _ in range(n1)]
            hll = chi.HierarchicalLogLikelihood(lls, pm)
            m = hll.n_parameters()
            nm = hll.get_parameter_names()
            ctx.spec('C17.Hierarchical.count_eq_names_eq_ids', m == len(nm) == len(hll.get_id()), inp,
                     {'n': m, 'names': len(nm)})
            x = rng.uniform(0.5, 1.5, m)
            with np.errstate(all='ignore'):
                hll(x)
                _, g = hll.evaluateS1(x)
            ctx.spec('C17.Hierarchical.gradient_length', len(g) == m, inp, {'len': len(g), 'n': m})
        else:
            pm.set_n_ids(n1)
    except Exception as e:  # noqa
        ctx.spec('C17.population.reconfiguration_raises', False, inp, {'raised': repr(e)[:200]})
        return
    fresh = chi.ComposedPopulationModel([mk(k_, d) for k_, d in parts])
    fresh.set_n_ids(n1)
    want = [n for n in fresh.get_parameter_names() if n not in fx]
    try:
        got = pm.get_parameter_names()
        mo = ctx.model('C17.resize', names_old, [[[n, 1.0] for n in fx]], list(fresh.get_parameter_names()))
        ctx.agree('C17.resize.names', list(got), mo[0], inp)
        ctx.agree('C17.resize.n_fixed', pm.n_fixed_parameters(), mo[1], inp)
        ctx.spec('C17.population.names_after_resize', got == want and pm.n_parameters() == len(want) and
                 pm.n_fixed_parameters() == len(fx), inp, {'names': got, 'expected': want, 'n': pm.n_parameters()})
    except Exception as e:  # noqa
        ctx.spec('C17.population.names_after_resize', False, inp, {'raised': repr(e)[:200]})
        return
    check_pop(ctx, pm, n1, rng, inp, 'C17.population')


def likelihood_objects(ctx, chi, rng, i):
    from props import c01
    kinds, grids, obs, n_mech, psi, sig = c01.gen_case(rng, ties=False)
    shared = len(kinds) >= 2 and rng.random() < 0.4
    if shared:
        # the user passes ONE error-model object for every output
        kinds = [kinds[0]] * len(kinds)
        from props import c04
        em = c04.classes(chi)[kinds[0]][0]()
        ll = chi.LogLikelihood(toy.ToyModel(len(kinds), n_mech, i), [em] * len(kinds),
                               [list(o) for o in obs], [list(g) for g in grids])
    else:
        _, ll = c01.build(chi, kinds, grids, obs, n_mech, i)
    if len(kinds) >= 2:
        model_out = toy.ToyModel(len(kinds), n_mech, i).outputs()
        em_names = {'G': ['Sigma'], 'M': ['Sigma rel.'], 'CM': ['Sigma base', 'Sigma rel.'], 'LN': ['Sigma log']}
        want = ['psi%d' % k for k in range(n_mech)] + [o + ' ' + nm for o, k_ in zip(model_out, kinds) for nm in em_names[k_]]
        ctx.spec('C17.LogLikelihood.names_identify_outputs', ll.get_parameter_names() == want,
                 {'kinds': kinds, 'shared_error_model_instance': shared}, {'names': ll.get_parameter_names(), 'expected': want})
    seq = []
    names0 = ll.get_parameter_names()
    if rng.random() < 0.5:
        k = int(rng.integers(1, len(names0)))
        ll.fix_parameters({names0[j]: 1.0 for j in rng.choice(len(names0), size=k, replace=False)})
        seq.append('fix_parameters')
    inp = {'object': 'LogLikelihood', 'kinds': kinds, 'n_mech': n_mech, 'sequence': seq}
    ctx.case('LogLikelihood/%dout/%s' % (len(kinds), '+'.join(seq) or 'fresh'),
             nontrivial=('LL/%s/%s' % (''.join(kinds), seq)) if (len(kinds) > 1 or seq) else False, sample=inp)
    stable_queries(ctx, 'C17.LogLikelihood', ll, inp)
    n = ll.n_parameters()
    names = ll.get_parameter_names()
    ctx.spec('C17.LogLikelihood.count_eq_names', n == len(names), inp, {'n': n, 'names': names})
    x = np.abs(rng.uniform(0.5, 1.5, n))
    if n and rng.random() < 0.3:
        # vectors on and beyond the boundary of the support are vectors of the reported length too
        x[int(rng.integers(n))] = float(rng.choice([0.0, -0.7]))
        inp = dict(inp, x=x)
    try:
        with np.errstate(all='ignore'):
            ll(x)
            if any(nm.startswith('psi') for nm in names):
                _, g = ll.evaluateS1(x)
                ctx.spec('C17.LogLikelihood.gradient_length', len(g) == n, inp, {'len': len(g)})
    except Exception as e:  # noqa
        ctx.spec('C17.LogLikelihood.accepts_vector_of_reported_length', False, inp, {'raised': repr(e)[:200]})
    ctx.spec('C17.LogLikelihood.names_distinct', len(set(names)) == len(names), inp, {'names': names})
    if any(nm.startswith('psi') for nm in names):
        gradient_length_everywhere(ctx, ll, 'C17.LogLikelihood', rng, {k_: v_ for k_, v_ in inp.items() if k_ != 'x'}, k=2)
    # gradient length after a fix -> evaluateS1 -> release -> evaluateS1 sequence
    if seq and rng.random() < 0.6:
        try:
            ll.fix_parameters({nm: None for nm in names0})
            xs = np.abs(rng.uniform(0.5, 1.5, ll.n_parameters()))
            with np.errstate(all='ignore'):
                _, g2 = ll.evaluateS1(xs)
            ctx.spec('C17.LogLikelihood.gradient_length_after_release', len(g2) == ll.n_parameters() == len(names0),
                     dict(inp, sequence=seq + ['evaluateS1', 'release all', 'evaluateS1']), {'len': len(g2)})
        except Exception as e:  # noqa
            ctx.spec('C17.LogLikelihood.gradient_length_after_release', False,
                     dict(inp, sequence=seq + ['evaluateS1', 'release all', 'evaluateS1']), {'raised': repr(e)[:200]})
    n = ll.n_parameters()
    if n > 0:
        prior = pints.ComposedLogPrior(*[pints.GaussianLogPrior(1, 1) for _ in range(n)]) if n > 1 \
            else pints.GaussianLogPrior(1, 1)
        post = chi.LogPosterior(ll, prior)
        ctx.spec('C17.LogPosterior.count_eq_names',
                 post.n_parameters() == len(post.get_parameter_names()) == n, inp)
        if any(nm.startswith('psi') for nm in ll.get_parameter_names()):
            # the same likelihood under priors with bounded supports, evaluated inside and outside of them
            prior, pk = mixed_prior(rng, n)
            post = chi.LogPosterior(ll, prior)
            pin = dict(inp, object='LogPosterior', priors=pk)
            ctx.spec('C17.LogPosterior.count_eq_names',
                     post.n_parameters() == len(post.get_parameter_names()) == n, pin)
            gradient_length_everywhere(ctx, post, 'C17.LogPosterior', rng, pin, prior=prior, k=2, kind='plain')


def pre_reduced_error_models(ctx, chi, rng, i):
    """error models handed over as reduced wrappers with a parameter fixed beforehand: after any releases the
    names of a likelihood / predictive model over several outputs still identify the output"""
    from props import c04
    n_out = int(rng.integers(2, 4))
    kinds = [c04.KINDS[int(rng.integers(4))] for _ in range(n_out)]
    em_names = {'G': ['Sigma'], 'M': ['Sigma rel.'], 'CM': ['Sigma base', 'Sigma rel.'], 'LN': ['Sigma log']}
    n_mech = int(rng.integers(1, 3))
    pre = []

    def ems():
        out = []
        for o, k in enumerate(kinds):
            em = c04.classes(chi)[k][0]()
            if pre[o] is not None:
                em = chi.ReducedErrorModel(em)
                em.fix_parameters({pre[o]: 0.7})
            out.append(em)
        return out
    for k in kinds:
        pre.append(em_names[k][int(rng.integers(len(em_names[k])))] if rng.random() < 0.7 else None)
    model = toy.ToyModel(n_out, n_mech, i)
    want_full = ['psi%d' % k for k in range(n_mech)] + [o + ' ' + nm for o, k_ in zip(model.outputs(), kinds)
                                                        for nm in em_names[k_]]
    hidden = [o + ' ' + p_ for o, p_ in zip(model.outputs(), pre) if p_ is not None]
    objs = [('LogLikelihood', chi.LogLikelihood(model, ems(), [[1.0, 2.0]] * n_out, [[1.0, 2.0]] * n_out)),
            ('PredictiveModel', chi.PredictiveModel(toy.ToyModel(n_out, n_mech, i), ems()))]
    for label, obj in objs:
        inp = {'object': label, 'kinds': kinds, 'fixed_beforehand_on_the_error_models': pre}
        ctx.case(label + '/pre-reduced-error-models', nontrivial='%s/pre/%s/%s' % (label, kinds, pre), sample=inp)
        tg = 'C17.%s.pre_reduced_error_models' % label
        try:
            names = obj.get_parameter_names()
            ctx.spec(tg + '/names', names == [n_ for n_ in want_full if n_ not in hidden] and
                     obj.n_parameters() == len(names), inp, {'names': names})
            # release everything, by the names that identify the outputs
            obj.fix_parameters({n_: None for n_ in hidden})
            names = obj.get_parameter_names()
            ctx.spec(tg + '/names_after_release', names == want_full and obj.n_parameters() == len(names) and
                     len(set(names)) == len(names), dict(inp, released=hidden), {'names': names, 'expected': want_full})
        except Exception as e:  # noqa
            ctx.spec(tg + '/raises', False, inp, {'raised': repr(e)[:200]})


def filter_posterior_objects(ctx, chi, rng, i):
    """PopulationFilterLogPosterior (generator of C13: every population composition, 1-3 observables,
    1-4 times, fixed or free sigma): count = names = IDs = ID-prefixed names = accepted vector = gradient"""
    from props import c13
    c = c13.gen_case(chi, rng)
    if c13.cfg_class(c.kinds, c.n_s) == 'wrapped_pooled':
        return          # recorded finding of C13 (C13.special_dims/wrapped_pooled)
    inp = {'object': 'PopulationFilterLogPosterior', 'kinds': c.kinds, 'n_observables': c.R, 'n_times': c.T,
           'n_samples': c.n_s, 'sigma_free': c.sigma_free}
    ctx.case('FilterPosterior/R%d' % c.R, nontrivial='F/%s/%d/%d/%d' % (c.kinds, c.R, c.T, c.n_s)
             if (c.R > 1 or len(c.kinds) > 1) else False, sample=inp)
    try:
        post, n_pop, n_top, cfg = c13.build(chi, c, rng)
        n = post.n_parameters()
        names = post.get_parameter_names()
        ids = post.get_id()
        pref = post.get_parameter_names(include_ids=True)
        ctx.spec('C17.FilterPosterior.count_eq_names_eq_ids', n == len(names) == len(ids) == len(pref), inp,
                 {'n': n, 'names': len(names), 'ids': len(ids), 'prefixed': len(pref)})
        ctx.spec('C17.FilterPosterior.prefixed_names_distinct', len(set(pref)) == len(pref), inp)
        nt = post.n_parameters(exclude_bottom_level=True)
        ctx.spec('C17.FilterPosterior.ids_mark_individual_entries',
                 all(x is None for x in ids[:nt]) and all(x is not None for x in ids[nt:]), inp, {'ids': ids})
        top = list(post.get_parameter_names(exclude_bottom_level=True))
        top_pref = list(post.get_parameter_names(exclude_bottom_level=True, include_ids=True))
        ctx.spec('C17.FilterPosterior.top_level_names', len(top) == nt == len(top_pref) and top == list(names[:nt])
                 and top_pref == list(pref[:nt]), inp, {'n_top': nt, 'top_names': top, 'top_names_with_ids': top_pref})
        x = rng.uniform(0.6, 1.4, n)
        with np.errstate(all='ignore'):
            post(x)
            _, g = post.evaluateS1(x)
        ctx.spec('C17.FilterPosterior.gradient_length', len(g) == n, inp, {'len': len(g), 'n': n})
        gradient_length_everywhere(ctx, post, 'C17.FilterPosterior', rng, inp, top=range(nt), prior=c.prior, k=3,
                                   kind='filter')
    except Exception as e:  # noqa
        ctx.spec('C17.FilterPosterior.raises', False, inp, {'raised': repr(e)[:200]})


def controller_objects(ctx, chi, rng, i):
    """ProblemModellingController: error-model objects shared between outputs and between controllers, fixed
    parameters, a population model on top; counts = names everywhere, names identify the outputs, the
    posteriors handed out accept vectors of the reported length"""
    import pandas as pd
    from props import c04
    n_out = int(rng.integers(1, 4))
    n_mech = int(rng.integers(1, 3))
    kinds = [c04.KINDS[int(rng.integers(4))] for _ in range(n_out)]
    shared = n_out >= 2 and rng.random() < 0.5
    if shared:
        kinds = [kinds[0]] * n_out
        em = c04.classes(chi)[kinds[0]][0]()
        ems = [em] * n_out
    else:
        ems = [c04.classes(chi)[k][0]() for k in kinds]
    em_names = {'G': ['Sigma'], 'M': ['Sigma rel.'], 'CM': ['Sigma base', 'Sigma rel.'], 'LN': ['Sigma log']}
    outs = toy.ToyModel(n_out, n_mech, i).outputs()
    want = ['psi%d' % k for k in range(n_mech)] + \
        [((o + ' ') if n_out > 1 else '') + nm for o, k_ in zip(outs, kinds) for nm in em_names[k_]]
    n_ids = int(rng.integers(1, 4))
    rows = []
    for pid in range(n_ids):
        for o in range(n_out):
            for t in np.sort(rng.choice(np.arange(1, 12) * 0.5, int(rng.integers(1, 3)), replace=False)):
                rows.append({'ID': 'p%d' % pid, 'Time': float(t), 'Observable': 'obs%d' % o,
                             'Value': float(rng.uniform(0.5, 3))})
    df = pd.DataFrame(rows)
    if rng.random() < 0.5:
        df.index = rng.integers(0, 3, len(df))      # repeated row labels (a frame glued from pieces)
    inp = {'object': 'ProblemModellingController', 'kinds': kinds, 'n_mech': n_mech, 'n_ids': n_ids,
           'one_error_model_object_for_all_outputs': shared}
    ctx.case('Controller/%dout%s' % (n_out, '+shared-error-model' if shared else ''),
             nontrivial='Ctrl/%s/%d/%s' % (kinds, n_ids, shared) if (n_out > 1 or n_ids > 1) else False, sample=inp)
    try:
        mech_in = toy.ToyModel(n_out, n_mech, i)
        wrap = rng.random()
        if wrap < 0.4:
            # handed over inside a reduced wrapper with nothing fixed (never fixed, or fixed and released again)
            mech_in = chi.ReducedMechanisticModel(mech_in)
            if wrap < 0.2:
                mech_in.fix_parameters({'psi0': 1.0})
                mech_in.fix_parameters({'psi0': None})
            inp = dict(inp, mechanistic_model_in_reduced_wrapper='released' if wrap < 0.2 else 'never fixed')
        c = chi.ProblemModellingController(mech_in, ems)
        stable_queries(ctx, 'C17.Controller', c, inp, count_fn='get_n_parameters')
        names = c.get_parameter_names()
        ctx.spec('C17.Controller.names_identify_outputs', names == want and c.get_n_parameters() == len(names), inp,
                 {'names': names, 'expected': want, 'n': c.get_n_parameters()})
        # a second controller from the same error-model objects: the first one keeps its names
        c2 = chi.ProblemModellingController(toy.ToyModel(n_out, n_mech, i), ems)
        ctx.spec('C17.Controller.names_identify_outputs', c.get_parameter_names() == want == c2.get_parameter_names(),
                 dict(inp, second_controller_from_same_error_models=True), {'first': c.get_parameter_names()})
        c.set_data(df, output_observable_dict={o: 'obs%d' % k for k, o in enumerate(outs)})
        seq = ['set_data']
        fixed = []
        if rng.random() < 0.5 and len(want) > 1:
            fixed = [want[j] for j in rng.choice(len(want), size=int(rng.integers(1, len(want))), replace=False)]
            c.fix_parameters({nm: 1.0 for nm in fixed})
            seq.append('fix_parameters')
        free = [nm for nm in want if nm not in fixed]
        names = c.get_parameter_names()
        ctx.spec('C17.Controller.count_eq_names', names == free and c.get_n_parameters() == len(free),
                 dict(inp, sequence=seq, fixed=fixed), {'names': names, 'expected': free})
        n = len(free)
        c_prior = pints.ComposedLogPrior(*[pints.UniformLogPrior(0, 10) for _ in range(n)]) if n > 1 \
            else pints.UniformLogPrior(0, 10)
        c.set_log_prior(c_prior)
        stable_queries(ctx, 'C17.Controller', c, dict(inp, sequence=seq), count_fn='get_n_parameters')
        post = c.get_log_posterior(individual='p0')
        stable_queries(ctx, 'C17.LogPosterior', post, dict(inp, sequence=seq))
        pmod = c.get_predictive_model()
        stable_queries(ctx, 'C17.PredictiveModel', pmod, dict(inp, sequence=seq))
        x = rng.uniform(0.5, 1.5, n)
        with np.errstate(all='ignore'):
            post(x)
            _, g = post.evaluateS1(x) if any(nm.startswith('psi') for nm in free) else (None, np.zeros(n))
        if any(nm.startswith('psi') for nm in free):
            gradient_length_everywhere(ctx, post, 'C17.Controller.posterior', rng, dict(inp, sequence=seq, fixed=fixed),
                                       prior=c_prior, k=2, kind='plain')
        ctx.spec('C17.Controller.posterior_lengths', post.n_parameters() == n == len(post.get_parameter_names()) == len(g)
                 and list(post.get_parameter_names()) == free, dict(inp, sequence=seq, fixed=fixed),
                 {'posterior_names': list(post.get_parameter_names()), 'expected': free})
        # a population model on top
        subs = [chi.PooledModel() if rng.random() < 0.5 else chi.LogNormalModel() for _ in range(n)]
        c.set_population_model(chi.ComposedPopulationModel(subs) if (n > 1 or rng.random() < 0.5) else subs[0])
        seq.append('set_population_model')
        pn = c.get_parameter_names()
        ctx.spec('C17.Controller.count_eq_names', c.get_n_parameters() == len(pn) and len(set(pn)) == len(pn),
                 dict(inp, sequence=seq), {'names': pn, 'n': c.get_n_parameters()})
        nt = len(pn)
        h_prior = pints.ComposedLogPrior(*[pints.LogNormalLogPrior(0, 0.3) for _ in range(nt)]) if nt > 1 \
            else pints.LogNormalLogPrior(0, 0.3)
        c.set_log_prior(h_prior)
        hp = c.get_log_posterior()
        m = hp.n_parameters()
        ids = hp.get_id()
        ctx.spec('C17.Controller.hierarchical_posterior_lengths',
                 m == len(hp.get_parameter_names()) == len(ids) == len(hp.get_parameter_names(include_ids=True)) and
                 hp.n_parameters(exclude_bottom_level=True) == nt and
                 list(hp.get_parameter_names(exclude_bottom_level=True)) == list(pn) ==
                 list(hp.get_parameter_names(exclude_bottom_level=True, include_ids=True)) and
                 len(set(hp.get_parameter_names(include_ids=True))) == m, dict(inp, sequence=seq),
                 {'n': m, 'names': len(hp.get_parameter_names()), 'ids': len(ids)})
        xs = rng.uniform(0.5, 1.5, m)
        with np.errstate(all='ignore'):
            hp(xs)
            _, g = hp.evaluateS1(xs)
        ctx.spec('C17.Controller.hierarchical_posterior_lengths', len(g) == m, dict(inp, sequence=seq), {'len': len(g)})
        gradient_length_everywhere(ctx, hp, 'C17.Controller.hierarchical_posterior', rng, dict(inp, sequence=seq),
                                   top=range(m - nt, m), prior=h_prior, k=2, kind='hierarchical')
    except Exception as e:  # noqa
        ctx.spec('C17.Controller.raises', False, inp, {'raised': repr(e)[:300]})


HIST_KINDS = ('H', 'P', 'LN', 'G')


def controller_histories(ctx, chi, rng, i):
    """a ProblemModellingController held across a HISTORY of set_population_model / fix_parameters (fix and
    release) / set_data calls in any order, with population models whose number of parameters depends on the number
    of individuals (heterogeneous sub-models) and datasets with DIFFERENT numbers of individuals. After every call:
    reported count = reported names = the names of a fresh population model of the current composition and current
    number of individuals without the currently fixed ones (documented: set_data and set_population_model set all
    population parameters free again). Whenever data is set: a prior of the reported dimension is accepted, the
    posterior built has exactly the reported names as its top level, IDs / vectors / gradients of its own reported
    length; the predictive model reports the same population parameters."""
    import pandas as pd
    from props import c04
    n_out = int(rng.integers(1, 3))
    n_mech = int(rng.integers(1, 3))
    kinds = [c04.KINDS[int(rng.integers(4))] for _ in range(n_out)]
    em_names = {'G': ['Sigma'], 'M': ['Sigma rel.'], 'CM': ['Sigma base', 'Sigma rel.'], 'LN': ['Sigma log']}
    outs = toy.ToyModel(n_out, n_mech, i).outputs()
    bottom = ['psi%d' % k for k in range(n_mech)] + \
        [((o + ' ') if n_out > 1 else '') + nm for o, k_ in zip(outs, kinds) for nm in em_names[k_]]
    D = len(bottom)

    def draw_pop():
        pk = [HIST_KINDS[int(rng.choice(4, p=[0.4, 0.2, 0.2, 0.2]))] for _ in range(D)]
        return pk, (D > 1 or rng.random() < 0.5)

    def make_pop(pk, composed):
        cls = {'H': chi.HeterogeneousModel, 'P': chi.PooledModel, 'LN': chi.LogNormalModel, 'G': chi.GaussianModel}
        ms = [cls[k]() for k in pk]
        return chi.ComposedPopulationModel(ms) if composed else ms[0]

    def make_data(n_ids):
        rows = []
        for pid in range(n_ids):
            for o in range(n_out):
                for t in np.sort(rng.choice(np.arange(1, 12) * 0.5, int(rng.integers(1, 3)), replace=False)):
                    rows.append({'ID': 'p%d' % pid, 'Time': float(t), 'Observable': 'obs%d' % o,
                                 'Value': float(rng.uniform(0.5, 3))})
        return pd.DataFrame(rows)

    # the reference state (what the documentation says the calls do)
    st = {'pop': None, 'n_ids': None, 'fixed': []}

    def reference_names():
        if st['pop'] is None:
            return list(bottom)
        fresh = make_pop(*st['pop'])
        if st['n_ids'] is not None:
            fresh.set_n_ids(st['n_ids'])
        fresh.set_dim_names(list(bottom))
        return [nm for nm in fresh.get_parameter_names() if nm not in st['fixed']]

    length = int(rng.integers(3, 7))
    seq = []
    wire = []       # the same history for the Lean model (ChiModel.CtrlHistory)
    inp = {'object': 'ProblemModellingController held across a history', 'error_models': kinds, 'n_mech': n_mech}
    c = chi.ProblemModellingController(toy.ToyModel(n_out, n_mech, i), [c04.classes(chi)[k][0]() for k in kinds])
    hetero_resized_while_fixed = False
    step = 0
    while step < length or st['n_ids'] is None:
        step += 1
        r = rng.random()
        if st['pop'] is None and st['n_ids'] is not None:
            op = 'set_population_model'
        elif st['pop'] is None:
            op = 'set_population_model' if r < 0.6 else 'set_data'
        elif step > length:
            op = 'set_data'
        else:
            op = 'set_data' if r < 0.35 else ('fix_parameters' if r < 0.75 else
                                              ('release' if r < 0.87 else 'set_population_model'))
        try:
            if op == 'set_population_model':
                pk = draw_pop()
                c.set_population_model(make_pop(*pk))
                st['pop'], st['fixed'] = pk, []
                wire.append(['pop', list(pk[0])])
                seq.append('set_population_model(%s)' % '+'.join(pk[0]))
            elif op == 'set_data':
                others = [k for k in range(1, 5) if k != (st['n_ids'] or 1)]
                n_ids = int(rng.choice(others)) if rng.random() < 0.8 else int(st['n_ids'] or 1)
                if st['fixed'] and st['pop'] and 'H' in st['pop'][0] and n_ids != (st['n_ids'] or 1):
                    hetero_resized_while_fixed = True
                c.set_data(make_data(n_ids), output_observable_dict={o: 'obs%d' % k for k, o in enumerate(outs)})
                st['n_ids'], st['fixed'] = n_ids, []
                wire.append(['data', n_ids])
                seq.append('set_data(%d individuals)' % n_ids)
            elif op == 'fix_parameters':
                cur = reference_names()
                if len(cur) < 2:
                    continue
                fx = [cur[j] for j in rng.choice(len(cur), size=int(rng.integers(1, len(cur))), replace=False)]
                c.fix_parameters({nm: 1.0 for nm in fx})
                st['fixed'] = st['fixed'] + fx
                wire.append(['fix', list(fx)])
                seq.append('fix_parameters(%s)' % fx)
            else:
                if not st['fixed']:
                    continue
                rel = [nm for nm in st['fixed'] if rng.random() < 0.6] or [st['fixed'][0]]
                c.fix_parameters({nm: None for nm in rel})
                st['fixed'] = [nm for nm in st['fixed'] if nm not in rel]
                wire.append(['release', list(rel)])
                seq.append('fix_parameters(release %s)' % rel)
        except Exception as e:  # noqa
            ctx.spec('C17.Controller.history.raises', False, dict(inp, sequence=seq + [op]), {'raised': repr(e)[:300]})
            return
        hin = dict(inp, sequence=list(seq))
        try:
            want = reference_names()
            names = list(c.get_parameter_names())
            n = c.get_n_parameters()
            ctx.spec('C17.Controller.history.count_eq_names', n == len(names) and len(set(names)) == len(names), hin,
                     {'n': n, 'names': names})
            ctx.spec('C17.Controller.history.names_of_current_configuration', names == want, hin,
                     {'names': names, 'expected': want})
            mo = ctx.model('C17.ctrlHistory', list(bottom), wire)
            ctx.agree('C17.ctrlHistory.names', names, mo[0], hin)
            ctx.agree('C17.ctrlHistory.count', int(n), mo[1], hin)
            if st['n_ids'] is None or st['pop'] is None or n == 0 or (step < length and rng.random() < 0.4):
                continue
            prior = pints.ComposedLogPrior(*[pints.LogNormalLogPrior(0, 0.3) for _ in range(n)]) if n > 1 \
                else pints.LogNormalLogPrior(0, 0.3)
            try:
                c.set_log_prior(prior)
                hp = c.get_log_posterior()
            except Exception as e:  # noqa
                ctx.spec('C17.Controller.history.prior_of_reported_dimension_accepted', False, hin,
                         {'reported_n': n, 'raised': repr(e)[:300]})
                continue
            m = hp.n_parameters()
            nt = hp.n_parameters(exclude_bottom_level=True)
            ids = list(hp.get_id())
            top = list(hp.get_parameter_names(exclude_bottom_level=True))
            ctx.agree('C17.ctrlHistory.posterior_top_level', top, mo[2], hin)
            ctx.spec('C17.Controller.history.posterior_top_level_is_the_reported', nt == n and top == names, hin,
                     {'controller': names, 'posterior_top_level': top, 'n_top': nt})
            ctx.spec('C17.Controller.history.posterior_lengths',
                     m == len(hp.get_parameter_names()) == len(ids) == len(hp.get_parameter_names(include_ids=True))
                     and sum(1 for x in ids if x is not None) == m - nt and all(x is None for x in ids[m - nt:])
                     and len(set(hp.get_parameter_names(include_ids=True))) == m, hin,
                     {'n': m, 'names': len(hp.get_parameter_names()), 'ids': len(ids), 'n_top': nt})
            gradient_length_everywhere(ctx, hp, 'C17.Controller.history.posterior', rng, hin,
                                       top=range(m - nt, m), prior=prior, k=2, kind='hierarchical')
            pmod = c.get_predictive_model()
            pn = list(pmod.get_parameter_names())
            ctx.spec('C17.Controller.history.predictive_model', pmod.n_parameters() == len(pn) and pn == names, hin,
                     {'predictive_names': pn, 'controller': names, 'n': pmod.n_parameters()})
        except Exception as e:  # noqa
            ctx.spec('C17.Controller.history.raises', False, hin, {'raised': repr(e)[:300]})
            return
    shape = [s.split('(')[0] for s in seq]
    ctx.case('Controller/history/%s%s' % ('+'.join(shape), '/heterogeneous-resized-while-fixed'
                                          if hetero_resized_while_fixed else ''),
             nontrivial='CtrlH/%s/%s' % (kinds, seq), sample=dict(inp, sequence=seq))


def covariate_objects(ctx, chi, rng, i):
    """covariate models on their own and as the wrapper's part, after a history of selections of the transformed
    [param, dim] pairs — written in any order, as lists / tuples / arrays, pairs possibly listed repeatedly (a
    selection is a set) — and renamings: count = names = number of selected pairs x covariates = accepted vector
    = gradient length; same count and names as a fresh object given the last selection once per pair"""
    n_cov = int(rng.integers(1, 4))
    code = int(rng.integers(7))
    nd = int(rng.integers(1, 4))
    n_ids = int(rng.integers(1, 5))
    P = c02.per_dim(code, n_ids)
    allp = [[p_, d_] for p_ in range(P) for d_ in range(nd)]
    hist = []
    for _ in range(int(rng.integers(1, 4))):
        sel = [allp[j] for j in rng.choice(len(allp), size=int(rng.integers(1, len(allp) + 1)), replace=False)]
        if rng.random() < 0.6:
            sel = repeat_pairs(rng, sel)
        if rng.random() < 0.2:
            sel = np.array(sel)
        hist.append(sel)
    last = sorted({(int(p_), int(d_)) for p_, d_ in hist[-1]})
    shown = [np.asarray(h).tolist() for h in hist]
    rep = any(has_repeats(h) for h in hist)
    inp = {'object': 'LinearCovariateModel', 'n_cov': n_cov, 'wrapped': c02.KINDS[code], 'n_dim': nd, 'n_ids': n_ids,
           'selections': shown}
    ctx.case('Covariate/%s' % ('repeated-pairs' if rep else 'plain'),
             nontrivial='Cov/%s/%d/%d/%s' % (c02.KINDS[code], nd, n_cov, [len(h) for h in hist]), sample=inp)
    # --- the covariate model on its own
    cm = chi.LinearCovariateModel(n_cov=n_cov)
    tag = 'C17.CovariateModel'
    ok = True
    for h in hist:
        try:
            cm.set_population_parameters(h)
        except (ValueError, IndexError):
            if not has_repeats(h):
                raise
            ctx.branches.add('repeated-selection-refused')
            ok = False              # a refusal must leave the model consistent; which selection it has is open
    if rng.random() < 0.3:
        cm.set_parameter_names(['b%d' % k for k in range(cm.n_parameters())])
    if rng.random() < 0.3:
        cm.set_parameter_names(None)
    try:
        n = cm.n_parameters()
        names = list(cm.get_parameter_names())
        pidx, didx = cm.get_set_population_parameters()
        stored = sorted(zip([int(x) for x in pidx], [int(x) for x in didx]))
        ctx.spec(tag + '.count_eq_names', n == len(names), inp, {'n_parameters': n, 'names': names})
        ctx.spec(tag + '.count_eq_selected_times_covariates', n == len(stored) * n_cov and
                 len(set(stored)) == len(stored), inp, {'n_parameters': n, 'selected': stored, 'n_cov': n_cov})
        if ok:
            ctx.spec(tag + '.selection_is_a_set', stored == last and n == len(last) * n_cov, inp,
                     {'n_parameters': n, 'selected': stored, 'distinct_pairs_of_last_selection': last})
            mo = ctx.model('C07.linselect', [list(x) for x in np.asarray(hist[-1]).tolist()])
            ctx.agree('C17.selection', [list(x) for x in stored], sorted(list(x) for x in mo[0]), inp)
            ctx.agree('C17.selection.n_parameters', n, len(mo[0]) * n_cov, inp)
        stable_queries(ctx, tag, cm, inp)
        x = rng.normal(size=n) * 0.3
        pop = rng.uniform(0.5, 1.5, (P, nd))
        cov = rng.normal(size=(n_ids, n_cov))
        th = cm.compute_population_parameters(x, pop, cov)
        dpop, dpar = cm.compute_sensitivities(x, pop, cov, rng.normal(size=(n_ids, P, nd)))
        ctx.spec(tag + '.gradient_length', np.shape(dpar) == (n,) and np.shape(dpop) == (P * nd,) and
                 np.shape(th) == (n_ids, P, nd), inp, {'gradient': list(np.shape(dpar)), 'n_parameters': n})
    except Exception as e:  # noqa
        ctx.spec(tag + '.accepts_vector_of_reported_length', False, inp, {'raised': repr(e)[:200]})
    # --- inside the population-model wrapper
    inp = dict(inp, object='CovariatePopulationModel')
    pm = c02.make_sub(chi, code, nd, n_cov, None, n_ids=n_ids)
    pm.set_n_ids(n_ids)
    ok = True
    for h in hist:
        try:
            pm.set_population_parameters(h)
        except (ValueError, IndexError):
            if not has_repeats(h):
                raise
            ctx.branches.add('repeated-selection-refused')
            ok = False
    if ok:
        twin = c02.make_sub(chi, code, nd, n_cov, once(hist[-1]), n_ids=n_ids)
        twin.set_n_ids(n_ids)
        ctx.spec('C17.population.repeated_selection_is_a_set', pm.get_parameter_names() == twin.get_parameter_names()
                 and pm.n_parameters() == twin.n_parameters() == P * nd + len(last) * n_cov, inp,
                 {'names': pm.get_parameter_names(), 'n': pm.n_parameters(),
                  'fresh_with_each_pair_once': twin.get_parameter_names()})
    check_pop(ctx, pm, n_ids, rng, dict(inp, subs=[[c02.KINDS[code], nd, n_cov, shown[-1]]]), 'C17.population',
              cov_pooled=(code == 5))


def top_level_names(ctx, obj, tag, subs, ids, ll_names, top_ref, inp, model=True):
    """the four name lists of a hierarchical object (all / top level only, with / without ID prefix), its IDs and its
    two counts against the documented layout: every individual's names (the individual likelihood's names of the
    dimensions that are not pooled / heterogeneous), individual by individual, then the population model's free
    names; top level only = exactly that trailing block, whatever its length (also none)"""
    keep = []
    off = 0
    for c, nd, _, _ in subs:
        if c not in (5, 6):
            keep += list(range(off, off + nd))
        off += nd
    bottom = [ll_names[j] for j in keep]
    want_all = bottom * len(ids) + list(top_ref)
    want_ids = [i_ for i_ in ids for _ in bottom] + [None] * len(top_ref)
    want_pref = [(i_ + ' ' + nm) if i_ else nm for i_, nm in zip(want_ids, want_all)]
    try:
        got = {'n': int(obj.n_parameters()), 'n_top': int(obj.n_parameters(exclude_bottom_level=True)),
               'names': list(obj.get_parameter_names()),
               'names_with_ids': list(obj.get_parameter_names(include_ids=True)),
               'top_names': list(obj.get_parameter_names(exclude_bottom_level=True)),
               'top_names_with_ids': list(obj.get_parameter_names(exclude_bottom_level=True, include_ids=True)),
               'ids': list(obj.get_id())}
    except Exception as e:  # noqa
        ctx.spec(tag + '.top_level_names', False, inp, {'raised': repr(e)[:200]})
        return
    n, nt = got['n'], got['n_top']
    # internal agreement: counts = lengths, the top-level lists are the trailing nt entries of the full lists
    ctx.spec(tag + '.top_level_names', len(got['top_names']) == nt == len(got['top_names_with_ids']) and
             got['top_names'] == got['names'][n - nt:] and got['top_names_with_ids'] == got['names_with_ids'][n - nt:]
             and sum(1 for x in got['ids'] if x is not None) == n - nt, inp,
             {k: (v if isinstance(v, int) else len(v)) for k, v in got.items()})
    # against the documented layout
    want = {'n': len(want_all), 'n_top': len(top_ref), 'names': want_all, 'names_with_ids': want_pref,
            'top_names': list(top_ref), 'top_names_with_ids': list(top_ref), 'ids': want_ids}
    bad = [k for k in want if got[k] != want[k]]
    ctx.spec(tag + '.documented_name_layout', not bad, inp,
             {'differs_in': bad, 'got': {k: got[k] for k in bad[:2]}, 'expected': {k: want[k] for k in bad[:2]}})
    if model:
        mo = ctx.model('C17.topnames', list(ids), bottom, list(top_ref))
        for j, k in enumerate(['names', 'names_with_ids', 'top_names', 'top_names_with_ids', 'ids', 'n', 'n_top']):
            ctx.agree('C17.topnames.' + k, got[k], mo[j], inp)


def hier_objects(ctx, chi, rng, i, subs=None, n_ids=None):
    generated = subs is None
    if subs is None:
        n_ids, subs = c02.gen_case(rng)
        subs = with_repeats(rng, subs)
    D = sum(nd for _, nd, _, _ in subs)
    models = make_models(ctx, chi, rng, subs, n_ids, {
        'object': 'population model for a HierarchicalLogLikelihood', 'n_ids': n_ids,
        'subs': [[c02.KINDS[c], nd, nc, sel] for c, nd, nc, sel in subs]})
    if models is None:
        return
    pm = chi.ComposedPopulationModel(models) if (len(models) > 1 or rng.random() < 0.5) else models[0]
    # the population distribution may be partly or completely known: a reduced population model with some,
    # all but one, or ALL of its parameters fixed (then only individual-level parameters remain)
    fixed = []
    full_top = None
    if generated and rng.random() < 0.3:
        pm.set_n_ids(n_ids)
        full_top = list(pm.get_parameter_names())
        if full_top and len(set(full_top)) == len(full_top):
            r = rng.random()
            k = len(full_top) if r < 0.4 else (len(full_top) - 1 if r < 0.55 else int(rng.integers(1, len(full_top) + 1)))
            fixed = [full_top[j] for j in sorted(rng.choice(len(full_top), size=k, replace=False))] if k else []
            if fixed:
                pm = chi.ReducedPopulationModel(pm)
                pm.fix_parameters({nm: 1.0 for nm in fixed})
    lls = []
    # labels: none (the hierarchical likelihood assigns 'Log-likelihood <position>'), the user's own, or —
    # likelihoods re-used from an earlier hierarchical model, in another order or subset — labels that look
    # like the defaults of other positions
    label_mode = rng.random()
    labels = []
    for k in range(n_ids):
        lls.append(chi.LogLikelihood(toy.ToyModel(1, D - 1, 5), chi.GaussianErrorModel(), [1.0, 2.0], [1.0, 2.0]))
        lab = None
        if label_mode < 0.25:
            r = rng.random()
            lab = None if r < 0.4 else ('Log-likelihood %d' % int(rng.integers(1, n_ids + 2)) if r < 0.8
                                        else 'patient %d' % int(rng.integers(1, 4)))
        elif label_mode < 0.4:
            lab = 'patient %d' % (k + 1)
        if lab is not None:
            lls[-1].set_id(lab)
        labels.append(lab)
    effective = [lab if lab is not None else 'Log-likelihood %d' % (k + 1) for k, lab in enumerate(labels)]
    n_cov = sum(nc for _, _, nc, _ in subs)
    cov = rng.normal(size=(n_ids, n_cov)) * 0.3 if n_cov else None
    cov_pooled = any(c == 5 and nc > 0 for c, _, nc, _ in subs)
    inp = {'object': 'HierarchicalLogLikelihood', 'n_ids': n_ids, 'labels': labels,
           'subs': [[c02.KINDS[c], nd, nc, sel] for c, nd, nc, sel in subs]}
    if fixed:
        inp['population_parameters_fixed'] = fixed
        inp['n_population_parameters_left'] = len(full_top) - len(fixed)
    mlab = ctx.model('C17.labels', labels)[0]
    if len(set(effective)) < len(effective):
        # two individuals would carry the same ID: the object must not come into being
        ctx.case('Hierarchical/colliding-labels', nontrivial='Hdup/%s' % labels, sample=inp)
        try:
            h = chi.HierarchicalLogLikelihood(lls, pm, covariates=cov)
            got = [ll.get_id() for ll in h.get_log_likelihoods()] if hasattr(h, 'get_log_likelihoods') else None
            ctx.spec('C17.Hierarchical.ids_of_individuals_distinct', False, inp,
                     {'constructed_with_ids': h.get_id(unique=True), 'individual_ids': got})
        except ValueError:
            ctx.branches.add('colliding-labels-rejected')
            ctx.agree('C17.labels', 'err:valueError', mlab, inp)
        except Exception as e:  # noqa
            ctx.spec('C17.Hierarchical.raises', False, inp, {'raised': repr(e)[:200]})
        return
    red = '' if not fixed else ('+all-population-parameters-fixed' if len(fixed) == len(full_top) else '+reduced')
    ctx.case('Hierarchical/nsub%d%s' % (len(subs), red),
             nontrivial=('H/%s/%d%s' % ([(c02.KINDS[c], nd, nc) for c, nd, nc, _ in subs], n_ids, red))
             if (len(subs) > 1 or fixed) else False, sample=inp)
    try:
        hll = chi.HierarchicalLogLikelihood(lls, pm, covariates=cov)
        n = hll.n_parameters()
        names = hll.get_parameter_names()
        ids = hll.get_id()
        pref = hll.get_parameter_names(include_ids=True)
    except Exception as e:  # noqa
        ctx.spec('C17.Hierarchical.raises', False, inp, {'raised': repr(e)[:200]})
        return
    stable_queries(ctx, 'C17.Hierarchical', hll, inp)
    stable_queries(ctx, 'C17.Hierarchical.ids', hll, inp, names_fn='get_id')
    nt = hll.n_parameters(exclude_bottom_level=True)
    ctx.spec('C17.Hierarchical.count_eq_names_eq_ids', n == len(names) == len(ids) == len(pref), inp,
             {'n': n, 'names': len(names), 'ids': len(ids)})
    ctx.spec('C17.Hierarchical.ids_mark_individual_entries',
             all(x is not None for x in ids[:n - nt]) and all(x is None for x in ids[n - nt:]), inp, {'ids': ids})
    ctx.spec('C17.Hierarchical.prefixed_names_distinct', len(set(pref)) == len(pref), inp, {'names': pref})
    try:
        uid = list(hll.get_id(unique=True))
        ctx.spec('C17.Hierarchical.ids_of_individuals_distinct', uid == effective, inp,
                 {'ids': uid, 'expected': effective})
        ctx.agree('C17.labels', uid, mlab, inp)
    except Exception as e:  # noqa
        ctx.spec('C17.Hierarchical.ids_of_individuals_distinct', False, inp, {'raised': repr(e)[:200]})
    ctx.spec('C17.Hierarchical.population_names_in_order', names[n - nt:] == pm.get_parameter_names(), inp)
    top_level_names(ctx, hll, 'C17.Hierarchical', subs, effective, lls[0].get_parameter_names(),
                    [nm for nm in full_top if nm not in fixed] if fixed else list(pm.get_parameter_names()), inp)
    # model correspondence (lengths as the Lean model computes them)
    msubs = [[c, nd, nc, [list(p) for p in c02.stored_selection(c, nd, nc, sel, n_ids)]] for c, nd, nc, sel in subs]
    x = rng.uniform(0.5, 1.5, n)
    mo = [None] if fixed else \
        ctx.model('C02.call', False, n_ids, msubs, list(x), [] if cov is None else [list(r) for r in cov],
                  lls[0].get_parameter_names(), pm.get_parameter_names(), [ll.get_id() for ll in lls])
    if len(mo) > 1:
        ctx.agree('C17.n_parameters', n, mo[4] + mo[5], inp)
        ctx.agree('C17.names_length', len(names), len(mo[2]), inp)
        ctx.agree('C17.ids_length', len(ids), len(mo[3]), inp)
    if n and rng.random() < 0.25:
        x[int(rng.integers(n))] = float(rng.choice([0.0, -0.7]))
        inp = dict(inp, x=x)
    try:
        with np.errstate(all='ignore'):
            v = hll(x)
            if True:
                _, g = hll.evaluateS1(x)
                ctx.spec('C17.Hierarchical.gradient_length', len(g) == n, inp, {'len': len(g), 'n': n})
    except Exception as e:  # noqa
        ctx.spec('C17.Hierarchical.accepts_vector_of_reported_length', False, inp, {'raised': repr(e)[:200]})
    hin = {k_: v_ for k_, v_ in inp.items() if k_ != 'x'}
    gradient_length_everywhere(ctx, hll, 'C17.Hierarchical', rng, hin, top=range(n - nt, n), k=2)
    if nt > 0:
        prior = pints.ComposedLogPrior(*[pints.GaussianLogPrior(1, 1) for _ in range(nt)]) if nt > 1 \
            else pints.GaussianLogPrior(1, 1)
        post = chi.HierarchicalLogPosterior(hll, prior)
        ctx.spec('C17.HierarchicalLogPosterior.count_eq_names_eq_ids',
                 post.n_parameters() == len(post.get_parameter_names()) == len(post.get_id()) == n, inp)
        top_level_names(ctx, post, 'C17.HierarchicalLogPosterior', subs, effective, lls[0].get_parameter_names(),
                        [nm for nm in full_top if nm not in fixed] if fixed else list(pm.get_parameter_names()), inp,
                        model=False)
        # the posterior under priors with bounded supports, evaluated inside and outside of them (and where the
        # population model or an error model excludes the point)
        prior, pk = mixed_prior(rng, nt)
        post = chi.HierarchicalLogPosterior(hll, prior)
        pin = dict(inp, object='HierarchicalLogPosterior', priors=pk)
        pin.pop('x', None)
        m = post.n_parameters()
        ctx.spec('C17.HierarchicalLogPosterior.count_eq_names_eq_ids',
                 m == len(post.get_parameter_names()) == len(post.get_id()) == n, pin)
        gradient_length_everywhere(ctx, post, 'C17.HierarchicalLogPosterior', rng, pin, top=range(m - nt, m),
                                   prior=prior, k=3, kind='hierarchical')


def predictive_objects(ctx, chi, rng, i):
    n_out, n_par = int(rng.integers(1, 3)), int(rng.integers(1, 4))
    ems = [c08.em_classes(chi)[int(rng.integers(4))]() for _ in range(n_out)]
    pmod = chi.PredictiveModel(toy.ToyModel(n_out, n_par, i), ems)
    seq = []
    if rng.random() < 0.5:
        nm = pmod.get_parameter_names()
        pmod.fix_parameters({nm[j]: 1.0 for j in rng.choice(len(nm), size=int(rng.integers(1, len(nm))), replace=False)})
        seq.append('fix_parameters')
    inp = {'object': 'PredictiveModel', 'n_out': n_out, 'n_par': n_par, 'sequence': seq}
    ctx.case('PredictiveModel/%s' % ('+'.join(seq) or 'fresh'), nontrivial='PM/%d/%d/%s' % (n_out, n_par, seq)
             if (seq or n_out > 1) else False, sample=inp)
    n = pmod.n_parameters()
    ctx.spec('C17.PredictiveModel.count_eq_names', n == len(pmod.get_parameter_names()), inp)
    try:
        pmod.sample(rng.uniform(0.5, 1.5, n), [1.0, 2.0], seed=1)
    except Exception as e:  # noqa
        ctx.spec('C17.PredictiveModel.accepts_vector_of_reported_length', False, inp, {'raised': repr(e)[:200]})
    # population predictive model
    nb = n
    subs = [(int(rng.choice([2, 5])), 1, 0, None) for _ in range(nb)]
    pop = chi.ComposedPopulationModel([c02.make_sub(chi, *s) for s in subs])
    ppm = chi.PopulationPredictiveModel(pmod, pop)
    n2 = ppm.n_parameters()
    ctx.spec('C17.PopulationPredictiveModel.count_eq_names', n2 == len(ppm.get_parameter_names()), inp)
    try:
        ppm.sample(rng.uniform(0.3, 0.6, n2), [1.0, 2.0], n_samples=2, seed=1)
    except Exception as e:  # noqa
        ctx.spec('C17.PopulationPredictiveModel.accepts_vector_of_reported_length', False, inp,
                 {'raised': repr(e)[:200]})


def sbml_objects(ctx, chi, rng, count):
    import refsim
    refsim.install()
    from chi.library import ModelLibrary
    lib = ModelLibrary()
    makers = [lib.one_compartment_pk_model, lib.tumour_growth_inhibition_model_koch]
    for k in range(count):
        m = makers[k % len(makers)]()
        seq = []
        known = None
        had_indirect = False
        for _ in range(int(rng.integers(0, 4))):
            r = rng.random()
            try:
                if r < 0.45 and hasattr(m, 'set_administration'):
                    comp = 'central'
                    direct = bool(rng.integers(2))
                    if had_indirect and direct:
                        known = TAG10
                    had_indirect = had_indirect or not direct
                    m.set_administration(comp, direct=direct)
                    seq.append('set_administration(direct=%s)' % direct)
                elif r < 0.7:
                    outs = m.outputs()
                    m.set_outputs(outs[:1])
                    seq.append('set_outputs')
                else:
                    nm = m.parameters()
                    m.set_parameter_names({nm[0]: 'renamed%d' % len(seq)})
                    seq.append('set_parameter_names')
            except Exception as e:  # noqa
                ctx.spec((known or 'C17.SBMLModel') + '.reconfiguration_raises', False,
                         {'object': type(m).__name__, 'sequence': seq}, {'raised': repr(e)[:200]})
                break
        inp = {'object': 'library model %d' % (k % len(makers)), 'sequence': seq}
        ctx.case('SBML/%s' % ('+'.join(s.split('(')[0] for s in seq) or 'fresh'),
                 nontrivial=('SBML/%d/%s' % (k % len(makers), seq)) if seq else False, sample=inp)
        t = known or 'C17.SBMLModel'
        n = m.n_parameters()
        names = m.parameters()
        ctx.spec(t + '.count_eq_names', n == len(names), inp, {'n': n, 'names': names})
        stable_queries(ctx, t, m, inp, names_fn='parameters')
        stable_queries(ctx, t + '.outputs', m, inp, names_fn='outputs', count_fn='n_outputs')
        ctx.spec(t + '.outputs', m.n_outputs() == len(m.outputs()), inp)
        try:
            x = rng.uniform(0.5, 1.5, n)
            out = m.simulate(x, [0.5, 1.0])
            ctx.spec(t + '.output_shape', np.asarray(out).shape == (m.n_outputs(), 2), inp)
            m.enable_sensitivities(True)
            out, s = m.simulate(x, [0.5, 1.0])
            ctx.spec(t + '.sensitivity_width', s.shape == (2, m.n_outputs(), n), inp, {'shape': list(s.shape)})
        except Exception as e:  # noqa
            ctx.spec(t + '.accepts_vector_of_reported_length', False, inp, {'raised': repr(e)[:200]})
            continue
        # sensitivities requested for a subset; measured and unmeasured individuals (empty time grid)
        try:
            sub = [names[j] for j in sorted(rng.choice(n, size=int(rng.integers(1, n + 1)), replace=False))]
            m.enable_sensitivities(True, sub)
            _, s1 = m.simulate(x, [0.5, 1.0])
            o0, s0 = m.simulate(x, [])
            ctx.spec(t + '.sensitivity_width_subset', s1.shape == (2, m.n_outputs(), len(sub)) and
                     s0.shape == (0, m.n_outputs(), len(sub)) and np.asarray(o0).shape == (m.n_outputs(), 0),
                     dict(inp, sensitivities_for=sub), {'shape': list(s1.shape), 'shape_empty_grid': list(s0.shape)})
            rm = chi.ReducedMechanisticModel(m)
            fx = {names[j]: float(x[j]) for j in rng.choice(n, size=int(rng.integers(1, n)), replace=False)} \
                if n > 1 else {}
            rm.fix_parameters(fx)
            for tms, obs_ in (([], []), ([0.5, 1.0], [1.0, 1.2])):
                ll = chi.LogLikelihood(rm, [chi.GaussianErrorModel() for _ in range(rm.n_outputs())],
                                       [list(obs_) for _ in range(rm.n_outputs())],
                                       [list(tms) for _ in range(rm.n_outputs())])
                k = ll.n_parameters()
                xs = rng.uniform(0.5, 1.5, k)
                with np.errstate(all='ignore'):
                    ll(xs)
                    _, g = ll.evaluateS1(xs)
                ctx.spec(t + '.likelihood_gradient_length', len(g) == k == len(ll.get_parameter_names()),
                         dict(inp, fixed=sorted(fx), measurements=len(tms)), {'len': len(g), 'n': k})
        except Exception as e:  # noqa
            ctx.spec(t + '.likelihood_over_reduced_model_raises', False, dict(inp), {'raised': repr(e)[:200]})


def run(ctx):
    chi = core.import_chi()
    quick = ctx.tier == 'quick'
    reduced_before_n_ids(ctx, chi, ctx.sub_rng(999))
    n = 360 if quick else 4000
    for i in range(n):
        ctx.guard(pop_objects, ctx, chi, ctx.sub_rng(4 * i), i)
        ctx.guard(hier_objects, ctx, chi, ctx.sub_rng(4 * i + 1), i)
        if i % 2 == 0:
            ctx.guard(likelihood_objects, ctx, chi, ctx.sub_rng(4 * i + 2), i)
            ctx.guard(predictive_objects, ctx, chi, ctx.sub_rng(4 * i + 3), i)
        if i % 6 == 1:
            ctx.guard(pre_reduced_error_models, ctx, chi, ctx.sub_rng(4 * i + 3), i)
        if i % 3 == 2:
            ctx.guard(filter_posterior_objects, ctx, chi, ctx.sub_rng(4 * i + 3), i)
        if i % 3 == 0:
            ctx.guard(controller_objects, ctx, chi, ctx.sub_rng(4 * i + 3), i)
        if i % 3 == 1:
            ctx.guard(controller_histories, ctx, chi, ctx.sub_rng(4 * i + 2), i)
        if i % 4 == 1:
            ctx.guard(reduced_then_resized, ctx, chi, ctx.sub_rng(4 * i + 3))
        if i % 4 == 3:
            ctx.guard(covariate_objects, ctx, chi, ctx.sub_rng(4 * i + 3), i)
    ctx.guard(sbml_objects, ctx, chi, ctx.sub_rng(10 ** 6), 12 if quick else 80)
    if not quick:
        opts = [(c, nd, 0, None) for c in range(7) for nd in (1, 2)]
        k = 0
        for nn in (1, 2, 3):
            for combo in itertools.product(opts, repeat=nn):
                k += 1
                if nn == 3 and k % 5:
                    continue
                rng = np.random.default_rng([ctx.seed, 17, k])
                pop_objects(ctx, chi, rng, k, subs=list(combo), n_ids=int(rng.integers(1, 4)), ops=False)
                hier_objects(ctx, chi, rng, k, subs=list(combo), n_ids=int(rng.integers(1, 4)))
        ctx.extra['exhaustive'] = 'all compositions of <=2 elementary sub-models with dims<=2, every 5th of depth 3'


def replay(ctx, data):
    core.import_chi()
    print('failing case:', str(data['failing'])[:2000])
    ctx.seed = int(data.get('seed', 0))
    run(ctx)
    bad = [b for b in ctx.spec_bad if b['tag'] == data['failing']['tag']]
    print('reproduced' if bad else 'not reproduced', str(bad[:1])[:800])
    return 1 if bad else 0
