"""C14 — the problem controller builds exactly the posterior the dataset describes"""
import copy
import math

import numpy as np
import pandas as pd
import pints
import myokit

import core
import toy
from props import c04

REQUIRED_THEOREMS = [
    'C14_ids', 'C14_ids_first_appearance', 'C14_rows', 'C14_rows_multiset', 'C14_rows_perm',
    'C14_regimens', 'C14_regimens_own', 'C14_regimen_amount', 'C14_covariates_aligned',
    'C14_irrelevant_rows', 'C14_irrelevant_rows_insert', 'C14_foreign_columns', 'C14_irrelevant_rows_ids',
    'C14_id_types', 'C14_id_types_int_str', 'C14_id_types_int_flt', 'C14_set_data',
    'C14_sorted_rows', 'C14_row_order_irrelevant', 'C14_posterior_irrelevant_rows',
    'C14_data_follows_outputs', 'C14_map_order_irrelevant', 'C14_observable_types',
    'C14_posterior', 'C14_posterior_exists', 'C14_posterior_of_frame', 'C14_prefix_posterior_partial',
    'C14_unsorted_counterexample', 'C14_single_individual_counterexample', 'C14_selector_counterexample',
    'C14_selector_zero', 'C14_model_state_after', 'C14_history_independent', 'C14_stale_regimen_counterexample',
    'C14_default_map_by_name', 'C14_default_map_unrelated_observables', 'C14_default_map_single',
    'C14_default_map_missing', 'C14_set_data_default_map', 'C14_default_map_frames']
RULE = ('long-format frames with 1-5 (sometimes 11) individuals (int / float / str / mixed-object ID columns, IDs '
        'that coincide as strings, IDs whose string order differs from their order of appearance, the ID 0 / 0.0 / "0" '
        'at any position), 1-3 outputs '
        'mapped to observables (explicit / identity / automatic map; no map passed at all: outputs matched to the '
        'observables of the same name among unrelated observables, covariate rows and labelled dose rows in any '
        'order of appearance, or one output paired with the only observable; explicit maps written in any order, with extra '
        'keys, observable names and map values as numbers or strings), unbalanced and tied times, rows with missing '
        'value / time, unrelated observables, foreign columns, renamed keys, arbitrary index labels (permuted, '
        'strided, duplicated), numbers given as text, categorical / nullable column dtypes, dose rows with / '
        'without duration, covariate rows; layouts: individual blocks, random interleaving, globally time-sorted, '
        'fully shuffled (rows of an individual in any time order); with / without population model (pooled / '
        'heterogeneous / log-normal / Gaussian blocks, covariate-dependent blocks), fixed parameters, both set-up '
        'orders, a discarded earlier set_data, an earlier dataset with another dosing mode (with / without a posterior '
        'built from it), the same error-model instance for several outputs, a second controller built from the '
        'same model objects (caller objects compared before / after); every individual selected by its string key and by the value its '
        'ID has in the frame (Python and numpy scalars, boundary IDs first); doses of amount 0, parameters fixed at 0; toy mechanistic model with a closed-form dose response, PKPD library model on the '
        'reference integrator for a few cases. non-trivial = >=2 individuals and (interleaved / sorted / shuffled '
        'layout, or dose rows, or covariates, or missing cells); distinct = distinct (layout, id type, #ids, '
        '#outputs, population blocks, dosing mode, fixed, set-up order)')
ASSUMPTIONS = [
    'the ID column has no missing cells; float IDs have integer values below 1e15 (printed as "n.0")',
    'observable cells and the values of the name maps are stringified cell by cell (pandas converts a categorical '
    'column of numbers with missing cells via floats: recorded finding C14-observable-categorical-missing)',
    'times, doses and durations are non-negative doubles; durations are positive',
    'pandas: astype("string"), to_numeric, unique() = order of first appearance, boolean masks keep frame '
    'order, comparisons with <NA> select nothing; myokit.Protocol.add keeps events ordered by start and '
    'rejects two events with the same start (modelled, not verified)',
    'the mechanistic model is an arbitrary function of (parameters, protocol, time): harness/props/c14.py '
    'DoseToy (closed form) stands for it; the PKPD cases use harness/refsim.py',
    'population-model and likelihood arithmetic is not re-derived here (C01, C02, C05, C07): the hand-built '
    'posterior uses chi.LogLikelihood / chi.HierarchicalLogLikelihood directly']

KINDS = c04.KINDS
SIM_LOG = []          # (regimen events | None, times) of every DoseToy.simulate call
# does get_log_posterior leave an individual's regimen on the controller's own mechanistic model (the code as
# recorded in finding C14-stale-regimen) or not (repaired)?  decided at run start by `detect_shared_mutation`
MUTATES = [True]


# ----------------------------------------------------------------------------------------------
# mechanistic models
# ----------------------------------------------------------------------------------------------
class DoseToy(toy.ToyModel):
    """ToyModel plus a closed-form response to a myokit.Protocol: every event (level, start, duration)
    adds level*duration * w_o * exp(-q_o (t-start)) / (1+duration) for t >= start. Every call of
    `simulate` is recorded (the mechanistic-model boundary)."""

    def __init__(self, n_outputs=1, n_parameters=2, seed=0, dosing=True):
        super().__init__(n_outputs, n_parameters, seed)
        rng = np.random.default_rng([seed, 11])
        self._w = rng.uniform(0.1, 0.5, n_outputs)
        self._q = rng.uniform(0.1, 0.9, n_outputs)
        self._dosing = dosing
        self._regimen = None

    def supports_dosing(self):
        return self._dosing

    def set_dosing_regimen(self, dose, start=0, duration=0.01, period=None, num=None):
        if not self._dosing:
            raise AttributeError('no dosing')
        if not isinstance(dose, myokit.Protocol):
            dose = myokit.pacing.blocktrain(period=period or 0, duration=duration, offset=start,
                                            level=dose / duration, limit=num or 0)
        self._regimen = dose.clone()

    def dosing_regimen(self):
        return self._regimen

    def events(self):
        if self._regimen is None:
            return None
        return [[e.level(), e.start(), e.duration()] for e in self._regimen.events()]

    def value(self, parameters, o, t):
        v = super().value(parameters, o, t)
        for lv, st, du in (self.events() or []):
            if t >= st:
                v += lv * du * self._w[o] * math.exp(-self._q[o] * (t - st)) / (1 + du)
        return float(v)

    def simulate(self, parameters, times):
        SIM_LOG.append((self.events(), [float(t) for t in np.asarray(times, float)]))
        return super().simulate(parameters, times)


def protocol_of(events):
    p = myokit.Protocol()
    for lv, st, du in events:
        p.add(myokit.ProtocolEvent(lv, st, du))
    return p


def events_of(protocol):
    return [[e.level(), e.start(), e.duration()] for e in protocol.events()]


# ----------------------------------------------------------------------------------------------
# case generator  (a case is plain JSON data, so that a replay file reproduces it exactly)
# ----------------------------------------------------------------------------------------------
POOL = [0.25 * k for k in range(0, 33)]
LAYOUTS = ['blocks', 'interleaved', 'timesorted', 'shuffled']


def raw_key(rid):
    """what pandas' astype("string") makes of an ID cell (used only to keep generated IDs distinct and to
    form selectors; the model's own `RawId.key` is what the correspondence compares)"""
    kind, v = rid
    return str(v) if kind in ('int', 'str') else '%d.0' % v


def gen_pop(rng, n_dim, allow_cov=True):
    """random partition of the bottom-level dimensions into population blocks"""
    blocks = []
    left = n_dim
    while left > 0:
        k = int(rng.integers(1, left + 1))
        kind = ['pooled', 'lognormal', 'gaussian', 'hetero'][int(rng.integers(4))]
        cov = None
        if allow_cov and kind in ('lognormal', 'gaussian') and rng.random() < 0.4:
            cov = ['Age', 'Sex'][:int(rng.integers(1, 3))]
        blocks.append([kind, k, cov])
        left -= k
    if all(b[0] in ('pooled', 'hetero') for b in blocks) and rng.random() < 0.7:
        blocks[0][0] = 'lognormal'
    # covariate names must be unique across blocks
    seen = False
    for b in blocks:
        if b[2] is not None:
            if seen:
                b[2] = None
            seen = True
    return blocks


def merge_keep_order(rng, lists):
    """random interleaving of several lists that keeps each list's own order"""
    lists = [list(x) for x in lists if len(x)]
    out = []
    while lists:
        w = np.array([len(x) for x in lists], float)
        k = int(rng.choice(len(lists), p=w / w.sum()))
        out.append(lists[k].pop(0))
        if not lists[k]:
            lists.pop(k)
    return out


def gen_history(rng, dosing, order):
    """an earlier dataset on the same controller: another dosing mode the mechanistic model allows, optionally a
    posterior built from it (drawn for every case so that the random stream does not depend on it)"""
    modes = ['unsupported'] if dosing == 'unsupported' else ['full', 'full', 'nodur', 'nokey', 'nocolumn']
    h = {'dosing': modes[int(rng.integers(len(modes)))], 'posterior': bool(rng.random() < 0.6),
         'rows': 'all' if rng.random() < 0.7 else 'half'}
    use = rng.random() < 0.3
    return h if (use and order == 'A') else None


def gen_case(rng, layout=None, force=None):
    force = force or {}
    n_ids = int(force.get('n_ids', rng.choice([1, 2, 2, 3, 3, 4, 5, 11])))
    id_type = force.get('id_type', ['int', 'str', 'float', 'strnum', 'mixed', 'merge'][int(rng.integers(6))])
    layout = layout or LAYOUTS[int(rng.choice(4, p=[0.25, 0.35, 0.15, 0.25]))]
    n_out = int(force.get('n_out', rng.choice([1, 1, 2, 3])))
    n_mech = int(rng.integers(1, 4))
    kinds = [KINDS[int(rng.integers(4))] for _ in range(n_out)]
    perm = list(range(n_out))
    outputs_arg = None
    if n_out > 1 and rng.random() < 0.3:
        perm = [int(x) for x in rng.permutation(n_out)]
        outputs_arg = ['out%d' % o for o in perm]
    outputs = ['out%d' % o for o in perm]
    # observable names
    map_mode = ['explicit', 'explicit', 'identity', 'auto'][int(rng.integers(4))]
    has_pop = bool(force.get('pop', rng.random() < 0.5))
    n_err = sum(2 if k == 'CM' else 1 for k in kinds)
    fix_b = rng.random() < 0.3
    pop = gen_pop(rng, n_mech + n_err - (1 if fix_b else 0)) if has_pop else None
    cov_names = [c for b in (pop or []) if b[2] for c in b[2]]
    junk = rng.random() < 0.6
    # no output_observable_dict passed at all: outputs are matched to the observables of the same name, whatever
    # else the frame holds (unrelated observables, covariate rows, labelled dose rows — anywhere, also first);
    # only a frame with ONE observable and a model with ONE output are paired regardless of the name ('auto')
    default_map = bool(rng.random() < 0.5)
    if map_mode == 'auto' and (n_out > 1 or junk or cov_names):
        map_mode = 'identity' if default_map else 'explicit'
        default_map = True
    # observable names: strings, or numbers (stringified by the controller: '7', never compared as numbers)
    numeric_obs = map_mode != 'identity' and rng.random() < 0.25
    if map_mode == 'identity':
        obs_of = {o: o for o in outputs}
    else:
        names = [7, 12, 3] if numeric_obs else ['conc', 'biomarker x', 'Tumour_Volume']
        # which observable an output is mapped to has nothing to do with the position of the output
        names = [names[int(k)] for k in rng.permutation(3)]
        obs_of = {o: names[k] for k, o in enumerate(outputs)}
    cov_mode = 'explicit' if numeric_obs else ('identity' if rng.random() < 0.5 else 'explicit')
    cov_obs = {c: (c if cov_mode == 'identity' else ({'Age': 41, 'Sex': 42}[c] if numeric_obs else 'cov ' + c.lower()))
               for c in cov_names}
    junk_name = 99 if numeric_obs else 'unrelated'
    dose_label = 55 if numeric_obs else 'dose event'
    # dosing mode
    dosing = force.get('dosing', ['full', 'full', 'nodur', 'nokey', 'unsupported', 'nocolumn'][int(rng.integers(6))])
    user_regimen = None
    if dosing in ('nokey',) and rng.random() < 0.7:
        user_regimen = [[float(rng.choice([1.0, 2.0, 4.0])), float(rng.choice(POOL[:8])), 0.5]]
    # raw ids
    nums = [int(x) for x in rng.choice(np.arange(1, 40), size=n_ids, replace=False)]
    if rng.random() < 0.15:
        nums[0] = -nums[0]
    if rng.random() < 0.3:
        # boundary value: the identifier 0 (0, 0.0, '0' are falsy / truthy in different ways) at any position
        nums[int(rng.integers(n_ids))] = 0

    def rid(n, variant=0):
        if id_type == 'int':
            return ['int', n]
        if id_type == 'float':
            return ['flt', n]
        if id_type == 'str':
            return ['str', ['patient %d', 'p%d', 'ID-%d'][n % 3] % n]
        if id_type == 'strnum':
            return ['str', str(n)]
        if id_type == 'mixed':
            return [['int', n], ['str', 'x%d' % n], ['flt', n]][n % 3]
        # merge: the same individual is written sometimes as an int, sometimes as the same string
        return [['int', n], ['str', str(n)]][variant % 2]
    per_ind = []
    for n in nums:
        lists = []
        for o in outputs:
            k = int(rng.choice([0, 1, 2, 3, 4], p=[0.12, 0.2, 0.28, 0.25, 0.15]))
            ts = sorted(float(t) for t in rng.choice(POOL, size=k, replace=(rng.random() < 0.15)))
            rows = [[None, t, obs_of[o], float(np.round(rng.uniform(0.3, 4.0), 3)), None, None] for t in ts]
            # missing value / missing time rows of a mapped observable
            for _ in range(int(rng.integers(0, 3)) if rng.random() < 0.5 else 0):
                if rng.random() < 0.5:
                    rows.insert(int(rng.integers(len(rows) + 1)), [None, float(rng.choice(POOL)), obs_of[o], None, None, None])
                else:
                    rows.insert(int(rng.integers(len(rows) + 1)), [None, None, obs_of[o], float(rng.uniform(0.3, 4.0)), None, None])
            lists.append(rows)
        if junk:
            lists.append([[None, float(rng.choice(POOL)), junk_name, float(rng.uniform(5, 9)), None, None]
                          for _ in range(int(rng.integers(0, 3)))])
        if dosing != 'nocolumn':
            k = int(rng.integers(0, 4))
            dts = sorted(float(t) for t in rng.choice(POOL[:20], size=k, replace=False))
            drows = []
            for t in dts:
                du = [0.25, 0.5, 1.0, None][int(rng.integers(4))]
                ob = None if rng.random() < 0.7 else dose_label
                drows.append([None, t, ob, None, float(rng.choice([0.0, 0.5, 1.0, 2.0, 3.0], p=[0.08, 0.23, 0.23, 0.23, 0.23])), du])
            if rng.random() < 0.2:   # dose without time: ignored
                drows.append([None, None, None, None, 1.0, 0.5])
            if rng.random() < 0.3 and drows:
                rng.shuffle(drows)   # the order of dose rows never matters
            lists.append(drows)
        for c in cov_names:
            t = None if rng.random() < 0.6 else float(rng.choice(POOL))
            val = float(np.round(rng.uniform(0.0, 2.0), 2)) if c == 'Age' else float(rng.integers(0, 2))
            crow = [[None, t, cov_obs[c], val, None, None]]
            if rng.random() < 0.2:
                crow.append([None, t, cov_obs[c], None, None, None])      # missing duplicate: ignored
            lists.append(crow)
        rows = merge_keep_order(rng, lists)
        for r in rows:
            r[0] = rid(n, int(rng.integers(2)))
        per_ind.append(rows)
    if layout == 'blocks':
        order = rng.permutation(n_ids)
        rows = [r for k in order for r in per_ind[int(k)]]
    elif layout == 'interleaved':
        rows = merge_keep_order(rng, per_ind)
    elif layout == 'timesorted':
        rows = merge_keep_order(rng, per_ind)
        rows = sorted(rows, key=lambda r: (r[1] is None, r[1] or 0.0))
    else:
        rows = [r for p in per_ind for r in p]
        rows = [rows[int(k)] for k in rng.permutation(len(rows))]
    if not rows or not any(r[2] in list(obs_of.values()) for r in rows):
        # the mapped observable must occur at least once in the frame (otherwise set_data rejects the map)
        rows.append([rid(nums[0]), 1.0, obs_of[outputs[0]], 1.5, None, None])
    if map_mode == 'auto' and len({r[2] for r in rows if r[2] is not None}) != 1:
        map_mode = 'explicit'
    for c in cov_names:   # a covariate observable must exist for every individual; top up after edits
        pass
    foreign = ['Unit', 'Comment'][:int(rng.integers(0, 3))]
    for r in rows:
        r.append([str(int(rng.integers(100))) for _ in foreign])
    keys = None
    if rng.random() < 0.25:
        keys = {'id_key': 'Patient', 'time_key': 't [h]', 'obs_key': 'Biomarker', 'value_key': 'Measurement',
                'dose_key': 'Amount', 'dose_duration_key': 'Infusion time'}
    # fixed parameters and set-up order
    fixed_bottom = None
    fixed_top = None
    if fix_b:
        fixed_bottom = [int(rng.integers(n_mech + n_err)),
                        0.0 if rng.random() < 0.1 else float(np.round(rng.uniform(0.6, 1.4), 2))]
    if has_pop and rng.random() < 0.3:
        fixed_top = [int(rng.integers(1000)), float(np.round(rng.uniform(0.6, 1.4), 2))]
    order = 'A'
    if has_pop and (not cov_names or cov_mode == 'identity') and rng.random() < 0.4:
        order = 'B'
    return {
        'rows': rows, 'foreign': foreign, 'keys': keys, 'col_seed': int(rng.integers(1 << 30)),
        'layout': layout, 'id_type': id_type, 'n_out': n_out, 'n_mech': n_mech, 'kinds': kinds,
        'toy_seed': int(rng.integers(1000)), 'outputs_arg': outputs_arg, 'outputs': outputs,
        'map_mode': map_mode, 'obs_of': obs_of, 'pop': pop, 'cov_obs': cov_obs, 'cov_mode': cov_mode,
        'dosing': dosing, 'user_regimen': user_regimen, 'fixed_bottom': fixed_bottom, 'fixed_top': fixed_top,
        'order': order, 'eval_seed': int(rng.integers(1 << 30)), 'model': 'toy',
        'map_seed': int(rng.integers(1 << 30)), 'numeric_obs': bool(numeric_obs),
        'pass_identity_none': bool(default_map and map_mode == 'identity'),
        'frame_mode': [None, None, None, None, 'numeric_as_string', 'column_dtypes'][int(rng.integers(6))],
        'pre_set': bool(rng.random() < 0.15),
        'em_alias': bool(rng.random() < 0.3), 'second_controller': bool(rng.random() < 0.3),
        'history': gen_history(rng, dosing, order),
        # an earlier population model on the same controller (other covariates / none), with a posterior built
        # from it, replaced by the case's own population model afterwards
        'pop_history': ([None, None, 'reversed', 'fewer', 'plain'][int(rng.integers(5))]
                        if has_pop and cov_names else ([None, None, 'plain'][int(rng.integers(3))]
                                                       if has_pop else None))}


# ----------------------------------------------------------------------------------------------
# frame, wire rows, chi objects
# ----------------------------------------------------------------------------------------------
DEFAULT_KEYS = {'id_key': 'ID', 'time_key': 'Time', 'obs_key': 'Observable', 'value_key': 'Value',
                'dose_key': 'Dose', 'dose_duration_key': 'Duration'}


def id_cell(rid):
    kind, v = rid
    return int(v) if kind == 'int' else (float(v) if kind == 'flt' else str(v))


def make_frame(case):
    keys = case['keys'] or DEFAULT_KEYS
    rows = case['rows']
    kinds = {r[0][0] for r in rows}
    idcol = [id_cell(r[0]) for r in rows]
    if len(kinds) > 1:
        idcol = pd.Series(idcol, dtype=object)
    cols = {keys['id_key']: idcol,
            keys['time_key']: [np.nan if r[1] is None else r[1] for r in rows],
            keys['obs_key']: pd.Series([np.nan if r[2] is None else r[2] for r in rows], dtype=object),
            keys['value_key']: [np.nan if r[3] is None else r[3] for r in rows]}
    if case['dosing'] != 'nocolumn':
        cols[keys['dose_key']] = [np.nan if r[4] is None else r[4] for r in rows]
        cols[keys['dose_duration_key']] = [np.nan if r[5] is None else r[5] for r in rows]
    for k, f in enumerate(case['foreign']):
        cols[f] = [r[6][k] for r in rows]
    names = list(cols)
    crng = np.random.default_rng(case['col_seed'])
    names = [names[int(k)] for k in crng.permutation(len(names))]
    df = pd.DataFrame({n: cols[n] for n in names})
    # the index labels of a user frame are arbitrary (a frame that was sorted, filtered out of a larger
    # one or concatenated keeps its old labels): the row order is what the dataset means
    mode = int(crng.integers(4))
    if mode == 1:
        df.index = crng.permutation(len(df))
    elif mode == 2:
        df.index = np.arange(len(df)) * 3 + 7
    elif mode == 3:
        df.index = [0] * len(df)            # duplicate labels, as after pd.concat without ignore_index
    fm = case.get('frame_mode')
    if fm == 'numeric_as_string':
        # numbers read as text (pd.to_numeric in _clean_data); repr round-trips a double exactly
        for col in (keys['time_key'], keys['value_key'], keys['dose_key'], keys['dose_duration_key']):
            if col in df:
                df[col] = pd.Series([None if pd.isna(x) else repr(float(x)) for x in df[col]], dtype=object,
                                    index=df.index)
    elif fm == 'column_dtypes':
        # categorical / nullable extension dtypes
        if len(kinds) == 1 and 'int' in kinds:
            df[keys['id_key']] = df[keys['id_key']].astype('Int64' if crng.random() < 0.5 else 'category')
        elif len(kinds) == 1:
            df[keys['id_key']] = df[keys['id_key']].astype('category')
        # (includes a categorical column of NUMBERS with missing cells, which pandas stringifies through
        #  floats — '7.0' — in astype("string") but not in astype(str): finding
        #  C14-observable-categorical-missing, repaired; also probed in observable_dtype)
        df[keys['obs_key']] = df[keys['obs_key']].astype('category')
        df[keys['time_key']] = df[keys['time_key']].astype('Float64')
    return df


def wire_rows(case):
    out = []
    for r in case['rows']:
        kind, v = r[0]
        idv = int(v) if kind == 'int' else ([int(v)] if kind == 'flt' else str(v))
        out.append([idv] + [None if x is None else float(x) for x in (r[1],)] + [r[2]] +
                   [None if x is None else float(x) for x in (r[3], r[4], r[5])] + [list(r[6])])
    return out


def has_dose(case):
    return case['dosing'] in ('full', 'nodur')


def user_maps(case):
    """output_observable_dict / covariate_dict as the user writes them: a Python dict, i.e. entries in ANY order
    (not the order of mechanistic_model.outputs()), possibly with keys that are no outputs / covariates, values
    numbers or strings. Returns two lists of [key, value] (insertion order) or None (map not passed)."""
    seed = case.get('map_seed')
    rng = np.random.default_rng(seed if seed is not None else 0)

    def dress(items, extra_keys):
        items = [list(it) for it in items]
        if seed is None:
            return items
        for it in items:                    # a number may also be written as its string
            if isinstance(it[1], int) and rng.random() < 0.3:
                it[1] = str(it[1])
        for k in extra_keys:
            if rng.random() < 0.35:
                items.append([k, items[int(rng.integers(len(items)))][1] if rng.random() < 0.5 else 'nowhere'])
        return [items[int(k)] for k in rng.permutation(len(items))]
    om = None
    if case['map_mode'] == 'explicit' or (case['map_mode'] == 'identity' and not case.get('pass_identity_none')):
        om = dress([[o, case['obs_of'][o]] for o in case['outputs']], ['out7', 'not an output'])
    cov_names = [c for b in (case['pop'] or []) if b[2] for c in b[2]]
    cm = None
    if cov_names and case['cov_mode'] == 'explicit':
        cm = dress([[c, case['cov_obs'][c]] for c in cov_names], ['Weight'])
    return om, cm


def okey(x):
    """string form of an observable cell"""
    return None if x is None else str(x)


def wire_config(case):
    om, cm = user_maps(case)
    cov_names = [c for b in (case['pop'] or []) if b[2] for c in b[2]]
    return [case['outputs'], om, cov_names, cm, has_dose(case), case['dosing'] == 'full', case['pop'] is not None]


def make_model(case):
    return DoseToy(case['n_out'], case['n_mech'], case['toy_seed'],
                   dosing=case['dosing'] not in ('unsupported',))


def make_ems(chi, case, alias=False):
    """one error model per output; `alias`: outputs with the same kind of error model are given the SAME
    instance (`[error_model] * 2`), which the controller must treat like separate models"""
    if not alias:
        return [c04.classes(chi)[k][0]() for k in case['kinds']]
    inst = {}
    return [inst.setdefault(k, c04.classes(chi)[k][0]()) for k in case['kinds']]


def snapshot_args(model, ems):
    """what the caller can see of the objects it handed to the controller"""
    return {'error_model_names': [list(e.get_parameter_names()) for e in ems],
            'error_model_n': [int(e.n_parameters()) for e in ems],
            'outputs': list(model.outputs()), 'parameters': list(model.parameters()),
            'regimen': model.events() if hasattr(model, 'events') else None,
            'sensitivities': bool(model.has_sensitivities())}


def meddle(chi, model, ems, case):
    """a second controller built from the same caller objects, configured differently and used: nothing of
    it may reach the first controller"""
    try:
        c2 = chi.ProblemModellingController(model, [ems[-1]], outputs=[case['outputs'][-1]])
        names = c2.get_parameter_names()
        c2.fix_parameters({names[-1]: 0.5})
        c2.get_parameter_names()
    except Exception:  # noqa
        pass


def pre_case(case):
    """the dataset of the history step: the same individuals with another dosing mode (and possibly only part
    of the rows)"""
    h = case['history']
    pre = copy.deepcopy(case)
    pre['history'] = None
    pre['pre_set'] = False
    pre['dosing'] = h['dosing']
    if h['rows'] == 'half':
        pre['rows'] = pre['rows'][::-1][:max(1, len(pre['rows']) // 2)]
    return pre


def make_pop(chi, blocks):
    subs = []
    for kind, n_dim, cov in blocks:
        if kind == 'pooled':
            m = chi.PooledModel(n_dim=n_dim)
        elif kind == 'hetero':
            m = chi.HeterogeneousModel(n_dim=n_dim)
        elif kind == 'lognormal':
            m = chi.LogNormalModel(n_dim=n_dim)
        else:
            m = chi.GaussianModel(n_dim=n_dim)
        if cov:
            m = chi.CovariatePopulationModel(m, chi.LinearCovariateModel(n_cov=len(cov), cov_names=list(cov)))
        subs.append(m)
    return chi.ComposedPopulationModel(subs)


def make_prior(n, seed):
    rng = np.random.default_rng([seed, 5])
    return pints.ComposedLogPrior(*[pints.GaussianLogPrior(float(rng.uniform(0.5, 1.5)), float(rng.uniform(0.5, 2)))
                                    for _ in range(n)])


def set_data_kwargs(case):
    kw = dict(case['keys'] or {})
    keys = case['keys'] or DEFAULT_KEYS
    om, cm = user_maps(case)
    if om is not None:
        kw['output_observable_dict'] = {k: v for k, v in om}
    if cm is not None:
        kw['covariate_dict'] = {k: v for k, v in cm}
    if case['dosing'] in ('nokey', 'nocolumn'):
        kw['dose_key'] = None
        kw['dose_duration_key'] = None
    elif case['dosing'] == 'nodur':
        kw['dose_duration_key'] = None
    elif case['dosing'] == 'unsupported' and 'dose_key' not in kw:
        pass          # the frame has the columns, the model does not support dosing: keys are ignored
    del keys
    return kw


def build_controller(chi, case, frame=None):
    """drives the controller through its public API; returns (controller, None) or (None, (stage, exc))"""
    model = make_model(case)
    if case['user_regimen'] is not None:
        model.set_dosing_regimen(protocol_of(case['user_regimen']))
    ems = make_ems(chi, case, alias=bool(case.get('em_alias')))
    before = snapshot_args(model, ems)
    c = chi.ProblemModellingController(model, ems, outputs=case['outputs_arg'])
    c.verif_args = (model, ems, before)
    if case.get('second_controller'):
        meddle(chi, model, ems, case)
    frame = make_frame(case) if frame is None else frame
    try:
        if case['fixed_bottom'] is not None:
            names = c.get_parameter_names()
            c.fix_parameters({names[case['fixed_bottom'][0] % len(names)]: case['fixed_bottom'][1]})
        if case['pop'] is not None and case['order'] == 'A':
            c.set_population_model(make_pop(chi, case['pop']))
    except Exception as e:  # noqa
        return None, ('setup', e)
    if case.get('history'):
        # an earlier dataset (other dosing mode), possibly with a posterior built from it, must leave nothing behind
        pre = pre_case(case)
        try:
            c.set_data(make_frame(pre), **set_data_kwargs(pre))
            if case['history']['posterior']:
                c.set_log_prior(make_prior(c.get_n_parameters(), 1))
                c.get_log_posterior()
        except Exception:  # noqa
            pass
    if case.get('pre_set'):
        # an earlier set_data with other (possibly unusable) data must leave nothing behind
        try:
            c.set_data(frame.iloc[::-1].iloc[:max(1, len(frame) // 2)], **set_data_kwargs(case))
        except Exception:  # noqa
            pass
    try:
        c.set_data(frame, **set_data_kwargs(case))
    except Exception as e:  # noqa
        return None, ('set_data', e)
    if case.get('pop_history') and case['pop'] is not None:
        alt = []
        for kind, nd, cov in case['pop']:
            if case['pop_history'] == 'reversed' and cov:
                cov = list(cov)[::-1]
            elif case['pop_history'] == 'fewer' and cov:
                cov = list(cov)[1:] or None
            elif case['pop_history'] == 'plain':
                cov = None
            alt.append([kind if kind != 'hetero' else 'pooled', nd, cov])
        try:
            c.set_population_model(make_pop(chi, alt))
            c.set_log_prior(make_prior(c.get_n_parameters(), 2))
            c.get_log_posterior()
        except Exception:  # noqa
            pass
        try:
            c.set_population_model(make_pop(chi, case['pop']))
        except Exception as e:  # noqa
            return None, ('setup', e)
    try:
        if case['pop'] is not None and case['order'] == 'B':
            c.set_population_model(make_pop(chi, case['pop']))
        if case['fixed_top'] is not None and case['pop'] is not None:
            names = c.get_parameter_names()
            c.fix_parameters({names[case['fixed_top'][0] % len(names)]: case['fixed_top'][1]})
        c.set_log_prior(make_prior(c.get_n_parameters(), case['eval_seed']))
    except Exception as e:  # noqa
        return None, ('setup', e)
    if case.get('second_controller'):
        meddle(chi, model, ems, case)
    return c, None


# ----------------------------------------------------------------------------------------------
# the hand assembly, from the declarative reading of the frame (Lean `C14.spec`)
# ----------------------------------------------------------------------------------------------
def spec_of(ctx, case):
    cov_names = [c for b in (case['pop'] or []) if b[2] for c in b[2]]
    obs = [okey(case['obs_of'][o]) for o in case['outputs']]
    cobs = [okey(case['cov_obs'][c]) for c in cov_names]
    ids, per = ctx.model('C14.spec', has_dose(case), case['dosing'] == 'full', wire_rows(case), obs, cobs)
    out = []
    for i, (pairs, doses, covs) in zip(ids, per):
        out.append({'id': i, 'pairs': pairs, 'doses': sorted(doses, key=lambda e: e[1]), 'covs': covs})
    return out


def dataset_valid(case, spec):
    """does the frame describe a posterior at all?  (every mapped observable occurs in the frame, one
    covariate value per individual, no two doses of one individual at the same time)"""
    present = {okey(r[2]) for r in case['rows'] if r[2] is not None}
    if any(okey(b) not in present for b in case['obs_of'].values()):
        return False
    for s in spec:
        if any(len(v) != 1 for v in s['covs']):
            return False
        starts = [e[1] for e in s['doses']]
        if has_dose(case) and len(set(starts)) != len(starts):
            return False
    return True


def time_ordered(spec):
    return all(all(a[0] <= b[0] for a, b in zip(p[:-1], p[1:])) for s in spec for p in s['pairs'])


def hand_likelihood(chi, case, s, carried='user'):
    """chi.LogLikelihood of one individual, built directly from its rows and its own protocol; without dose
    information the protocol of the user's model (`carried` replaces it only to keep the other comparisons
    meaningful while finding C14-stale-regimen is open)"""
    model = make_model(case)
    if case['outputs_arg'] is not None:
        model.set_outputs(case['outputs_arg'])
    own = case['user_regimen'] if carried == 'user' else carried
    if has_dose(case):
        model.set_dosing_regimen(protocol_of(s['doses']))
    elif own is not None:
        model.set_dosing_regimen(protocol_of(own))
    pairs = [sorted(p, key=lambda q: q[0]) for p in s['pairs']]
    ll = chi.LogLikelihood(model, make_ems(chi, case), [[q[1] for q in p] for p in pairs],
                           [[q[0] for q in p] for p in pairs])
    ll.set_id(s['id'])
    if case['fixed_bottom'] is not None:
        names = ll.get_parameter_names()
        ll.fix_parameters({names[case['fixed_bottom'][0] % len(names)]: case['fixed_bottom'][1]})
    return ll


def hand_posterior(chi, case, spec, which=None, carried='user'):
    """`which` = index of the individual (no population model) or None (hierarchical)"""
    if case['pop'] is None:
        ll = hand_likelihood(chi, case, spec[which], carried)
        return chi.LogPosterior(ll, make_prior(ll.n_parameters(), case['eval_seed'])), ll
    lls = [hand_likelihood(chi, case, s, carried) for s in spec]
    pop = make_pop(chi, case['pop'])
    pop.set_dim_names(lls[0].get_parameter_names())
    pop.set_n_ids(len(lls))
    if case['fixed_top'] is not None:
        names = pop.get_parameter_names()
        pop = chi.ReducedPopulationModel(pop)
        pop.fix_parameters({names[case['fixed_top'][0] % len(names)]: case['fixed_top'][1]})
    cov_names = [c for b in case['pop'] if b[2] for c in b[2]]
    covs = np.array([[v[0] for v in s['covs']] for s in spec]) if cov_names else None
    hl = chi.HierarchicalLogLikelihood(lls, pop, covs)
    n_top = pop.n_parameters()
    return chi.HierarchicalLogPosterior(hl, make_prior(n_top, case['eval_seed'])), hl


def eval_points(post, seed, n=2):
    rng = np.random.default_rng([seed, 9])
    names = post.get_parameter_names()
    xs = []
    for _ in range(n):
        x = rng.uniform(0.6, 1.4, len(names))
        for k, nm in enumerate(names):
            if ' Age' in nm or ' Sex' in nm:        # covariate effects: small
                x[k] = rng.uniform(-0.2, 0.2)
        xs.append(x)
    return xs


def safe_eval(f, x):
    try:
        with np.errstate(all='ignore'):
            return float(f(x))
    except Exception as e:  # noqa
        return core.errkind(e)


# ----------------------------------------------------------------------------------------------
# one case
# ----------------------------------------------------------------------------------------------
def summary(case):
    return {k: case[k] for k in ('layout', 'id_type', 'n_out', 'kinds', 'pop', 'dosing', 'order', 'map_mode',
                                 'fixed_bottom', 'fixed_top')} | {'n_rows': len(case['rows'])}


def run_case(ctx, chi, case, label='gen'):
    inp = case
    spec = spec_of(ctx, case)
    n_ids = len(spec)
    valid = dataset_valid(case, spec)
    ordered = time_ordered(spec)
    mapped_keys = {okey(b) for b in case['obs_of'].values()}
    has_missing = any(r[3] is None or r[1] is None for r in case['rows'] if okey(r[2]) in mapped_keys)
    nontriv = n_ids >= 2 and (case['layout'] in ('interleaved', 'shuffled', 'timesorted') or has_dose(case)
                              or bool(case['cov_obs']) or has_missing)
    ckey = '%s/%s/%d/%d/%s/%s/%s/%s' % (
        case['layout'], case['id_type'], n_ids, case['n_out'],
        '-'.join('%s%d%s' % (b[0][0], b[1], 'c' if b[2] else '') for b in (case['pop'] or [])) or 'nopop',
        case['dosing'], bool(case['fixed_bottom']) + 2 * bool(case['fixed_top']), case['order'])
    ctx.case('%s/%s' % (case['layout'], 'pop' if case['pop'] else 'ind'), nontrivial=ckey if nontriv else False,
             sample=summary(case))
    cfg = wire_config(case)
    rows = wire_rows(case)
    if cfg[1] is None:
        seen = list(dict.fromkeys(okey(r[2]) for r in case['rows'] if r[2] is not None))
        ctx.branches.add('output map not passed: %s, %s' % (
            'one output' if case['n_out'] == 1 else 'several outputs',
            'one observable' if len(seen) == 1 else
            ('several observables, %s first' % ('a mapped one' if seen[0] in mapped_keys else 'an unrelated one'))))
    shared = case['user_regimen']
    h = case.get('history')
    if h and h['posterior']:
        pre = pre_case(case)
        mo_pre = ctx.model('C14.run', wire_config(pre), wire_rows(pre), None, shared, MUTATES[0])
        if mo_pre[0] == 'ok':
            shared = mo_pre[4]
        # the property: the posterior of the current dataset does not depend on what was done before
        if not has_dose(case):
            ctx.spec('C14.stale_regimen_after_set_data', core.close(shared, case['user_regimen']) if
                     (shared is not None and case['user_regimen'] is not None) else shared == case['user_regimen'],
                     inp, {'protocol_left_on_the_model_by_the_earlier_posterior': shared,
                           'protocol_of_the_users_model': case['user_regimen']})

    c, err = build_controller(chi, case)
    if err is not None and err[0] == 'setup':
        # not the controller's routing (population-model plumbing): recorded, not compared
        ctx.notes.append('setup raised %s' % core.errkind(err[1])) if len(ctx.notes) < 5 else None
        return
    if err is not None:
        kind = core.errkind(err[1])
        ctx.errkinds.add(kind)
        mo = ctx.model('C14.run', cfg, rows, None, shared, MUTATES[0])
        ctx.agree('C14.set_data', [kind, 'set_data'], mo[:2], inp)
        ctx.spec('C14.set_data_accepts_valid_frame', not valid, inp, {'raised': repr(err[1])[:200]})
        return
    # ---- dosing regimens as the controller reports them
    regs = c.get_dosing_regimens()
    chi_regs = None if regs is None else [[str(k), events_of(v)] for k, v in regs.items()]

    selectors = [None] if case['pop'] is not None else [None] + [s['id'] for s in spec]
    for sel in selectors:
        which = None if case['pop'] is not None else (0 if sel is None else [s['id'] for s in spec].index(sel))
        mo = ctx.model('C14.run', cfg, rows, sel, shared, MUTATES[0])
        if mo[0] == 'ok':
            shared_after = mo[4]
        try:
            post = c.get_log_posterior() if sel is None else c.get_log_posterior(individual=sel)
            outcome = 'ok'
        except Exception as e:  # noqa
            outcome = core.errkind(e)
            ctx.errkinds.add(outcome)
        ctx.agree('C14.get_log_posterior', outcome, mo[0], inp)
        ctx.branches.add('build:' + outcome)
        if len(mo) >= 4 and mo[0] != 'ok':
            ctx.agree('C14.regimens', chi_regs, mo[3], inp)
        # ---- the property: a frame that describes a posterior yields it
        if outcome != 'ok':
            relevant = spec if which is None else [spec[which]]
            if outcome == 'err:typeError' and case['pop'] is not None and n_ids == 1:
                tag = 'C14.population_single_individual'
            elif outcome == 'err:valueError' and not time_ordered(relevant):
                tag = 'C14.rows_not_time_ordered'
            else:
                tag = 'C14.builds'
            ctx.spec(tag, False, inp, {'raised': outcome, 'selector': sel})
            continue
        ctx.spec('C14.builds', True, inp)
        if mo[0] != 'ok':
            continue
        ctx.agree('C14.ids', [str(k) for k, _ in (chi_regs or [])] if chi_regs is not None else None,
                  [k for k, _ in mo[2]] if mo[2] is not None else None, inp)
        ctx.agree('C14.regimens', chi_regs, mo[2], inp)
        check_posterior(ctx, chi, case, c, post, mo, spec, which, sel, carried=shared)
        shared = shared_after
    if case['pop'] is None:
        check_selectors(ctx, chi, case, c, spec)
    check_predictive(ctx, chi, case, c)
    check_arguments(ctx, case, c)


def check_arguments(ctx, case, c):
    """the models handed to the controller are the caller's: whatever the controller (or a second controller
    built from the same objects) does, they look the same afterwards"""
    model, ems, before = c.verif_args
    after = snapshot_args(model, ems)
    ctx.spec('C14.arguments_untouched', after == before, summary(case) | {'case': case},
             {'before': before, 'after': after})


def indiv_struct(ind):
    """model individual → (id, [n_obs per output], union grid, regimen)"""
    grid = sorted({t for o in ind[1] for t in o[0]})
    return ind[0], [len(o[0]) for o in ind[1]], grid, ind[2]


def check_posterior(ctx, chi, case, c, post, mo, spec, which, sel, carried='user'):
    inp = case
    kind, *rest = mo[3]
    xs = eval_points(post, case['eval_seed'])
    # ---------------- correspondence with the step-by-step model (structure the public API shows)
    if kind == 'single':
        minds = [rest[0]]
        ctx.agree('C14.kind', type(post).__name__, 'LogPosterior', inp)
        ctx.agree('C14.id', post.get_id(), rest[0][0], inp)
        ctx.agree('C14.n_observations', [int(v) for v in post.get_log_likelihood().n_observations()],
                  indiv_struct(rest[0])[1], inp)
    else:
        minds = rest[0]
        ctx.agree('C14.kind', type(post).__name__, 'HierarchicalLogPosterior', inp)
        ctx.agree('C14.id', post.get_log_likelihood().get_id(unique=True), [m[0] for m in minds], inp)
        ctx.agree('C14.n_observations', [int(v) for v in post.get_log_likelihood().n_observations()],
                  [sum(indiv_struct(m)[1]) for m in minds], inp)
    del SIM_LOG[:]
    v0 = safe_eval(post, xs[0])
    log = [(ev, ts) for ev, ts in SIM_LOG]
    if not isinstance(v0, str) and len(log) == len(minds):
        ctx.agree('C14.simulated_times', [ts for _, ts in log], [indiv_struct(m)[2] for m in minds], inp)
        ctx.agree('C14.regimen_carried', [ev for ev, _ in log], [indiv_struct(m)[3] for m in minds], inp)
    # ---------------- the property: equal to the posterior assembled by hand from the frame
    sp = spec if which is None else [spec[which]]
    try:
        hand, hl = hand_posterior(chi, case, spec, which, carried)
    except Exception as e:  # noqa
        ctx.notes.append('hand assembly failed: %r' % (e,)) if len(ctx.notes) < 5 else None
        return
    if kind == 'hier':
        ctx.spec('C14.order_of_individuals', post.get_log_likelihood().get_id(unique=True) == [s['id'] for s in sp],
                 inp, {'chi': post.get_log_likelihood().get_id(unique=True), 'spec': [s['id'] for s in sp]})
        names_c = post.get_parameter_names(include_ids=True)
        names_h = hand.get_parameter_names(include_ids=True)
    else:
        ctx.spec('C14.selected_individual', post.get_id() == sp[0]['id'], inp,
                 {'chi': post.get_id(), 'spec': sp[0]['id'], 'selector': sel})
        names_c = post.get_parameter_names()
        names_h = hand.get_parameter_names()
    ctx.spec('C14.parameter_names', list(names_c) == list(names_h), inp, {'chi': names_c, 'hand': names_h})
    top = c.get_parameter_names()
    ctx.spec('C14.controller_names', list(top) == list(names_h[len(names_h) - len(top):]) and
             c.get_n_parameters() == len(top), inp, {'controller': top, 'hand': names_h})
    ctx.spec('C14.n_parameters', post.n_parameters() == hand.n_parameters(), inp)
    # each output is fed with the measurements of ITS observable (explicit map / same name / the only one), i.e. as
    # many as the declarative reading of the frame (Lean `C14.spec`) finds for that individual and observable
    n_chi = [int(v) for v in post.get_log_likelihood().n_observations()]
    n_spec = [len(p) for p in sp[0]['pairs']] if kind == 'single' else [sum(len(p) for p in s['pairs']) for s in sp]
    ctx.spec('C14.n_observations_of_output', n_chi == n_spec, inp,
             {'controller': n_chi, 'frame': n_spec, 'output_map_passed': user_maps(case)[0] is not None,
              'observables_in_frame_order': list(dict.fromkeys(okey(r[2]) for r in case['rows'] if r[2] is not None)),
              'selector': sel})
    if post.n_parameters() != hand.n_parameters():
        return
    for x in xs:
        del SIM_LOG[:]
        vc = safe_eval(post, x)
        log_c = list(SIM_LOG)
        del SIM_LOG[:]
        vh = safe_eval(hand, x)
        log_h = list(SIM_LOG)
        ctx.spec('C14.posterior_value', core.close(vc, vh), inp, {'controller': vc, 'hand': vh, 'x': x, 'selector': sel})
        if not isinstance(vc, str) and not isinstance(vh, str) and len(log_c) == len(log_h):
            ctx.spec('C14.regimen_of_individual', [e for e, _ in log_c] == [e for e, _ in log_h], inp,
                     {'controller': [e for e, _ in log_c], 'hand': [e for e, _ in log_h], 'selector': sel})
            ctx.spec('C14.times_of_individual', [t for _, t in log_c] == [t for _, t in log_h], inp,
                     {'controller': [t for _, t in log_c], 'hand': [t for _, t in log_h]})
    if kind == 'single':
        with np.errstate(all='ignore'):
            try:
                pc = np.asarray(post.get_log_likelihood().compute_pointwise_ll(xs[0]), float)
                ph = np.asarray(hl.compute_pointwise_ll(xs[0]), float)
                # measurements that share a time may come in either order (the property does not fix it)
                ctx.spec('C14.pointwise', len(pc) == len(ph) and core.close(np.sort(pc), np.sort(ph)), inp,
                         {'controller': pc, 'hand': ph})
            except Exception as e:  # noqa
                ctx.spec('C14.pointwise', False, inp, {'raised': repr(e)[:200]})
    # ---------------- dosing regimens reported by the controller
    regs = c.get_dosing_regimens()
    if has_dose(case):
        ok = regs is not None and [str(k) for k in regs] == [s['id'] for s in spec] and all(
            core.close(events_of(regs[k]), s['doses']) for k, s in zip(regs, spec))
        ctx.spec('C14.get_dosing_regimens', ok, inp,
                 {'chi': None if regs is None else {str(k): events_of(v) for k, v in regs.items()},
                  'spec': {s['id']: s['doses'] for s in spec}})
    else:
        ctx.spec('C14.get_dosing_regimens', regs is None, inp)


def selector_forms(rid):
    """the values a caller may pass for an ID cell: the Python scalar and its numpy twins"""
    kind, v = rid
    if kind == 'int':
        return [('int', int(v)), ('np.int64', np.int64(v)), ('np.int32', np.int32(v))]
    if kind == 'flt':
        return [('float', float(v)), ('np.float64', np.float64(v))]
    return [('str', str(v)), ('np.str_', np.str_(v))]


def check_selectors(ctx, chi, case, c, spec):
    """an individual can be selected by the value its ID has in the frame (614a431), whatever that value is —
    including 0 / 0.0 — and in whatever scalar type the caller holds it"""
    cells = []
    for r in case['rows']:
        if r[0] not in cells:
            cells.append(r[0])
    # boundary values first (0, 0.0, '0'), then the others; at most four cells per case
    cells = sorted(cells, key=lambda rid: 0 if str(rid[1]) in ('0', '-0') else 1)[:4]
    first_key = spec[0]['id']
    for rid in cells:
        wire_id = wire_rows({'rows': [[rid, None, None, None, None, None, []]]})[0][0]
        mo_l = ctx.model('C14.run', wire_config(case), wire_rows(case), wire_id, None)
        key = ctx.model('C14.key', wire_id)[0]
        try:
            by_key = c.get_log_posterior(individual=key)
        except Exception:  # noqa
            continue          # this individual cannot be built at all (judged elsewhere); not a selector matter
        x = eval_points(by_key, case['eval_seed'], 1)[0]
        v_key = safe_eval(by_key, x)
        want_model = mo_l[0] if mo_l[0] != 'ok' else mo_l[3][1][0]
        for form, cell in selector_forms(rid):
            inp = {'case': case, 'selector': rid, 'selector_type': form}
            try:
                post = c.get_log_posterior(individual=cell)
                got = post.get_id()
                v = safe_eval(post, x)
            except Exception as e:  # noqa
                got, v = core.errkind(e), None
            if form in ('int', 'float', 'str') and \
                    not (got != want_model and got.startswith('err') and mo_l[0].startswith('err')):
                ctx.agree('C14.selector', got, want_model, inp)
            ctx.spec('C14.select_by_original_id', got == key and core.close(v, v_key), inp,
                     {'selector': repr(cell), 'got': got, 'wanted': key, 'value': v, 'value_by_key': v_key,
                      'first_individual': first_key})


def check_predictive(ctx, chi, case, c):
    try:
        pm = c.get_predictive_model()
        ok = list(pm.get_parameter_names()) == list(c.get_parameter_names()) and \
            pm.n_parameters() == c.get_n_parameters()
        want = 'PopulationPredictiveModel' if case['pop'] is not None else 'PredictiveModel'
        ok = ok and type(pm).__name__ == want
        detail = {'names': pm.get_parameter_names(), 'controller': c.get_parameter_names()}
    except Exception as e:  # noqa
        ok, detail = False, {'raised': repr(e)[:200]}
    ctx.spec('C14.predictive_model', ok, summary(case), detail)


# ----------------------------------------------------------------------------------------------
# invariance: unrelated rows / columns / observables, missing values, ID data types
# ----------------------------------------------------------------------------------------------
def by_label(post, x):
    """parameter vector → {(id, name): value}"""
    if hasattr(post, 'n_ids'):
        return dict(zip(post.get_parameter_names(include_ids=True), x))
    return dict(zip(post.get_parameter_names(), x))


def aligned_value(post_b, labels):
    names = post_b.get_parameter_names(include_ids=True) if hasattr(post_b, 'n_ids') else post_b.get_parameter_names()
    try:
        x = np.array([labels[n] for n in names])
    except KeyError:
        return 'names-differ'
    return safe_eval(post_b, x)


def posterior_values(chi, case, rename=None):
    """{id or 'pop': (posterior, value at the case's evaluation point)} through the controller"""
    c, err = build_controller(chi, case)
    if err is not None:
        return None, core.errkind(err[1])
    out = {}
    try:
        if case['pop'] is not None:
            out['pop'] = c.get_log_posterior()
        else:
            regs_ids = None
            # every individual, selected by its string key
            keys = []
            for r in case['rows']:
                k = raw_key(r[0])
                if k not in keys:
                    keys.append(k)
            for k in keys:
                out[k] = c.get_log_posterior(individual=k)
            del regs_ids
    except Exception as e:  # noqa
        return None, core.errkind(e)
    return out, None


def transform(rng, case, kind):
    """a frame that describes the same posterior"""
    t = copy.deepcopy(case)
    rows = t['rows']
    ids_present = []
    for r in rows:
        if r[0] not in ids_present:
            ids_present.append(r[0])
    nf = len(t['foreign'])
    if kind == 'unrelated_rows':
        for _ in range(int(rng.integers(1, 6))):
            rid = ids_present[int(rng.integers(len(ids_present)))]
            mode = int(rng.integers(4))
            mapped = list(t['obs_of'].values())
            if mode == 0:      # another observable (the automatic single-observable map is then no longer defined)
                if t['map_mode'] == 'auto':
                    t['map_mode'] = 'explicit'
                new = [rid, float(rng.choice(POOL)), 'something else', float(rng.uniform(1, 9)), None, None]
            elif mode == 1:    # mapped observable, missing value
                new = [rid, float(rng.choice(POOL)), mapped[int(rng.integers(len(mapped)))], None, None, None]
            elif mode == 2:    # mapped observable, missing time
                new = [rid, None, mapped[int(rng.integers(len(mapped)))], float(rng.uniform(1, 9)), None, None]
            else:              # nothing but an ID
                new = [rid, None, None, None, None, None]
            new.append([str(int(rng.integers(100))) for _ in range(nf)])
            # anywhere after the first row of that ID (the order of first appearance is part of the data); for the
            # individual that appears first: anywhere, also as the very first row of the frame
            first = next(k for k, r in enumerate(rows) if r[0] == rid)
            lo = 0 if rid == ids_present[0] else first + 1
            rows.insert(0 if (lo == 0 and rng.random() < 0.3) else int(rng.integers(lo, len(rows) + 1)), new)
    elif kind == 'foreign_columns':
        t['foreign'] = t['foreign'] + ['Extra %d' % k for k in range(int(rng.integers(1, 3)))]
        for r in rows:
            r[6] = r[6] + ['z'] * (len(t['foreign']) - nf)
        t['col_seed'] = int(rng.integers(1 << 30))
    elif kind == 'id_dtype':
        # int <-> str of the same digits: identical string keys
        ok = all(r[0][0] == 'int' or (r[0][0] == 'str' and r[0][1].lstrip('-').isdigit() and
                                      str(int(r[0][1])) == r[0][1]) for r in rows)
        if not ok:
            return None
        to_str = rng.random() < 0.5
        for r in rows:
            n = int(r[0][1])
            r[0] = ['str', str(n)] if to_str else ['int', n]
    elif kind == 'id_relabel':
        # int -> float: the keys change ('3' -> '3.0') but the grouping does not
        if not all(r[0][0] == 'int' for r in rows):
            return None
        for r in rows:
            r[0] = ['flt', int(r[0][1])]
    elif kind == 'shuffle_rows':
        # any order of the rows that keeps the order in which the individuals first appear
        def appearance(rs):
            seen = []
            for r in rs:
                if r[0] not in seen:
                    seen.append(r[0])
            return seen
        new_rows = None
        for _ in range(30):
            cand = [rows[int(k)] for k in rng.permutation(len(rows))]
            if appearance(cand) == ids_present:
                new_rows = cand
                break
        if new_rows is None:
            first = [next(k for k, r in enumerate(rows) if r[0] == i) for i in ids_present]
            rest = [k for k in range(len(rows)) if k not in first]
            new_rows = [rows[k] for k in first] + [rows[int(k)] for k in rng.permutation(rest)]
        t['rows'] = new_rows
        t['layout'] = 'shuffled'
    elif kind in ('numeric_as_string', 'column_dtypes'):
        t['frame_mode'] = kind
    elif kind == 'set_data_twice':
        t['pre_set'] = True
    elif kind == 'map_order':
        # the same maps written in another order / with other extra entries / numbers as strings
        if user_maps(t) == (None, None):
            return None
        t['map_seed'] = int(rng.integers(1 << 30))
    elif kind == 'renamed_keys':
        t['keys'] = None if t['keys'] else {'id_key': '#', 'time_key': 'TIME', 'obs_key': 'OBS', 'value_key': 'VAL',
                                            'dose_key': 'AMT', 'dose_duration_key': 'DUR'}
    return t


def check_invariance(ctx, chi, case, rng):
    if MUTATES[0] and case.get('history') and case['history']['posterior'] and not has_dose(case):
        # finding C14-stale-regimen: the result would depend on which individual the earlier posterior was built
        # for; the invariances are judged without that history step while the finding is open
        case = copy.deepcopy(case)
        case['history']['posterior'] = False
    base, err = posterior_values(chi, case)
    if base is None:
        return
    for kind in ('unrelated_rows', 'foreign_columns', 'id_dtype', 'id_relabel', 'renamed_keys', 'shuffle_rows',
                 'numeric_as_string', 'column_dtypes', 'set_data_twice', 'map_order'):
        t = transform(rng, case, kind)
        if t is None:
            continue
        other, err = posterior_values(chi, t)
        inp = {'case': case, 'transformed_rows': t['rows'], 'kind': kind}
        if other is None:
            ctx.spec('C14.invariance/' + kind, False, inp, {'raised': err})
            continue
        ok = True
        detail = {}
        relabel = (lambda k: k + '.0') if kind == 'id_relabel' else (lambda k: k)
        for k, post in base.items():
            kb = k if k == 'pop' else relabel(k)
            if kb not in other:
                ok = False
                detail = {'missing': kb}
                break
            x = eval_points(post, case['eval_seed'], 1)[0]
            va = safe_eval(post, x)
            labels = by_label(post, x)
            if kind == 'id_relabel' and k == 'pop':
                labels = {relabel_name(n): v for n, v in labels.items()}
            vb = aligned_value(other[kb], labels)
            if not core.close(va, vb):
                ok = False
                detail = {'individual': k, 'before': va, 'after': vb}
                break
        ctx.spec('C14.invariance/' + kind, ok, inp, detail)


def relabel_name(n):
    """'3 psi0' -> '3.0 psi0' for bottom-level names that start with an integer ID"""
    head, _, tail = n.partition(' ')
    if head.lstrip('-').isdigit() and tail:
        return head + '.0 ' + tail
    return n


# ----------------------------------------------------------------------------------------------
# corpus: witnesses of the counterexample theorems and of the recorded findings; malformed frames
# ----------------------------------------------------------------------------------------------
def base_case(**kw):
    case = {'rows': [], 'foreign': [], 'keys': None, 'col_seed': 1, 'layout': 'blocks', 'id_type': 'int',
            'n_out': 1, 'n_mech': 2, 'kinds': ['G'], 'toy_seed': 3, 'outputs_arg': None, 'outputs': ['out0'],
            'map_mode': 'explicit', 'obs_of': {'out0': 'conc'}, 'pop': None, 'cov_obs': {}, 'cov_mode': 'identity',
            'dosing': 'full', 'user_regimen': None, 'fixed_bottom': None, 'fixed_top': None, 'order': 'A',
            'eval_seed': 7, 'model': 'toy'}
    case.update(kw)
    if case['pop'] and not case['cov_obs']:
        case['cov_obs'] = {c: c for b in case['pop'] if b[2] for c in b[2]}
    return case


def R(i, t, ob, v, dose=None, dur=None):
    return [['int', i] if isinstance(i, int) else i, t, ob, v, dose, dur, []]


def corpus(ctx, chi):
    # C14_unsorted_counterexample: two rows of one individual, later time first  (#25)
    run_case(ctx, chi, base_case(rows=[R(1, 2.0, 'conc', 1.0), R(1, 1.0, 'conc', 2.0), R(2, 0.5, 'conc', 1.5)],
                                 layout='shuffled'), 'witness-25')
    # C14_single_individual_counterexample: population model, one individual  (#26)
    run_case(ctx, chi, base_case(rows=[R(1, 1.0, 'conc', 1.0), R(1, 2.0, 'conc', 2.0)],
                                 pop=[['pooled', 2, None], ['lognormal', 1, None]]), 'witness-26')
    # C14_selector_counterexample: integer IDs, selected by the integer  (#18)
    run_case(ctx, chi, base_case(rows=[R(1, 1.0, 'conc', 1.0), R(2, 2.0, 'conc', 2.0)]), 'witness-18')
    # interleaved doses / covariates / missing values, hierarchical with covariates
    rows = [R(7, 0.5, 'conc', 1.0), R(3, 0.25, 'conc', 2.0), R(7, 0.0, None, None, 2.0, None),
            R(3, None, 'Age', 0.4), R(7, 1.5, 'conc', None), R(7, None, 'Age', 1.3), R(3, 1.0, None, None, 1.0, 0.5),
            R(3, 1.0, 'conc', 1.2), R(7, 2.5, 'conc', 0.7), R(3, 0.5, 'other', 9.0)]
    run_case(ctx, chi, base_case(rows=rows, layout='interleaved',
                                 pop=[['lognormal', 1, ['Age']], ['pooled', 2, None]]), 'corpus')
    # an individual whose only rows are doses: empty likelihood, own regimen, still an individual
    rows = [R(1, 1.0, 'conc', 1.0), R(2, 0.0, None, None, 1.0, 0.5), R(1, 0.5, None, None, 2.0, None)]
    run_case(ctx, chi, base_case(rows=rows, pop=[['pooled', 1, None], ['gaussian', 2, None]]), 'corpus')
    # no output map passed: outputs are matched by name, unrelated observables (first in the frame) are ignored
    rows = [R(1, 0.0, 'CRP', 11.0), R(1, 2.0, 'CRP', 14.5), R(1, 0.5, 'out0', 4.1), R(1, 1.0, 'out0', 3.2),
            R(1, 2.0, 'out0', 2.0), R(2, 0.0, 'CRP', 7.2), R(2, 1.0, 'out0', 2.9), R(2, 3.0, 'out0', 1.1),
            R(2, None, 'Age', 0.7), R(1, None, 'Age', 1.1)]
    run_case(ctx, chi, base_case(rows=rows, map_mode='identity', obs_of={'out0': 'out0'}, pass_identity_none=True,
                                 dosing='nocolumn'), 'corpus')
    run_case(ctx, chi, base_case(rows=rows, map_mode='identity', obs_of={'out0': 'out0'}, pass_identity_none=True,
                                 dosing='nocolumn', pop=[['lognormal', 1, ['Age']], ['pooled', 2, None]]), 'corpus')
    rows2 = [R(3, 1.0, 'CRP', 5.0), R(3, 1.0, 'out1', 1.0), R(3, 0.5, 'out0', 2.0), R(4, 0.5, 'out1', 1.5),
             R(4, 0.25, 'CRP', 6.0), R(4, 2.0, 'out0', 0.5), R(3, 0.0, 'dose event', None, 2.0, 0.5)]
    run_case(ctx, chi, base_case(rows=rows2, n_out=2, kinds=['G', 'M'], outputs=['out0', 'out1'], map_mode='identity',
                                 obs_of={'out0': 'out0', 'out1': 'out1'}, pass_identity_none=True,
                                 layout='interleaved'), 'corpus')
    # ... and the documented convenience: one output, ONE observable (any name, missing cells aside)
    rows3 = [R(1, 0.5, 'Plasma conc', 4.1), R(1, 0.0, None, None, 1.0, None), R(2, 1.0, 'Plasma conc', 2.9),
             R(1, 1.0, 'Plasma conc', 3.2)]
    run_case(ctx, chi, base_case(rows=rows3, map_mode='auto', obs_of={'out0': 'Plasma conc'}, layout='interleaved'),
             'corpus')
    # malformed frames: agreement on the rejection only
    bad = [
        base_case(rows=[R(1, 1.0, 'conc', 1.0), R(1, 0.0, None, None, 1.0, 0.5), R(1, 0.0, None, None, 2.0, 1.0)]),
        base_case(rows=[R(1, 1.0, 'conc', 1.0)], obs_of={'out0': 'missing observable'}),
        base_case(rows=[R(1, 1.0, 'conc', 1.0), R(2, 1.0, 'conc', 1.0), R(1, None, 'Age', 1.0)],
                  pop=[['lognormal', 1, ['Age']], ['pooled', 2, None]], cov_obs={'Age': 'Age'}),
        base_case(rows=[R(1, 1.0, 'conc', 1.0), R(2, 1.0, 'conc', 1.0), R(1, None, 'Age', 1.0), R(2, 0.5, 'Age', 1.0),
                        R(2, 1.5, 'Age', 2.0)],
                  pop=[['lognormal', 1, ['Age']], ['pooled', 2, None]], cov_obs={'Age': 'Age'}),
    ]
    for b in bad:
        run_case(ctx, chi, b, 'malformed')


def detect_shared_mutation(ctx, chi):
    """finding C14-stale-regimen: does a posterior built from a dosed dataset leave its regimen on the controller's
    mechanistic model?  (the Lean model carries both variants: getLogPosterior / getLogPosteriorPure)"""
    rows = [R(1, 1.0, 'conc', 1.0), R(1, 0.0, None, None, 2.0, 0.5), R(2, 1.0, 'conc', 1.5), R(2, 0.0, None, None, 4.0, None)]
    case = base_case(rows=rows)
    c, err = build_controller(chi, case)
    try:
        c.get_log_posterior('2')
        case2 = base_case(rows=rows, dosing='nokey')
        c.set_data(make_frame(case2), **set_data_kwargs(case2))
        c.set_log_prior(make_prior(c.get_n_parameters(), 1))
        post = c.get_log_posterior('1')
        del SIM_LOG[:]
        post(np.array([1.0, 1.1, 0.9]))
        MUTATES[0] = SIM_LOG[-1][0] is not None
    except Exception:  # noqa
        MUTATES[0] = True
    ctx.extra['variant_of_chi'] = {'regimen_left_on_the_controllers_model(C14-stale-regimen)': MUTATES[0]}


def observable_dtype(ctx, chi):
    """numeric observable names: the maps are validated against the raw column values, the masks run on the
    stringified column — explicit map, automatic single-observable map, covariate map"""
    def n_obs(df, pop=False, **kw):
        m = DoseToy(1, 2, 0, dosing=False)
        c = chi.ProblemModellingController(m, [chi.GaussianErrorModel()])
        if pop:
            c.set_population_model(chi.ComposedPopulationModel([
                chi.CovariatePopulationModel(chi.LogNormalModel(n_dim=1),
                                             chi.LinearCovariateModel(cov_names=['Age'])),
                chi.PooledModel(n_dim=2)]))
        c.set_data(df, **kw)
        c.set_log_prior(make_prior(c.get_n_parameters(), 0))
        post = c.get_log_posterior() if pop else c.get_log_posterior('1')
        return [int(v) for v in post.get_log_likelihood().n_observations()]
    df = pd.DataFrame({'ID': [1, 1, 2, 2], 'Time': [1.0, 2.0, 1.0, 2.0], 'Observable': [7, 7, 7, 8],
                       'Value': [1.0, 2.0, 3.0, 4.0]})
    dfc = pd.DataFrame({'ID': [1, 1, 2, 2, 1, 2], 'Time': [1.0, 2.0, 1.0, 2.0, np.nan, np.nan],
                        'Observable': [7, 7, 7, 7, 3, 3], 'Value': [1.0, 2.0, 3.0, 4.0, 0.5, 0.7]})
    probes = [
        ('explicit map', df, False, {'output_observable_dict': {'out0': 7}}, [2]),
        ('automatic map', df[df.Observable == 7], False, {}, [2]),
        ('covariate map', dfc, True, {'output_observable_dict': {'out0': 7}, 'covariate_dict': {'Age': 3}}, [2, 2]),
    ]
    dfn = pd.DataFrame({'ID': [1, 1, 2, 2, 1], 'Time': [1.0, 2.0, 1.0, 2.0, 0.0],
                        'Observable': pd.Series([7, 7, 7, 8, np.nan], dtype=object).astype('category'),
                        'Value': [1.0, 2.0, 3.0, 4.0, np.nan]})
    try:
        n = n_obs(dfn, False, output_observable_dict={'out0': 7})
        ctx.spec('C14.observable_dtype/categorical_with_missing', n == [2],
                 {'probe': 'categorical numeric observable column with a missing cell', 'observable_column': [7, 7, 7, 8, None],
                  'maps': {'output_observable_dict': {'out0': 7}}}, {'n_observations': n, 'expected': [2]})
    except Exception as e:  # noqa
        ctx.spec('C14.observable_dtype/categorical_with_missing', False,
                 {'probe': 'categorical numeric observable column with a missing cell'}, {'raised': repr(e)[:200]})
    for name, frame, pop, kw, want in probes:
        inp = {'probe': name, 'observable_column': [int(v) for v in frame['Observable']],
               'maps': {k: {a: int(b) for a, b in v.items()} for k, v in kw.items()}}
        try:
            n = n_obs(frame, pop, **kw)
            ctx.spec('C14.observable_dtype', n == want, inp, {'n_observations': n, 'expected': want})
        except Exception as e:  # noqa
            ctx.spec('C14.observable_dtype', False, inp, {'raised': repr(e)[:200], 'expected': want})


# ----------------------------------------------------------------------------------------------
# PKPD library model on the reference integrator
# ----------------------------------------------------------------------------------------------
def pkpd_cases(ctx, chi, n):
    import refsim
    import chi.library
    refsim.install()
    lib = chi.library.ModelLibrary()

    def fresh(direct=True):
        m = lib.one_compartment_pk_model()
        m.set_administration('central', direct=direct)
        return m
    for k in range(n):
        rng = ctx.sub_rng(900000 + k)
        case = gen_case(rng, layout=['interleaved', 'blocks', 'timesorted'][k % 3],
                        force={'n_out': 1, 'dosing': 'full' if k % 4 else 'nodur', 'n_ids': int(rng.integers(2, 4)),
                               'pop': bool(k % 2)})
        case['model'] = 'pkpd'
        direct = bool(rng.integers(2))
        n_mech = 3 if direct else 5
        case['kinds'] = ['G']
        case['n_mech'] = n_mech
        case['outputs'] = ['central.drug_concentration']
        case['obs_of'] = {'central.drug_concentration': list(case['obs_of'].values())[0]}
        case['map_mode'] = 'explicit'
        case['fixed_bottom'] = None
        case['fixed_top'] = None
        if case['pop'] is not None:
            case['pop'] = [['pooled', n_mech, None], ['lognormal', 1, None]]
            drop = list(case['cov_obs'].values())
            case['cov_obs'] = {}
            case['rows'] = [r for r in case['rows'] if r[2] not in drop]
        spec = spec_of(ctx, case)
        if not dataset_valid(case, spec) or not time_ordered(spec) or (case['pop'] and len(spec) < 2):
            continue
        # no overlapping infusions (myokit's pacing system rejects them at run time); individuals without any
        # measurement are kept (3790485: their likelihood is the empty sum)
        bad = False
        for s in spec:
            ev = s['doses']
            if any(a[1] + a[2] > b[1] for a, b in zip(ev[:-1], ev[1:])):
                bad = True
        if bad:
            continue
        ctx.case('pkpd/%s' % ('pop' if case['pop'] else 'ind'), nontrivial='pkpd/%d/%s/%s' % (k, direct, case['layout']),
                 sample=summary(case))
        inp = {'case': case, 'direct': direct}
        c = chi.ProblemModellingController(fresh(direct), [chi.GaussianErrorModel()])
        try:
            if case['pop'] is not None:
                c.set_population_model(make_pop(chi, case['pop']))
            c.set_data(make_frame(case), **set_data_kwargs(case))
            c.set_log_prior(make_prior(c.get_n_parameters(), case['eval_seed']))
            post = c.get_log_posterior()
        except Exception as e:  # noqa
            ctx.spec('C14.builds/pkpd', False, inp, {'raised': repr(e)[:200]})
            continue
        mo = ctx.model('C14.run', wire_config(case), wire_rows(case), None, None)
        ctx.agree('C14.get_log_posterior', 'ok', mo[0], inp)
        regs = c.get_dosing_regimens()
        ctx.agree('C14.regimens', [[str(a), events_of(b)] for a, b in regs.items()], mo[2], inp)
        # hand assembly
        lls = []
        for s in (spec if case['pop'] is not None else spec[:1]):
            m = fresh(direct)
            m.set_dosing_regimen(protocol_of(s['doses']))
            p = sorted(s['pairs'][0], key=lambda q: q[0])
            ll = chi.LogLikelihood(m, [chi.GaussianErrorModel()], [q[1] for q in p], [q[0] for q in p])
            ll.set_id(s['id'])
            lls.append(ll)
        if case['pop'] is not None:
            pop = make_pop(chi, case['pop'])
            pop.set_dim_names(lls[0].get_parameter_names())
            hand = chi.HierarchicalLogPosterior(chi.HierarchicalLogLikelihood(lls, pop),
                                                make_prior(pop.n_parameters(), case['eval_seed']))
        else:
            hand = chi.LogPosterior(lls[0], make_prior(lls[0].n_parameters(), case['eval_seed']))
        ctx.spec('C14.n_parameters', post.n_parameters() == hand.n_parameters(), inp)
        if post.n_parameters() != hand.n_parameters():
            continue
        ctx.spec('C14.parameter_names', post.get_parameter_names() == hand.get_parameter_names(), inp)
        x = np.random.default_rng([case['eval_seed'], 3]).uniform(0.6, 1.4, post.n_parameters())
        refsim.clear_record()
        vc = safe_eval(post, x)
        rec_c = [(p['protocol'], p['log_times']) for _, nm, p in refsim.RECORD if nm == 'run']
        refsim.clear_record()
        vh = safe_eval(hand, x)
        rec_h = [(p['protocol'], p['log_times']) for _, nm, p in refsim.RECORD if nm == 'run']
        ctx.spec('C14.posterior_value/pkpd', core.close(vc, vh, rtol=1e-7), inp, {'controller': vc, 'hand': vh})
        ctx.spec('C14.regimen_of_individual/pkpd', rec_c == rec_h, inp, {'controller': rec_c, 'hand': rec_h})
        ctx.extra.setdefault('refsim_cases', 0)
        ctx.extra['refsim_cases'] += 1
    # an individual without any measurement of the mapped observable (PKPD model)
    rows = [R(1, 1.0, 'conc', 1.0), R(1, 2.0, 'conc', 0.7), R(2, 0.0, None, None, 1.0, 0.5), R(1, 0.0, None, None, 2.0, 0.5)]
    case = base_case(rows=rows, outputs=['central.drug_concentration'], obs_of={'central.drug_concentration': 'conc'},
                     n_mech=3, model='pkpd')
    c = chi.ProblemModellingController(fresh(True), [chi.GaussianErrorModel()])
    c.set_data(make_frame(case), output_observable_dict=case['obs_of'])
    c.set_log_prior(make_prior(4, 1))
    x = np.array([1.0, 1.2, 0.8, 0.9])
    v = safe_eval(c.get_log_posterior(individual='2'), x)
    want = float(make_prior(4, 1)(x))
    ctx.spec('C14.individual_without_measurements/pkpd', core.close(v, want), {'case': case, 'individual': '2'},
             {'posterior': v, 'prior (empty likelihood)': want})


# ----------------------------------------------------------------------------------------------
def run(ctx):
    chi = core.import_chi()
    detect_shared_mutation(ctx, chi)
    ctx.guard(corpus, ctx, chi)
    ctx.guard(observable_dtype, ctx, chi)
    n = 320 if ctx.tier == 'quick' else 5800
    n_inv = 50 if ctx.tier == 'quick' else 550
    for i in range(n):
        rng = ctx.sub_rng(i)
        case = gen_case(rng)
        ctx.guard(run_case, ctx, chi, case)
        if i < n_inv:
            ctx.guard(check_invariance, ctx, chi, case, ctx.sub_rng(700000 + i))
    ctx.guard(pkpd_cases, ctx, chi, 8 if ctx.tier == 'quick' else 100)


def replay(ctx, data):
    chi = core.import_chi()
    detect_shared_mutation(ctx, chi)
    inp = data['failing']['input']
    case = inp['case'] if 'case' in inp and 'rows' not in inp else inp
    if 'rows' not in case:
        print('this replay file records a fixed witness; re-run ./check C14')
        return 1
    if 'transformed_rows' in inp:
        check_invariance(ctx, chi, case, np.random.default_rng(0))
    run_case(ctx, chi, case)
    known = {f['tag'] for f in ctx.findings if f.get('status') == 'known'}
    unlisted = [b for b in ctx.spec_bad if b['tag'] not in known]
    print('recorded findings reproduced on replay:', sorted({b['tag'] for b in ctx.spec_bad if b['tag'] in known}))
    print('spec failures on replay:', [(b['tag'], b['detail']) for b in unlisted[:3]])
    print('disagreements on replay:', ctx.corr_bad[:2])
    if ctx.lean is not None:
        ctx.lean.close()
    return 1 if (unlisted or ctx.corr_bad) else 0
