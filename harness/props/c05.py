"""C05 — population models: documented densities, additive, layout-invariant, exact sensitivities,
agreeing return forms"""
import json
import math

import numpy as np
from scipy import stats

import core
import oracle
import srctie_pop

REQUIRED_THEOREMS = sorted(set(srctie_pop.theorem_of(k) for k in srctie_pop.all_kernels())) + [
    'Tie_pop_%s_%s' % (k, w) for k in ('gauss', 'gaussNC', 'logn', 'lognNC', 'trunc') for w in ('popLL', 'popSens')] + [
    'C05_gauss_is_logpdf', 'C05_logn_is_logpdf', 'C05_trunc_is_logpdf', 'C05_trunc_normalised',
    'C05_noncentred_is_logpdf',
    'C05_pooled_is_pointmass', 'C05_hetero_is_pointmass', 'C05_guard',
    'C05_composed_additive', 'C05_composed_additive_val',
    'C05_layout_invariant', 'C05_layout_invariant_partial', 'C05_matrix_layout_counterexample',
    'C05_hetero_tensor_counterexample',
    'C05_gauss_grad', 'C05_logn_grad', 'C05_trunc_grad', 'C05_gaussNC_grad', 'C05_lognNC_grad',
    'C05_pooled_grad', 'C05_hetero_grad',
    'C05_forms_agree', 'C05_forms_agree_pooled', 'C05_forms_agree_hetero', 'C05_forms_lengths',
    'C05_composed_reduced_eq', 'C05_composed_lengths',
    'C05_gauss_reduce_is_gradient', 'C05_logn_reduce_is_gradient', 'C05_trunc_reduce_is_gradient',
    'C05_gaussNC_reduce_is_gradient', 'C05_lognNC_reduce_is_gradient',
    'C05_delta_layout_invariant', 'C05_covariate_part_is_logpdf',
    'C05_gauss_dvartheta_contract', 'C05_logn_dvartheta_contract', 'C05_trunc_dvartheta_contract',
    'C05_gaussNC_dvartheta_contract', 'C05_lognNC_dvartheta_contract',
    'C05_pooled_pointwise', 'C05_obs_1d',
    'C05_maskFree_defined_iff', 'C05_maskFree_length', 'C05_reduced_hier_defined_iff', 'C05_reduced_hier_length',
    'C05_reduced_forms_agree', 'C05_reduced_wrong_split']
RULE = ('every elementary class (Gaussian / log-normal centred and non-centred, truncated Gaussian, pooled, '
        'heterogeneous) with n_dim 1-4, n_ids 1-6, the same parameter values as flat vector, '
        '(n_param_per_dim, n_dim) matrix and (n_ids, n_param_per_dim, n_dim) tensor (plus genuinely '
        'per-individual tensors), with / without dlogp_dpsi, return forms separate / flattened / reduce, '
        'values inside the support and on sigma = 0, sigma < 0, psi <= 0, mismatching point masses; inputs of '
        'undocumented shapes (reshape / index / broadcast errors, the transposed matrix); random '
        'compositions of 1-7 sub-models, bare or covariate-wrapped (1-2 covariates, full or partial '
        'selections); compute_pointwise_ll; 1-D observations for one-dimensional models; a dedicated '
        'stream for every guard class and for the extreme n_dim / n_ids; whole-number cases in which each '
        'argument (parameters in every layout, observations, dlogp_dpsi, eta, covariates) of every method of '
        'every class and of compositions is handed over as float64 array / int64 array / list of Python '
        'floats / list of Python ints; ReducedPopulationModel with 1 .. n-1 fixed parameters around an elementary, '
        'covariate or composed model (value, separate and hierarchical form, counts, individual parameters against a '
        'fresh wrapped model at the full vector); call histories of 3-6 calls on one model in which the caller '
        'updates the same parameter / observation / covariate array in place between calls (each call against a '
        'fresh model on fresh copies); non-trivial = n_dim >= 2 and n_ids >= 2; distinct = distinct '
        '(class, n_dim, n_ids, guard class, upstream supplied)')
ASSUMPTIONS = [
    'the closed-form kernels of GaussianModel / LogNormalModel (centred, non-centred) / TruncatedGaussianModel are '
    'additionally tied to the source by harness/srctie_pop.py: compute_log_likelihood and compute_sensitivities are '
    'traced from the public methods (flat parameter vector) on every run and proved equal to the Lean model (Tie_pop_* '
    'in ChiProofs/Tie/C05.lean); evidence key source_tie; a tie that is not established is not a verdict, it steers '
    'the search',
    'covariate-wrapped sub-models use the linear covariate transform of C07 (Covariate.lean: covTh, covSens); '
    'ReducedPopulationModel inside compositions is C08',
    'finite differences of chi\'s own value and scipy.stats densities are used only to exhibit a failing '
    'input; the claims are the Lean theorems',
    'erf: the executable model uses a series for Float, the theorems Mathlib\'s normal cdf',
    'arrays returned next to a -inf score are np.empty: only their shapes are compared']

KCODES = ['Gc', 'Gn', 'Lc', 'Ln', 'T', 'P', 'H']
CLASSNAME = {'Gc': 'GaussianModel', 'Gn': 'GaussianModel', 'Lc': 'LogNormalModel', 'Ln': 'LogNormalModel',
             'T': 'TruncatedGaussianModel', 'P': 'PooledModel', 'H': 'HeterogeneousModel'}
HIER = {'Gc', 'Gn', 'Lc', 'Ln', 'T'}
# call sites whose legacy behaviour differs from the intended one (known findings): the model carries
# both variants and the harness accepts either, reporting which one chi matches
VARIANT_SITES = {('matrix', 'Gn', 'indiv'), ('matrix', 'Ln', 'indiv'), ('matrix', 'Lc', 'sens'),
                 ('matrix', 'Ln', 'sens')}


def spec(ctx, tag, ok, inp, detail=None):
    """ctx.spec, but a tag that keeps failing is recorded three times only (core keeps at most 200 failing
    records; the known findings alone would fill that and hide a new failure); counts go to the evidence"""
    if ok:
        return ctx.spec(tag, True, inp)
    cnt = ctx.extra.setdefault('property_failures_by_tag', {})
    cnt[tag] = cnt.get(tag, 0) + 1
    if cnt[tag] <= 3:
        return ctx.spec(tag, False, inp, detail)
    ctx.spec_total += 1
    return False


def make_model(chi, code, n_dim, n_ids):
    if code == 'Gc':
        m = chi.GaussianModel(n_dim=n_dim)
    elif code == 'Gn':
        m = chi.GaussianModel(n_dim=n_dim, centered=False)
    elif code == 'Lc':
        m = chi.LogNormalModel(n_dim=n_dim)
    elif code == 'Ln':
        m = chi.LogNormalModel(n_dim=n_dim, centered=False)
    elif code == 'T':
        m = chi.TruncatedGaussianModel(n_dim=n_dim)
    elif code == 'P':
        m = chi.PooledModel(n_dim=n_dim)
    else:
        m = chi.HeterogeneousModel(n_dim=n_dim, n_ids=n_ids)
    m.set_n_ids(n_ids)
    return m


def per_dim(code, n_ids):
    return 1 if code == 'P' else (n_ids if code == 'H' else 2)


def layouts(TH, n_ids):
    """the same parameter values in the three accepted layouts"""
    TH = np.asarray(TH, float)
    return {'flat': TH.flatten(), 'matrix': TH.copy(),
            'tensor': np.broadcast_to(TH[np.newaxis], (n_ids,) + TH.shape).copy()}


def wire_layout(kind, arr):
    return kind, np.asarray(arr, float).tolist()


def chi_call(f):
    try:
        with np.errstate(all='ignore'):
            return f()
    except Exception as e:  # noqa
        return core.errkind(e)


def is_err(x):
    return isinstance(x, str) and x.startswith('err:')


def documented_logpdf(code, TH, obs):
    """the densities as the class docstrings state them; TH (perDim, n_dim) or (n_ids, perDim, n_dim)"""
    TH = np.asarray(TH, float)
    obs = np.asarray(obs, float)
    with np.errstate(all='ignore'):
        if code in ('Gn', 'Ln'):
            return float(np.sum(stats.norm.logpdf(obs)))
        if code == 'P':
            ref = TH[..., 0, :]
            return 0.0 if np.all(obs == ref) else -math.inf
        if code == 'H':
            ref = TH if TH.ndim == 2 else np.array([TH[i, i] for i in range(len(obs))])
            return 0.0 if np.all(obs == ref) else -math.inf
        mu, sg = TH[..., 0, :], TH[..., 1, :]
        if code == 'Gc':
            return float(np.sum(stats.norm.logpdf(obs, loc=mu, scale=sg)))
        if code == 'Lc':
            return float(np.sum(stats.lognorm.logpdf(obs, s=sg, scale=np.exp(mu))))
        return float(np.sum(stats.truncnorm.logpdf(obs, a=-mu / sg, b=np.inf, loc=mu, scale=sg)
                            * np.ones_like(obs)))


def documented_psi(code, TH, eta):
    TH = np.asarray(TH, float)
    if code == 'Gn':
        return TH[..., 0, :] + TH[..., 1, :] * eta
    if code == 'Ln':
        return np.exp(TH[..., 0, :] + TH[..., 1, :] * eta)
    if code == 'P':
        return np.broadcast_to(TH[..., 0, :], eta.shape)
    if code == 'H':
        return TH if TH.ndim == 2 else np.array([TH[i, i] for i in range(len(eta))])
    return eta


# ----------------------------------------------------------------------------------------
# generators
# ----------------------------------------------------------------------------------------
def gen_elementary(rng, code=None, n_dim=None, n_ids=None, force=None):
    code = code or KCODES[int(rng.integers(len(KCODES)))]
    n_dim = int(rng.choice([1, 1, 2, 2, 2, 3, 3, 4])) if n_dim is None else n_dim
    n_ids = int(rng.choice([1, 2, 2, 3, 3, 4, 5, 6])) if n_ids is None else n_ids
    guard = 'inside'
    if code in HIER:
        mu = rng.uniform(-0.5, 2.0, n_dim) if code != 'T' else rng.uniform(-0.3, 2.0, n_dim)
        if code in ('Lc', 'Ln'):
            mu = rng.uniform(-1.0, 1.0, n_dim)
        sg = rng.uniform(0.3, 1.5, n_dim)
        TH = np.vstack([mu, sg])
        if code == 'Gc':
            obs = mu + sg * rng.normal(size=(n_ids, n_dim))
        elif code == 'Lc':
            obs = np.exp(mu + sg * rng.normal(size=(n_ids, n_dim))) + 0.2
        elif code == 'T':
            obs = np.abs(mu + sg * rng.normal(size=(n_ids, n_dim))) + 0.15
        else:
            obs = rng.normal(size=(n_ids, n_dim))
        r = rng.random()
        if force is not None:
            r = {'sigma=0': 0.0, 'sigma<0': 0.07, 'psi<=0': 0.13}.get(force, 1.0)
        if r < 0.06:
            TH[1, int(rng.integers(n_dim))] = 0.0
            guard = 'sigma=0'
        elif r < 0.12:
            TH[1, int(rng.integers(n_dim))] = -abs(rng.normal()) - 1e-3
            guard = 'sigma<0'
        elif r < 0.18 and code in ('Lc', 'T'):
            obs[int(rng.integers(n_ids)), int(rng.integers(n_dim))] = float(rng.choice([0.0, -0.7]))
            guard = 'psi<=0'
    elif code == 'P':
        TH = rng.uniform(0.2, 3.0, (1, n_dim))
        obs = np.broadcast_to(TH, (n_ids, n_dim)).copy()
        if force == 'mismatch' or (force is None and rng.random() < 0.2):
            obs[int(rng.integers(n_ids)), int(rng.integers(n_dim))] += 0.5
            guard = 'mismatch'
    else:
        TH = rng.uniform(0.2, 3.0, (n_ids, n_dim))
        obs = TH.copy()
        if force == 'mismatch' or (force is None and rng.random() < 0.2):
            obs[int(rng.integers(n_ids)), int(rng.integers(n_dim))] += 0.5
            guard = 'mismatch'
    up = rng.normal(size=(n_ids, n_dim)) if rng.random() < 0.6 else None
    return {'kind': code, 'n_dim': n_dim, 'n_ids': n_ids, 'theta': TH, 'obs': obs, 'up': up,
            'guard': guard}


def gen_tensor(rng):
    """genuinely per-individual parameters (what a covariate model hands over)"""
    code = ['Gc', 'Gn', 'Lc', 'Ln', 'T'][int(rng.integers(5))]
    n_dim = int(rng.integers(1, 5))
    n_ids = int(rng.integers(1, 7))
    mu = rng.uniform(-0.3, 1.5, (n_ids, n_dim))
    sg = rng.uniform(0.3, 1.5, (n_ids, n_dim))
    if code == 'Gc':
        obs = mu + sg * rng.normal(size=(n_ids, n_dim))
    elif code == 'Lc':
        obs = np.exp(mu + sg * rng.normal(size=(n_ids, n_dim))) + 0.2
    elif code == 'T':
        obs = np.abs(mu + sg * rng.normal(size=(n_ids, n_dim))) + 0.15
    else:
        obs = rng.normal(size=(n_ids, n_dim))
    T = np.stack([mu, sg], axis=1)
    up = rng.normal(size=(n_ids, n_dim)) if rng.random() < 0.6 else None
    return {'kind': code, 'n_dim': n_dim, 'n_ids': n_ids, 'tensor': T, 'obs': obs, 'up': up}


def norm_sub(sub):
    """[kind, n_dim] | [kind, n_dim, n_cov, sel] -> (kind, n_dim, n_cov, sel as sorted pairs)"""
    kind, nd = str(sub[0]), int(sub[1])
    n_cov = int(sub[2]) if len(sub) > 2 else 0
    sel = sorted({(int(a), int(b)) for a, b in sub[3]}) if len(sub) > 3 else []
    return kind, nd, n_cov, [list(x) for x in sel]


def wire_sub(sub):
    kind, nd, n_cov, sel = norm_sub(sub)
    return [kind, nd] if n_cov == 0 else [kind, nd, n_cov, sel]


def make_sub(chi, sub, n_ids):
    kind, nd, n_cov, sel = norm_sub(sub)
    m = make_model(chi, kind, nd, n_ids)
    if n_cov == 0:
        return m
    cm = chi.CovariatePopulationModel(m, chi.LinearCovariateModel(n_cov=n_cov))
    cm.set_n_ids(n_ids)
    cm.set_population_parameters(sel)
    return cm


def vartheta(sub, n_ids, flat, cov):
    """per-individual parameters (n_ids, n_per, n_dim) a covariate-wrapped sub-model sees"""
    kind, nd, n_cov, sel = norm_sub(sub)
    n_per = per_dim(kind, n_ids)
    base = np.asarray(flat[:n_per * nd], float).reshape(n_per, nd)
    beta = np.asarray(flat[n_per * nd:], float).reshape(len(sel), n_cov)
    th = np.broadcast_to(base, (n_ids, n_per, nd)).copy()
    for s_, (p_, d_) in enumerate(sel):
        th[:, p_, d_] += cov @ beta[s_]
    return th


def gen_composed(rng, n_sub=None, with_cov=None):
    n_sub = int(rng.integers(1, 5)) if n_sub is None else n_sub
    n_ids = int(rng.integers(1, 6))
    with_cov = (rng.random() < 0.5) if with_cov is None else with_cov
    subs, params, cols, covs = [], [], [], []
    guard = 'inside'
    for _ in range(n_sub):
        kind = KCODES[int(rng.integers(len(KCODES)))]
        nd = int(rng.integers(1, 4))
        if with_cov and rng.random() < 0.6:
            # covariate-wrapped: dyadic numbers, so that the point-mass comparisons are exact in
            # every order of summation
            n_cov = int(rng.integers(1, 3))
            n_per = per_dim(kind, n_ids)
            allp = [(p_, d_) for p_ in range(n_per) for d_ in range(nd)]
            if rng.random() < 0.5:
                sel = allp
            else:
                kk = int(rng.integers(1, len(allp) + 1))
                sel = [allp[j] for j in sorted(rng.choice(len(allp), size=kk, replace=False))]
            sub = [kind, nd, n_cov, [list(x) for x in sel]]
            cov = rng.integers(-2, 3, size=(n_ids, n_cov)) / 2.0
            beta = rng.integers(-1, 2, size=(len(sel), n_cov)) / 16.0
            if kind in HIER:
                base = np.vstack([rng.integers(-4, 17, nd) / 8.0, rng.integers(4, 13, nd) / 8.0])
            else:
                base = rng.integers(2, 25, size=(n_per, nd)) / 8.0
            flat = np.concatenate([base.flatten(), beta.flatten()])
            th = vartheta(sub, n_ids, flat, cov)
            if kind == 'Gc':
                o = th[:, 0] + th[:, 1] * rng.normal(size=(n_ids, nd))
            elif kind == 'Lc':
                o = np.exp(th[:, 0] + th[:, 1] * rng.normal(size=(n_ids, nd))) + 0.2
            elif kind == 'T':
                o = np.abs(th[:, 0] + th[:, 1] * rng.normal(size=(n_ids, nd))) + 0.15
            elif kind in ('Gn', 'Ln'):
                o = rng.normal(size=(n_ids, nd))
            elif kind == 'P':
                o = th[:, 0].copy()
            else:
                o = np.array([th[i_, i_] for i_ in range(n_ids)])
            if kind in ('P', 'H') and rng.random() < 0.15:
                o[int(rng.integers(n_ids)), int(rng.integers(nd))] += 0.5
                guard = 'guard'
            subs.append(sub)
            params.append(flat)
            cols.append(o)
            covs.append(cov)
        else:
            c = gen_elementary(rng, kind, nd, n_ids)
            if c['guard'] != 'inside':
                guard = 'guard'
            subs.append([c['kind'], c['n_dim']])
            params.append(np.asarray(c['theta']).flatten())
            cols.append(c['obs'])
    obs = np.hstack(cols)
    cov = np.hstack(covs) if covs else np.zeros((n_ids, 0))
    up = rng.normal(size=obs.shape) if rng.random() < 0.6 else None
    return {'subs': subs, 'n_ids': n_ids, 'params': np.concatenate(params), 'obs': obs, 'cov': cov,
            'up': up, 'guard': guard}


# ----------------------------------------------------------------------------------------
# elementary models
# ----------------------------------------------------------------------------------------
def chi_sens(m, P, obs, up):
    """all three return forms; -> dict or error string"""
    def go():
        u = (lambda: None) if up is None else (lambda: np.array(up, float))
        s_r, red = m.compute_sensitivities(P, obs, dlogp_dpsi=u(), reduce=True)
        # documented: `reduce` is prioritised over `flattened`
        s_n, red_n = m.compute_sensitivities(P, obs, dlogp_dpsi=u(), reduce=True, flattened=False)
        s_f, dpsi_f, dth_f = m.compute_sensitivities(P, obs, dlogp_dpsi=u())
        s_s, dpsi_s, dth_s = m.compute_sensitivities(P, obs, dlogp_dpsi=u(), flattened=False)
        return {'score': float(s_r), 'score_f': float(s_f), 'score_s': float(s_s),
                'reduce': np.asarray(red, float), 'reduce_nf': np.asarray(red_n, float), 'score_n': float(s_n),
                'dpsi': np.asarray(dpsi_f, float),
                'dpsi_s': np.asarray(dpsi_s, float), 'flat': np.asarray(dth_f, float),
                'sep': np.asarray(dth_s, float)}
    return chi_call(go)


def model_sens(ctx, legacy, code, n_ids, n_dim, lk, P, obs, up):
    out = ctx.model('C05.sens', legacy, code, n_ids, n_dim, *wire_layout(lk, P), np.asarray(obs).tolist(),
                    None if up is None else np.asarray(up, float).tolist())
    if len(out) == 1:
        return out[0]
    keys = ['score', 'defined', 'dpsi', 'sep', 'flat', 'reduce', 'nb', 'nt', 'np']
    return dict(zip(keys, out))


def sens_match(c, mo):
    """does chi's result `c` equal the model's `mo` (both may be error strings)?"""
    if is_err(c) or is_err(mo) or isinstance(c, str) or isinstance(mo, str):
        return c == mo
    ok = core.close(c['score'], mo['score']) and core.close(c['score_f'], mo['score']) \
        and core.close(c['score_s'], mo['score'])
    shapes = (len(c['reduce']) == len(mo['reduce']) and len(c['flat']) == len(mo['flat'])
              and list(c['dpsi'].shape) == [len(mo['dpsi']), len(mo['dpsi'][0]) if mo['dpsi'] else 0]
              and list(c['sep'].shape) == list(np.asarray(mo['sep']).shape))
    if not (ok and shapes):
        return False
    if not mo['defined']:
        return True
    return (core.close(c['reduce'], mo['reduce']) and core.close(c['dpsi'], mo['dpsi'])
            and core.close(c['dpsi_s'], mo['dpsi']) and core.close(c['flat'], mo['flat'])
            and core.close(c['sep'], mo['sep']))


def agree_variants(ctx, label, site, inp, match):
    """correspondence where the model has a legacy and an intended variant: chi must match one"""
    self_ok = False
    for variant in ('legacy', 'intended'):
        if match(variant == 'legacy'):
            ctx.branches.add('variant:%s/%s' % (variant, '/'.join(site)))
            self_ok = True
            break
    return ctx.agree(label, self_ok, True, inp)


def same(a, b):
    if is_err(a) or is_err(b):
        return isinstance(a, str) and isinstance(b, str) and a == b
    return core.close(a, b)


def run_elementary(ctx, chi, c):
    code, n_dim, n_ids = c['kind'], int(c['n_dim']), int(c['n_ids'])
    TH = np.asarray(c['theta'], float)
    obs = np.asarray(c['obs'], float).reshape(n_ids, n_dim)
    up = None if c.get('up') is None else np.asarray(c['up'], float).reshape(n_ids, n_dim)
    guard = c.get('guard', '?')
    cls = CLASSNAME[code]
    inp = {'kind': code, 'n_dim': n_dim, 'n_ids': n_ids, 'theta': TH, 'obs': obs, 'up': up,
           'guard': guard}
    if c.get('label'):
        inp['label'] = c['label']       # a case derived from a guard the source tie met (srctie_pop.hint_cases)
    m = make_model(chi, code, n_dim, n_ids)
    L = layouts(TH, n_ids)
    ctx.case('%s/%s' % (code, guard),
             nontrivial=('%s/nd%d/ni%d/%s/%s' % (code, n_dim, n_ids, guard, up is not None))
             if (n_dim >= 2 and n_ids >= 2) else False, sample=inp)

    # ---- counts
    nb, nt = m.n_hierarchical_parameters(n_ids)
    npar = m.n_parameters()

    # ---- compute_log_likelihood in the three layouts
    v = {}
    for lk, P in L.items():
        v[lk] = chi_call(lambda: float(m.compute_log_likelihood(P, obs)))
        site = (lk, code, 'll')

        def match(legacy, lk=lk, P=P):
            mo = ctx.model('C05.ll', legacy, code, n_ids, n_dim, *wire_layout(lk, P), obs.tolist())[0]
            ctx.branches.add('ll:%s:%s' % (code, core.fclass(mo) if not is_err(mo) else mo))
            return same(v[lk], mo)
        if site in VARIANT_SITES:
            agree_variants(ctx, 'C05.ll/' + lk, site, dict(inp, layout=lk), match)
        else:
            ctx.agree('C05.ll/' + lk, match(True), True, dict(inp, layout=lk))
        if lk != 'flat':
            spec(ctx, 'C05.layout_invariant/%s/%s.compute_log_likelihood' % (lk, cls),
                     same(v['flat'], v[lk]), dict(inp, layout=lk), {'flat': v['flat'], lk: v[lk]})
    # documented density
    sig_ok = code not in HIER or bool(np.all(TH[1] > 0))
    if not is_err(v['flat']):
        if code in ('Gc', 'Lc', 'T') and not sig_ok:
            spec(ctx, 'C05.guard/' + cls, v['flat'] == -math.inf, inp, {'chi': v['flat']})
        elif sig_ok:
            doc = documented_logpdf(code, TH, obs)
            spec(ctx, 'C05.is_logpdf/' + cls, core.close(v['flat'], doc), inp,
                     {'chi': v['flat'], 'documented': doc})
    else:
        spec(ctx, 'C05.is_logpdf/' + cls, False, inp, {'chi': v['flat']})

    # ---- compute_pointwise_ll: PooledModel implements it, every other class raises NotImplementedError
    for lk in ('flat', 'matrix', 'tensor'):
        P = L[lk]
        pw = chi_call(lambda: np.asarray(m.compute_pointwise_ll(P, obs), float))
        mo = ctx.model('C05.pointwise', code, n_ids, n_dim, *wire_layout(lk, P), obs.tolist())[0]
        if is_err(pw):
            ctx.errkinds.add(pw)
        ctx.agree('C05.pointwise/' + lk, same(pw, mo), True, dict(inp, layout=lk))
        if code == 'P' and lk != 'tensor':
            okp = (not is_err(pw)) and pw.shape == obs.shape \
                and bool(np.all(np.where(obs == TH[0], pw == 0.0, pw == -np.inf))) \
                and (is_err(v['flat']) or same(float(np.sum(pw)), v['flat']))
            spec(ctx, 'C05.pointwise/PooledModel', okp, dict(inp, layout=lk), {'pointwise': pw, 'll': v['flat']})
    # ---- one-dimensional observations (one-dimensional models): read as a column
    if n_dim == 1:
        o1 = obs.flatten()
        v1 = chi_call(lambda: float(m.compute_log_likelihood(L['flat'], o1)))
        mo = ctx.model('C05.ll', True, code, n_ids, 1, *wire_layout('flat', L['flat']), o1.tolist())[0]
        ctx.agree('C05.ll/obs-1d', same(v1, mo), True, dict(inp, obs_1d=True))
        s1 = chi_sens(m, L['flat'], o1, up)
        ctx.agree('C05.sens/obs-1d',
                  sens_match(s1, model_sens(ctx, True, code, n_ids, 1, 'flat', L['flat'], o1, up)), True,
                  dict(inp, obs_1d=True))
        s2 = chi_sens(m, L['flat'], obs, up)
        ok1 = same(v1, v['flat']) and (isinstance(s1, str) == isinstance(s2, str))
        if ok1 and not isinstance(s1, str):
            ok1 = core.close(s1['score'], s2['score']) and (not math.isfinite(s2['score']) or all(
                core.close(s1[k_], s2[k_]) for k_ in ('reduce', 'dpsi', 'flat', 'sep')))
        spec(ctx, 'C05.obs_1d/' + cls, ok1, dict(inp, obs_1d=True), {'vector': v1, 'column': v['flat']})

    # ---- compute_sensitivities
    S = {}
    for lk, P in L.items():
        S[lk] = chi_sens(m, P, obs, up)
        site = (lk, code, 'sens')

        def match(legacy, lk=lk, P=P):
            mo = model_sens(ctx, legacy, code, n_ids, n_dim, lk, P, obs, up)
            if not isinstance(mo, str):
                ctx.agree('C05.counts', [nb, nt, npar], [mo['nb'], mo['nt'], mo['np']], inp)
            return sens_match(S[lk], mo)
        if site in VARIANT_SITES:
            agree_variants(ctx, 'C05.sens/' + lk, site, dict(inp, layout=lk), match)
        else:
            ctx.agree('C05.sens/' + lk, match(True), True, dict(inp, layout=lk))
    s0 = S['flat']
    if isinstance(s0, str):
        spec(ctx, 'C05.forms/' + cls, False, inp, {'chi': s0})
    else:
        finite = math.isfinite(s0['score'])
        for lk in ('matrix', 'tensor'):
            s1 = S[lk]
            if isinstance(s1, str):
                ok = False
            elif not finite:
                ok = core.close(s0['score'], s1['score'])
            else:
                ok = all(core.close(s0[k], s1[k]) for k in ('score', 'reduce', 'dpsi', 'flat', 'sep'))
            spec(ctx, 'C05.layout_invariant/%s/%s.compute_sensitivities' % (lk, cls), ok,
                     dict(inp, layout=lk), {'flat': s0, lk: s1})
        # score returned with the sensitivities = compute_log_likelihood
        # (non-centred models with a negative scale: the value path ignores the parameters)
        if not (code in ('Gn', 'Ln') and not sig_ok) and not is_err(v['flat']):
            spec(ctx, 'C05.sens_score/' + cls, core.close(s0['score'], v['flat'])
                     and core.close(s0['score_f'], v['flat']) and core.close(s0['score_s'], v['flat']),
                     inp, {'sens': s0['score'], 'll': v['flat']})
        # lengths vs the reported counts — for every input, also next to a -inf score
        spec(ctx, 'C05.forms_reduce_prioritised/' + cls,
             s0['reduce_nf'].shape == s0['reduce'].shape and same(s0['score_n'], s0['score'])
             and (not finite or core.close(s0['reduce_nf'], s0['reduce'])),
             inp, {'reduce=True': s0['reduce'], 'reduce=True, flattened=False': s0['reduce_nf']})
        spec(ctx, 'C05.forms_len/' + cls,
                 len(s0['reduce']) == nb + nt and len(s0['flat']) == npar
                 and s0['dpsi'].shape == (n_ids, n_dim)
                 and s0['sep'].shape == (n_ids, per_dim(code, n_ids), n_dim),
                 inp, {'reduce': len(s0['reduce']), 'n_hier': [nb, nt], 'flat': len(s0['flat']),
                       'n_parameters': npar, 'sep': list(s0['sep'].shape)})
        if finite:
            flat_from_sep = np.sum(s0['sep'], axis=0).flatten()
            if code == 'P':
                red = np.sum(s0['dpsi'], axis=0) + s0['flat']
            elif code == 'H':
                red = s0['dpsi'].flatten() + s0['flat']
            else:
                red = np.hstack([s0['dpsi'].flatten(), s0['flat']])
            spec(ctx, 'C05.forms/' + cls, core.close(s0['reduce'], red)
                     and core.close(s0['flat'], flat_from_sep) and core.close(s0['dpsi'], s0['dpsi_s']),
                     inp, {'reduce': s0['reduce'], 'from_separate': red})
            grad_check(ctx, chi, m, code, n_ids, n_dim, TH, obs, up, s0, inp, guard)

    # ---- compute_individual_parameters
    eta = obs
    for ret in (False, True):
        for ek in ('mat', 'flat'):
            if code in ('P', 'H') and (ret or ek == 'flat'):
                continue
            E = eta if ek == 'mat' else eta.flatten()
            psi = {}
            for lk, P in L.items():
                psi[lk] = chi_call(lambda: np.asarray(
                    m.compute_individual_parameters(P, E, return_eta=ret), float))
                site = (lk, code, 'indiv')

                def match(legacy, lk=lk, P=P):
                    mo = ctx.model('C05.indiv', legacy, code, n_ids, n_dim, *wire_layout(lk, P), ek,
                                   E.tolist(), ret)[0]
                    return same(psi[lk], mo)
                if site in VARIANT_SITES and not ret:
                    agree_variants(ctx, 'C05.indiv/' + lk, site, dict(inp, layout=lk), match)
                else:
                    ctx.agree('C05.indiv/' + lk, match(True), True, dict(inp, layout=lk, return_eta=ret))
                if lk != 'flat':
                    spec(ctx, 'C05.layout_invariant/%s/%s.compute_individual_parameters' % (lk, cls),
                             same(psi['flat'], psi[lk]), dict(inp, layout=lk, return_eta=ret),
                             {'flat': psi['flat'], lk: psi[lk]})
            if not is_err(psi['flat']) and (code not in ('Gn', 'Ln') or bool(np.all(TH[1] >= 0))):
                want = eta if (ret and code in HIER) else documented_psi(code, TH, eta)
                spec(ctx, 'C05.indiv_formula/' + cls, psi['flat'].shape == (n_ids, n_dim)
                         and core.close(psi['flat'], want), dict(inp, return_eta=ret),
                         {'chi': psi['flat'], 'documented': want})


def grad_check(ctx, chi, m, code, n_ids, n_dim, TH, obs, up, s0, inp, guard):
    """reduce-form gradient vs Richardson finite differences of chi's own value
    F(bottom, theta) = log p(bottom | theta) + sum(up * psi(bottom, theta))"""
    if guard != 'inside':
        return
    th0 = TH.flatten()
    upm = np.zeros((n_ids, n_dim)) if up is None else up
    if code in HIER:
        nb = n_ids * n_dim
        z0 = np.concatenate([obs.flatten(), th0])

        def F(z):
            eta = z[:nb].reshape(n_ids, n_dim)
            th = z[nb:]
            with np.errstate(all='ignore'):
                psi = m.compute_individual_parameters(th, eta)
                return float(m.compute_log_likelihood(th, eta)) + float(np.sum(upm * psi))
    else:
        nb = 0
        z0 = th0

        def F(z):
            with np.errstate(all='ignore'):
                psi = np.asarray(m.compute_individual_parameters(np.asarray(z), np.zeros((n_ids, n_dim))))
                return float(m.compute_log_likelihood(z, psi)) + float(np.sum(upm * psi))
    g = s0['reduce']
    if len(g) != len(z0):
        return   # reported by C05.forms_len
    ks = list(range(len(z0)))
    if len(ks) > 8:
        r = ctx.sub_rng(555 + len(z0))
        ks = sorted(r.choice(len(z0), size=8, replace=False).tolist())
    for k in ks:
        ok, est = oracle.grad_matches(F, z0, k, float(g[k]))
        block = 'bottom' if k < nb else 'top'
        spec(ctx, 'C05.grad/%s/%s' % (CLASSNAME[code] + ('' if code not in ('Gn', 'Ln') else '(nc)'), block),
                 ok, inp, {'k': k, 'analytic': float(g[k]), 'fd': est})


def run_tensor(ctx, chi, c):
    """per-individual tensors: value = documented density with each individual's own parameters;
    separate-form dtheta[i, p, d] = derivative w.r.t. that tensor entry"""
    code, n_dim, n_ids = c['kind'], int(c['n_dim']), int(c['n_ids'])
    T = np.asarray(c['tensor'], float)
    obs = np.asarray(c['obs'], float).reshape(n_ids, n_dim)
    up = None if c.get('up') is None else np.asarray(c['up'], float).reshape(n_ids, n_dim)
    inp = {'kind': code, 'n_dim': n_dim, 'n_ids': n_ids, 'tensor': T, 'obs': obs, 'up': up}
    cls = CLASSNAME[code]
    m = make_model(chi, code, n_dim, n_ids)
    ctx.case('tensor/%s' % code, nontrivial=('tensor/%s/nd%d/ni%d' % (code, n_dim, n_ids))
             if (n_dim >= 2 and n_ids >= 2) else False, sample=inp)
    v = chi_call(lambda: float(m.compute_log_likelihood(T, obs)))
    mo = ctx.model('C05.ll', True, code, n_ids, n_dim, *wire_layout('tensor', T), obs.tolist())[0]
    ctx.agree('C05.ll/per-individual-tensor', same(v, mo), True, inp)
    doc = documented_logpdf(code, T, obs)
    spec(ctx, 'C05.is_logpdf/' + cls, same(v, doc), inp, {'chi': v, 'documented': doc})
    s = chi_sens(m, T, obs, up)
    ctx.agree('C05.sens/per-individual-tensor',
              sens_match(s, model_sens(ctx, True, code, n_ids, n_dim, 'tensor', T, obs, up)), True, inp)
    psi = chi_call(lambda: np.asarray(m.compute_individual_parameters(T, obs), float))
    mo = ctx.model('C05.indiv', True, code, n_ids, n_dim, *wire_layout('tensor', T), 'mat', obs.tolist(),
                   False)[0]
    ctx.agree('C05.indiv/per-individual-tensor', same(psi, mo), True, inp)
    if isinstance(s, str) or is_err(psi):
        spec(ctx, 'C05.grad_tensor/' + cls, False, inp, {'chi': s if isinstance(s, str) else psi})
        return
    spec(ctx, 'C05.indiv_formula/' + cls, core.close(psi, documented_psi(code, T, obs)), inp)
    upm = np.zeros((n_ids, n_dim)) if up is None else up
    z0 = T.flatten()

    def F(z):
        TT = z.reshape(T.shape)
        with np.errstate(all='ignore'):
            p = m.compute_individual_parameters(TT, obs)
            return float(m.compute_log_likelihood(TT, obs)) + (float(np.sum(upm * p)) if code in ('Gn', 'Ln') else 0.0)
    g = s['sep'].flatten()
    r = ctx.sub_rng(777 + len(z0))
    for k in sorted(r.choice(len(z0), size=min(6, len(z0)), replace=False).tolist()):
        ok, est = oracle.grad_matches(F, z0, k, float(g[k]))
        spec(ctx, 'C05.grad_tensor/' + cls, ok, inp, {'k': k, 'analytic': float(g[k]), 'fd': est})
    # ... and dpsi[i, d] = derivative w.r.t. the individual-level entry (upstream included)
    e0 = obs.flatten()

    def G(e):
        E = e.reshape(obs.shape)
        with np.errstate(all='ignore'):
            p = m.compute_individual_parameters(T, E)
            return float(m.compute_log_likelihood(T, E)) + float(np.sum(upm * p))
    gp = s['dpsi'].flatten()
    for k in sorted(r.choice(len(e0), size=min(4, len(e0)), replace=False).tolist()):
        ok, est = oracle.grad_matches(G, e0, k, float(gp[k]))
        spec(ctx, 'C05.grad_tensor/%s/bottom' % cls, ok, inp, {'k': k, 'analytic': float(gp[k]), 'fd': est})


# ----------------------------------------------------------------------------------------
# composed models
# ----------------------------------------------------------------------------------------
def run_composed(ctx, chi, c):
    subs = [list(norm_sub(x)) for x in c['subs']]
    n_ids = int(c['n_ids'])
    params = np.asarray(c['params'], float)
    n_dim = sum(x[1] for x in subs)
    n_cov = sum(x[2] for x in subs)
    obs = np.asarray(c['obs'], float).reshape(n_ids, n_dim)
    cov = np.zeros((n_ids, 0)) if c.get('cov') is None else np.asarray(c['cov'], float).reshape(n_ids, n_cov)
    up = None if c.get('up') is None else np.asarray(c['up'], float).reshape(n_ids, n_dim)
    guard = c.get('guard', '?')
    wsubs = [wire_sub(x) for x in subs]
    inp = {'subs': wsubs, 'n_ids': n_ids, 'params': params, 'obs': obs, 'cov': cov, 'up': up,
           'guard': guard}
    kw = {'covariates': cov} if n_cov > 0 else {}
    cm = chi.ComposedPopulationModel([make_sub(chi, x, n_ids) for x in subs])
    cm.set_n_ids(n_ids)
    parts = [make_sub(chi, x, n_ids) for x in subs]   # fresh, evaluated separately
    key = '+'.join(x[0] + ('~%d' % x[2] if x[2] else '') for x in subs)
    ctx.case('composed/n%d/%s/%s' % (len(subs), 'cov' if n_cov else 'plain', guard),
             nontrivial=('composed/%s/%s/ni%d/%s' % (key, '.'.join(str(x[1]) for x in subs), n_ids, guard))
             if len(subs) >= 2 else False, sample=inp)
    mo = ctx.model('C05.composed', n_ids, wsubs, params.tolist(), obs.tolist(), cov.tolist(),
                   None if up is None else up.tolist())
    if len(mo) == 1:
        ctx.agree('C05.composed/params-length', 'ok', mo[0], inp)
        return
    (m_ll, m_spec, m_s, m_def, m_dpsi, m_dth, r_s, r_def, r_vec, m_nb, m_nt, m_np, m_nd, m_nc) = mo
    # counts
    nb, nt = cm.n_hierarchical_parameters(n_ids)
    ctx.agree('C05.composed/counts', [nb, nt, cm.n_parameters(), cm.n_dim(), cm.n_covariates()],
              [m_nb, m_nt, m_np, m_nd, m_nc], inp)
    spec(ctx, 'C05.additive/counts',
         (nb, nt) == tuple(np.sum([p.n_hierarchical_parameters(n_ids) for p in parts], axis=0))
         and cm.n_parameters() == sum(p.n_parameters() for p in parts)
         and cm.n_covariates() == sum(p.n_covariates() for p in parts), inp)
    # value
    v = chi_call(lambda: float(cm.compute_log_likelihood(params, obs, **kw)))
    ctx.agree('C05.composed/ll', same(v, m_ll), True, inp)
    ctx.agree('C05.composed/ll-spec', same(v, m_spec), True, inp)
    pv, pos_p, pos_d, pos_c = [], 0, 0, 0
    offs = []
    for x, p in zip(subs, parts):
        n_p = p.n_parameters()
        pkw = {'covariates': cov[:, pos_c:pos_c + x[2]]} if x[2] else {}
        offs.append((pos_p, n_p, pos_d, x[1], pkw))
        pv.append(chi_call(lambda: float(p.compute_log_likelihood(
            params[pos_p:pos_p + n_p], obs[:, pos_d:pos_d + x[1]], **pkw))))
        pos_p += n_p
        pos_d += x[1]
        pos_c += x[2]
    total = sum(pv) if not any(is_err(y) for y in pv) else 'err'
    spec(ctx, 'C05.additive/value', same(v, total), inp, {'composed': v, 'parts': pv})
    # a covariate-wrapped part = the documented density with each individual's own parameters
    for x, (pp, n_p, pd, d, pkw), val in zip(subs, offs, pv):
        if x[2] and not is_err(val):
            th = vartheta(x, n_ids, params[pp:pp + n_p], pkw['covariates'])
            if x[0] not in HIER or bool(np.all(th[:, 1] > 0)):
                doc = documented_logpdf(x[0], th, obs[:, pd:pd + d])
                spec(ctx, 'C05.is_logpdf/covariate/' + CLASSNAME[x[0]], same(val, doc), inp,
                     {'part': wire_sub(x), 'chi': val, 'documented': doc})

    # separate form
    def sep():
        u = None if up is None else up.copy()
        s, dp, dt = cm.compute_sensitivities(params, obs, dlogp_dpsi=u, **kw)
        return float(s), np.asarray(dp, float), np.asarray(dt, float)
    cs = chi_call(sep)

    def red():
        u = None if up is None else up.copy()
        s, ds = cm.compute_sensitivities(params, obs, dlogp_dpsi=u, reduce=True, **kw)
        return float(s), np.asarray(ds, float)
    cr = chi_call(red)

    def red_nf():
        u = None if up is None else up.copy()
        s, ds = cm.compute_sensitivities(params, obs, dlogp_dpsi=u, reduce=True, flattened=False, **kw)
        return float(s), np.asarray(ds, float)
    if not isinstance(cr, str):
        cn = chi_call(red_nf)
        spec(ctx, 'C05.forms_reduce_prioritised/ComposedPopulationModel',
             not isinstance(cn, str) and same(cn[0], cr[0]) and cn[1].shape == cr[1].shape
             and (not math.isfinite(cr[0]) or core.close(cn[1], cr[1])), inp,
             {'reduce=True': cr, 'reduce=True, flattened=False': cn})
    if isinstance(cs, str) or isinstance(cr, str):
        ctx.agree('C05.composed/sens-raises', 'ok', cs if isinstance(cs, str) else cr, inp)
        spec(ctx, 'C05.additive/sens', False, inp, {'chi': [str(cs)[:80], str(cr)[:80]]})
        return
    ok = core.close(cs[0], m_s) and cs[1].shape == (n_ids, n_dim) and len(cs[2]) == len(m_dth)
    if ok and m_def:
        ok = core.close(cs[1], m_dpsi) and core.close(cs[2], m_dth)
    ctx.agree('C05.composed/sens', ok, True, inp)
    ok = core.close(cr[0], r_s) and len(cr[1]) == len(r_vec)
    if ok and r_def:
        ok = core.close(cr[1], r_vec)
    ctx.agree('C05.composed/reduced', ok, True, inp)
    spec(ctx, 'C05.additive/len', len(cr[1]) == nb + nt and len(cs[2]) == cm.n_parameters(), inp,
         {'reduced': len(cr[1]), 'n_hier': [nb, nt], 'dtheta': len(cs[2])})
    # (a non-centred part with a negative scale is outside the support: its value path ignores the
    #  parameters while its sensitivity path returns -inf; nothing is claimed there)
    nc_neg = False
    for x, (pp, n_p, pd, d, pkw) in zip(subs, offs):
        if x[0] in ('Gn', 'Ln'):
            sg = vartheta(x, n_ids, params[pp:pp + n_p], pkw['covariates'])[:, 1] if x[2] \
                else params[pp + d:pp + 2 * d]
            nc_neg = nc_neg or bool(np.any(sg < 0))
    if not nc_neg:
        spec(ctx, 'C05.additive/sens_score', same(cs[0], v) and same(cr[0], v), inp)
    if not math.isfinite(cs[0]):
        return
    # sum of parts, each on its own block
    dp_parts, dt_parts, bottoms, tops = [], [], [], []
    for x, p, (pp, n_p, pd, d, pkw) in zip(subs, parts, offs):
        u = None if up is None else up[:, pd:pd + d].copy()
        s_, dp, dt = p.compute_sensitivities(params[pp:pp + n_p], obs[:, pd:pd + d], dlogp_dpsi=u, **pkw)
        dp_parts.append(dp)
        dt_parts.append(dt)
        u = None if up is None else up[:, pd:pd + d].copy()
        s_, ds = p.compute_sensitivities(params[pp:pp + n_p], obs[:, pd:pd + d], dlogp_dpsi=u,
                                         reduce=True, **pkw)
        b, _t = p.n_hierarchical_parameters(n_ids)
        if b > 0:
            bottoms.append(ds[:b].reshape(n_ids, d))
        tops.append(ds[b:])
    spec(ctx, 'C05.additive/sens', core.close(cs[1], np.hstack(dp_parts))
         and core.close(cs[2], np.concatenate(dt_parts)), inp)
    want = np.concatenate(([np.hstack(bottoms).flatten()] if bottoms else []) + tops)
    spec(ctx, 'C05.additive/reduced', core.close(cr[1], want), inp, {'chi': cr[1], 'parts': want})
    # eta handed over as the flat hierarchical vector (individual-major, NO entries for pooled / heterogeneous
    # dimensions — the layout HierarchicalLogLikelihood uses) gives the same individual parameters as the matrix
    hc_ = [j_ for x, (_, _, pd, d, _) in zip(subs, offs) if x[0] in HIER for j_ in range(pd, pd + d)]
    if hc_:
        def indiv(e):
            with np.errstate(all='ignore'):
                return np.asarray(cm.compute_individual_parameters(params, e, **kw), float)
        p_mat = chi_call(lambda: indiv(obs.copy()))
        p_flat = chi_call(lambda: indiv(obs[:, hc_].flatten()))
        ok_ = (isinstance(p_mat, str) and isinstance(p_flat, str) and p_mat == p_flat) or (
            not isinstance(p_mat, str) and not isinstance(p_flat, str) and p_mat.shape == p_flat.shape
            and np.array_equal(np.isnan(p_mat), np.isnan(p_flat)) and core.close(np.nan_to_num(p_flat), np.nan_to_num(p_mat)))
        spec(ctx, 'C05.layout_invariant/flat_eta/ComposedPopulationModel.compute_individual_parameters', ok_, inp,
             {'matrix eta': p_mat, 'flat hierarchical eta': p_flat, 'hierarchical columns': hc_})
    # finite differences of the composed value in hierarchical coordinates
    if guard != 'inside':
        return
    hcols = [j_ for x, (_, _, pd, d, _) in zip(subs, offs) if x[0] in HIER for j_ in range(pd, pd + d)]
    upm = np.zeros((n_ids, n_dim)) if up is None else up
    z0 = np.concatenate([obs[:, hcols].flatten(), params])
    if len(z0) != len(cr[1]):
        return

    def F(z):
        eta = np.zeros((n_ids, n_dim))
        eta[:, hcols] = z[:nb].reshape(n_ids, len(hcols))
        top = z[nb:]
        with np.errstate(all='ignore'):
            full = cm.compute_individual_parameters(top, eta, return_eta=True, **kw)
            psi = cm.compute_individual_parameters(top, full, **kw)
            return float(cm.compute_log_likelihood(top, full, **kw)) + float(np.sum(upm * psi))
    r = ctx.sub_rng(991 + len(z0))
    for k in sorted(r.choice(len(z0), size=min(8, len(z0)), replace=False).tolist()):
        ok, est = oracle.grad_matches(F, z0, k, float(cr[1][k]))
        spec(ctx, 'C05.grad/composed/%s/%s' % ('cov' if n_cov else 'plain', 'bottom' if k < nb else 'top'),
             ok, inp, {'k': k, 'analytic': float(cr[1][k]), 'fd': est})


# ----------------------------------------------------------------------------------------
# models built from other models: ReducedPopulationModel (fixed parameters) around an elementary / covariate /
# composed model — value, separate and hierarchical return forms against a FRESH wrapped model at the full vector
# ----------------------------------------------------------------------------------------
def build_wrapped(chi, subs, n_ids, bare):
    """the model of a composed case; `bare`: the single sub-model itself instead of a composition of one"""
    if bare and len(subs) == 1:
        return make_sub(chi, subs[0], n_ids)
    cm = chi.ComposedPopulationModel([make_sub(chi, x, n_ids) for x in subs])
    cm.set_n_ids(n_ids)
    return cm


def unpack_composed(c):
    subs = [list(norm_sub(x)) for x in c['subs']]
    n_ids = int(c['n_ids'])
    params = np.asarray(c['params'], float)
    n_dim = sum(x[1] for x in subs)
    n_cov = sum(x[2] for x in subs)
    obs = np.asarray(c['obs'], float).reshape(n_ids, n_dim)
    cov = np.zeros((n_ids, 0)) if c.get('cov') is None else np.asarray(c['cov'], float).reshape(n_ids, n_cov)
    up = None if c.get('up') is None else np.asarray(c['up'], float).reshape(n_ids, n_dim)
    return subs, n_ids, params, n_dim, n_cov, obs, cov, up


def gen_reduced(rng):
    c = gen_composed(rng, n_sub=int(rng.integers(1, 4)))
    c['bare'] = bool(len(c['subs']) == 1 and rng.random() < 0.7)
    n_p = len(c['params'])
    r = rng.random()
    k = 1 if (r < 0.4 or n_p <= 2) else (n_p - 1 if r < 0.55 else int(rng.integers(1, n_p)))
    c['fixed'] = sorted(int(j) for j in rng.choice(n_p, size=k, replace=False))
    return c


def all_sens(m, P, obs, up, kw):
    """value, separate / flattened form, hierarchical form and individual parameters of one model"""
    def u():
        return None if up is None else np.array(up, float)

    def sep():
        s, dp, dt = m.compute_sensitivities(P, obs, dlogp_dpsi=u(), **kw)
        return [float(s), np.asarray(dp, float), np.asarray(dt, float)]

    def red():
        s, ds = m.compute_sensitivities(P, obs, dlogp_dpsi=u(), reduce=True, **kw)
        return [float(s), np.asarray(ds, float)]
    return {'value': chi_call(lambda: float(m.compute_log_likelihood(P, obs, **kw))),
            'separate': chi_call(sep), 'reduce': chi_call(red),
            'indiv': chi_call(lambda: np.asarray(m.compute_individual_parameters(P, obs, **kw), float))}


def form_same(a, b):
    """two results of all_sens entries: same error kind, or same score and (next to a finite score) same arrays"""
    if isinstance(a, str) or isinstance(b, str):
        return isinstance(a, str) and isinstance(b, str) and a == b
    if not isinstance(a, list):
        a, b = [0.0, a], [0.0, b]
    if not same(a[0], b[0]):
        return False
    for x, y in zip(a[1:], b[1:]):
        if np.shape(x) != np.shape(y):
            return False
        if math.isfinite(a[0]) and not (np.array_equal(np.isnan(x), np.isnan(y))
                                        and core.close(np.nan_to_num(x), np.nan_to_num(y))):
            return False
    return True


def run_reduced(ctx, chi, c):
    subs, n_ids, params, n_dim, n_cov, obs, cov, up = unpack_composed(c)
    bare = bool(c.get('bare'))
    fixed = sorted(int(j) for j in c['fixed'])
    guard = c.get('guard', '?')
    inp = {'subs': [wire_sub(x) for x in subs], 'n_ids': n_ids, 'params': params, 'obs': obs, 'cov': cov, 'up': up,
           'guard': guard, 'bare': bare, 'fixed': fixed}
    kw = {'covariates': cov} if n_cov > 0 else {}
    ref = build_wrapped(chi, subs, n_ids, bare)           # fresh, evaluated at the full vector
    red = chi.ReducedPopulationModel(build_wrapped(chi, subs, n_ids, bare))
    red.set_n_ids(n_ids)
    names = list(ref.get_parameter_names())
    if len(names) != len(params) or len(set(names)) != len(names):
        return
    red.fix_parameters({names[j]: float(params[j]) for j in fixed})
    mask = np.zeros(len(params), bool)
    mask[fixed] = True
    free = params[~mask]
    special = any(x[0] in ('P', 'H') for x in subs)
    shape = ('bare:' if bare else 'composed:') + '+'.join(x[0] + ('~%d' % x[2] if x[2] else '') for x in subs)
    ctx.case('reduced/%s/%s' % ('special-dims' if special else 'hierarchical-only', 'cov' if n_cov else 'plain'),
             nontrivial=('reduced/%s/ni%d/fix%d/%s' % (shape, n_ids, len(fixed), up is not None))
             if (special and n_ids >= 2) else False, sample=inp)
    nb, nt = ref.n_hierarchical_parameters(n_ids)
    cnt = chi_call(lambda: [int(v_) for v_ in red.n_hierarchical_parameters(n_ids)] + [int(red.n_parameters())])
    spec(ctx, 'C05.reduced/counts', cnt == [int(nb), int(nt) - len(fixed), len(free)], inp,
         {'reduced': cnt, 'wrapped': [int(nb), int(nt)], 'n_fixed': len(fixed)})
    R = all_sens(ref, params, obs, up, kw)
    A = all_sens(red, free.copy(), obs, up, kw)
    spec(ctx, 'C05.reduced/value', form_same(A['value'], R['value']), inp,
         {'reduced': A['value'], 'wrapped at the full vector': R['value']})
    spec(ctx, 'C05.reduced/indiv', form_same(A['indiv'], R['indiv']), inp,
         {'reduced': A['indiv'], 'wrapped at the full vector': R['indiv']})
    want = R['separate'] if isinstance(R['separate'], str) else R['separate'][:2] + [R['separate'][2][~mask]]
    spec(ctx, 'C05.reduced/forms/separate', form_same(A['separate'], want), inp,
         {'reduced': A['separate'], 'wrapped, free entries': want})
    want = R['reduce']
    if not isinstance(want, str) and len(want[1]) == nb + nt:
        want = [want[0], np.hstack([want[1][:nb], want[1][nb:][~mask]])]
    ok = form_same(A['reduce'], want)
    if ok and not isinstance(A['reduce'], str) and not isinstance(cnt, str):
        ok = len(A['reduce'][1]) == cnt[0] + cnt[1]
    if not isinstance(R['reduce'], str):
        mo = ctx.model('C05.reducedHier', int(nb), [bool(b_) for b_ in mask], R['reduce'][1].tolist())
        got = A['reduce']
        if len(mo) == 1:
            ctx.agree('C05.reduced/hier-filter', got if isinstance(got, str) else 'ok', mo[0], inp)
        else:
            ctx.agree('C05.reduced/hier-filter', (not isinstance(got, str)) and len(got[1]) == len(mo[0])
                      and mo[1] == len(free)
                      and (not math.isfinite(got[0]) or core.close(np.nan_to_num(got[1]), np.nan_to_num(mo[0]))),
                      True, inp)
    spec(ctx, 'C05.reduced/forms/reduce', ok, inp, {'reduced': A['reduce'], 'wrapped, free entries': want, 'counts': cnt})
    # the hierarchical form from the model's own separate form where no special dimension mixes the blocks
    if (not special and not isinstance(A['separate'], str) and not isinstance(A['reduce'], str)
            and math.isfinite(A['separate'][0])):
        own = np.hstack([A['separate'][1].flatten(), A['separate'][2]])
        spec(ctx, 'C05.reduced/forms/agree', np.shape(own) == np.shape(A['reduce'][1])
             and core.close(own, A['reduce'][1]), inp, {'from separate': own, 'reduce': A['reduce'][1]})


# ----------------------------------------------------------------------------------------
# call histories in which the CALLER keeps one buffer per argument and updates it in place between calls
# (finite-difference loops `theta[i] += eps`, optimisers reusing a vector, covariates rescaled in place):
# every call must give what a fresh model gives for fresh copies of the values supplied to THAT call
# ----------------------------------------------------------------------------------------
def gen_inplace(rng):
    c = gen_composed(rng, n_sub=int(rng.integers(1, 4)), with_cov=bool(rng.random() < 0.8))
    c['bare'] = bool(len(c['subs']) == 1 and rng.random() < 0.7)
    n_cov = sum(norm_sub(x)[2] for x in c['subs'])
    steps = []
    for _ in range(int(rng.integers(2, 6))):
        r = rng.random()
        which = 'cov' if (n_cov and r < 0.3) else ('obs' if r < 0.45 else 'params')
        size = {'cov': c['cov'].size, 'obs': c['obs'].size, 'params': len(c['params'])}[which]
        steps.append([which, int(rng.integers(size)), float(rng.integers(1, 5)) / 16.0])
    c['steps'] = steps
    return c


def run_inplace(ctx, chi, c):
    subs, n_ids, params, n_dim, n_cov, obs, cov, up = unpack_composed(c)
    bare = bool(c.get('bare'))
    steps = [[str(w), int(j), float(d)] for w, j, d in c['steps']]
    inp = {'subs': [wire_sub(x) for x in subs], 'n_ids': n_ids, 'params': params, 'obs': obs, 'cov': cov, 'up': up,
           'guard': c.get('guard', '?'), 'bare': bare, 'steps': steps}
    m = build_wrapped(chi, subs, n_ids, bare)           # lives through the whole history
    buf = {'params': params.copy(), 'obs': obs.copy(), 'cov': cov.copy()}
    what = 'cov' if n_cov else 'plain'
    ctx.case('inplace-history/%s/%s' % ('bare' if bare else 'composed', what),
             nontrivial=('inplace/%s/%s' % ('+'.join(x[0] + ('~%d' % x[2] if x[2] else '') for x in subs),
                                            '.'.join(s_[0][0] for s_ in steps))) if n_cov else False, sample=inp)
    for k, st in enumerate([None] + steps):
        if st is not None:
            flat = buf[st[0]].reshape(-1)              # a view: the caller's array is updated in place
            flat[st[1] % flat.size] += st[2]
        kw = {'covariates': buf['cov']} if n_cov > 0 else {}
        got = all_sens(m, buf['params'], buf['obs'], up, kw)
        fkw = {'covariates': buf['cov'].copy()} if n_cov > 0 else {}
        fresh = all_sens(build_wrapped(chi, subs, n_ids, bare), buf['params'].copy(), buf['obs'].copy(), up, fkw)
        for key in ('value', 'separate', 'reduce', 'indiv'):
            spec(ctx, 'C05.inplace_history/%s/%s' % (key, what), form_same(got[key], fresh[key]),
                 dict(inp, call=k), {'call': k, 'updated in place': st, 'long-lived model, reused buffers': got[key],
                                     'fresh model, fresh copies': fresh[key]})
        # a covariate model on its own: the documented density with each individual's own parameters
        if bare and n_cov and not is_err(got['value']):
            th = vartheta(subs[0], n_ids, buf['params'], buf['cov'])
            if subs[0][0] not in HIER or bool(np.all(th[:, 1] > 0)):
                doc = documented_logpdf(subs[0][0], th, buf['obs'])
                spec(ctx, 'C05.inplace_history/is_logpdf/covariate/' + CLASSNAME[subs[0][0]],
                     same(got['value'], doc), dict(inp, call=k), {'call': k, 'chi': got['value'], 'documented': doc})


# ----------------------------------------------------------------------------------------
# recorded witnesses (the counterexample theorems) and a boundary corpus
# ----------------------------------------------------------------------------------------
def corpus():
    out = []
    # C05_matrix_layout_counterexample: GaussianModel(n_dim=2, centered=False)
    out.append({'kind': 'Gn', 'n_dim': 2, 'n_ids': 1, 'theta': [[1.0, 2.0], [3.0, 4.0]],
                'obs': [[1.0, 1.0]], 'up': None, 'guard': 'inside'})
    out.append({'kind': 'Ln', 'n_dim': 2, 'n_ids': 2, 'theta': [[0.1, 0.4], [0.5, 0.7]],
                'obs': [[0.3, -0.2], [1.0, 0.5]], 'up': [[1.0, -1.0], [0.5, 2.0]], 'guard': 'inside'})
    out.append({'kind': 'Lc', 'n_dim': 2, 'n_ids': 2, 'theta': [[0.1, 0.4], [0.5, 0.7]],
                'obs': [[0.9, 1.2], [1.0, 0.5]], 'up': None, 'guard': 'inside'})
    for nd in (1, 3):
        out.append({'kind': 'Gn', 'n_dim': nd, 'n_ids': 2, 'theta': np.arange(1, 2 * nd + 1.).reshape(2, nd) / 2,
                    'obs': np.ones((2, nd)) / 3, 'up': None, 'guard': 'inside'})
        out.append({'kind': 'Lc', 'n_dim': nd, 'n_ids': 2, 'theta': np.arange(1, 2 * nd + 1.).reshape(2, nd) / 4,
                    'obs': np.ones((2, nd)) * 1.5, 'up': None, 'guard': 'inside'})
    # C05_hetero_tensor_counterexample
    out.append({'kind': 'H', 'n_dim': 1, 'n_ids': 2, 'theta': [[1.0], [2.0]], 'obs': [[1.0], [2.0]],
                'up': [[3.0], [4.0]], 'guard': 'inside'})
    # truncated Gaussian, n_dim = 2 (the pre-fix shapes), psi = 0 on the boundary of the support
    out.append({'kind': 'T', 'n_dim': 2, 'n_ids': 3, 'theta': [[0.5, -0.2], [0.8, 1.1]],
                'obs': [[0.0, 0.4], [1.0, 2.0], [0.3, 0.1]], 'up': None, 'guard': 'psi=0'})
    out.append({'kind': 'T', 'n_dim': 3, 'n_ids': 2, 'theta': [[0.5, -0.2, 1.0], [0.8, 1.1, 0.4]],
                'obs': [[0.2, 0.4, 0.9], [1.0, 2.0, 1.1]], 'up': [[1, 2, 3], [4, 5, 6]], 'guard': 'inside'})
    out.append({'kind': 'P', 'n_dim': 2, 'n_ids': 3, 'theta': [[1.5, 0.5]],
                'obs': [[1.5, 0.5]] * 3, 'up': [[1, 2], [3, 4], [5, 6]], 'guard': 'inside'})
    out.append({'kind': 'Gc', 'n_dim': 1, 'n_ids': 1, 'theta': [[0.0], [0.0]], 'obs': [[0.0]], 'up': None,
                'guard': 'sigma=0'})
    return out


def odd_shapes(ctx, chi):
    """correspondence only: inputs outside the documented layouts — what numpy does with them
    (reshape / index / broadcast errors, silently ignored rows, the transposed matrix the test-suite
    feeds to the slip branches) is part of the model"""
    cases = []
    for code in ('Gc', 'Gn', 'Lc', 'Ln', 'T'):
        for nd in (1, 2, 3):
            n = 2
            obs = (np.arange(n * nd, dtype=float).reshape(n, nd) + 1.0) / 3
            good = np.vstack([np.linspace(0.2, 0.6, nd), np.linspace(0.5, 0.9, nd)])
            cases += [
                (code, nd, n, 'flat', np.arange(2 * nd + 1, dtype=float) + 0.5, obs),      # reshape fails
                (code, nd, n, 'flat', np.concatenate([good.flatten(), np.ones(nd)]), obs),  # 3rd row ignored
                (code, nd, n, 'flat', good.flatten()[:nd], obs),                            # one row only
                (code, nd, n, 'matrix', good[:1], obs),                                     # (1, n_dim)
                (code, nd, n, 'matrix', good.T.copy(), obs),                                # (n_dim, 2)
                (code, nd, n, 'tensor', good[np.newaxis].copy(), obs),                      # (1, 2, n_dim)
                (code, nd, n, 'tensor', np.broadcast_to(good[np.newaxis], (3, 2, nd)).copy(), obs),  # 3 != n_ids
            ]
    for code in ('P', 'H'):
        for nd in (1, 2):
            n = 2
            obs = np.ones((n, nd))
            cases += [
                (code, nd, n, 'flat', np.ones(nd + 1), obs),
                (code, nd, n, 'flat', np.ones(2 * nd), obs),
                (code, nd, n, 'matrix', np.ones((3, nd)), obs),
                (code, nd, n, 'tensor', np.ones((1, per_dim(code, n), nd)), obs),
            ]
    for code, nd, n, lk, P, obs in cases:
        m = make_model(chi, code, nd, n)
        inp = {'kind': code, 'n_dim': nd, 'n_ids': n, 'layout': lk, 'parameters': P, 'obs': obs}
        ctx.case('odd-shape/%s/%s' % (code, lk))
        v = chi_call(lambda: float(m.compute_log_likelihood(P, obs)))
        sv = chi_sens(m, P, obs, None)
        pv = chi_call(lambda: np.asarray(m.compute_individual_parameters(P, obs), float))
        ok = {'ll': False, 'sens': False, 'indiv': False}
        for legacy in (True, False):
            mo = ctx.model('C05.ll', legacy, code, n, nd, *wire_layout(lk, P), obs.tolist())[0]
            ok['ll'] |= same(v, mo)
            ok['sens'] |= sens_match(sv, model_sens(ctx, legacy, code, n, nd, lk, P, obs, None))
            mo = ctx.model('C05.indiv', legacy, code, n, nd, *wire_layout(lk, P), 'mat', obs.tolist(), False)[0]
            ok['indiv'] |= same(pv, mo)
        for k_, v_ in ok.items():
            if is_err(v if k_ == 'll' else (sv if k_ == 'sens' else pv)):
                ctx.errkinds.add(v if k_ == 'll' else (sv if k_ == 'sens' else pv))
            ctx.agree('C05.odd-shape/' + k_, v_, True, inp)


# ----------------------------------------------------------------------------------------
# whole numbers handed over as integers
# ----------------------------------------------------------------------------------------
def canon(r):
    """floats / arrays / tuples of them -> nested lists of Python floats"""
    if isinstance(r, (tuple, list)):
        return [canon(v) for v in r]
    a = np.asarray(r, float)
    return a.tolist()


def number_variants(ctx, tag, fn, x, inp):
    """`x` (any rank) holds whole numbers; `fn(x)` must not depend on whether they arrive as a
    float64 array, an int64 array, a nested list of Python floats or a nested list of Python ints
    (the list forms are compared with each other, so a method that only takes arrays is not blamed
    for that here). Generalises `Ctx.number_types` to arrays of any rank."""
    xf = np.asarray(x, float)
    if xf.size == 0 or not np.all(xf == np.round(xf)):
        return
    base = chi_call(lambda: canon(fn(xf.copy())))
    if not is_err(base):
        r = chi_call(lambda: canon(fn(xf.astype(np.int64))))
        spec(ctx, '%s/int64_array' % tag, (not is_err(r)) and core.close(base, r), dict(inp, whole_numbers=xf),
             {'float64_array': base, 'int64_array': r})
    lbase = chi_call(lambda: canon(fn(xf.tolist())))
    if not is_err(lbase):
        r = chi_call(lambda: canon(fn(xf.astype(np.int64).tolist())))
        spec(ctx, '%s/python_int_list' % tag, (not is_err(r)) and core.close(lbase, r),
             dict(inp, whole_numbers=xf), {'python_float_list': lbase, 'python_int_list': r})


def gen_whole(rng, code, n_dim, n_ids):
    """a case inside the support whose every number is whole"""
    if code in HIER:
        mu = rng.integers(0, 4, n_dim).astype(float)
        sg = rng.integers(1, 4, n_dim).astype(float)
        TH = np.vstack([mu, sg])
        if code in ('Gn', 'Ln'):
            obs = rng.integers(-2, 3, (n_ids, n_dim)).astype(float)
        elif code == 'Gc':
            obs = rng.integers(-3, 6, (n_ids, n_dim)).astype(float)
        else:
            obs = rng.integers(1, 6, (n_ids, n_dim)).astype(float)
    elif code == 'P':
        TH = rng.integers(1, 6, (1, n_dim)).astype(float)
        obs = np.broadcast_to(TH, (n_ids, n_dim)).copy()
    else:
        TH = rng.integers(1, 6, (n_ids, n_dim)).astype(float)
        obs = TH.copy()
    up = rng.integers(-3, 4, (n_ids, n_dim)).astype(float)
    return {'kind': code, 'n_dim': n_dim, 'n_ids': n_ids, 'theta': TH, 'obs': obs, 'up': up,
            'guard': 'inside'}


def run_whole_elementary(ctx, chi, c):
    """every public method, every argument: integers = the same numbers as floats"""
    code, n_dim, n_ids = c['kind'], int(c['n_dim']), int(c['n_ids'])
    TH = np.asarray(c['theta'], float)
    obs = np.asarray(c['obs'], float)
    up = np.asarray(c['up'], float)
    cls = CLASSNAME[code] + ('(nc)' if code in ('Gn', 'Ln') else '')
    inp = dict(c, whole=True)
    m = make_model(chi, code, n_dim, n_ids)
    ctx.case('whole-numbers/%s' % code, nontrivial=('whole/%s/nd%d/ni%d' % (code, n_dim, n_ids))
             if (n_dim >= 2 and n_ids >= 2) else False, sample=inp)
    T = 'C05.number_types/' + cls
    for lk, P in layouts(TH, n_ids).items():
        if (lk, code, 'sens') in VARIANT_SITES or (lk, code, 'indiv') in VARIANT_SITES:
            sens_ok = (lk, code, 'sens') not in VARIANT_SITES
            indiv_ok = (lk, code, 'indiv') not in VARIANT_SITES
        else:
            sens_ok = indiv_ok = True
        i2 = dict(inp, layout=lk)
        number_variants(ctx, '%s.compute_log_likelihood/parameters' % T,
                        lambda x: m.compute_log_likelihood(x, obs), P, i2)
        number_variants(ctx, '%s.compute_log_likelihood/observations' % T,
                        lambda x: m.compute_log_likelihood(P, x), obs, i2)
        if code == 'P' and lk != 'tensor':
            number_variants(ctx, '%s.compute_pointwise_ll/parameters' % T,
                            lambda x: m.compute_pointwise_ll(x, obs), P, i2)
            number_variants(ctx, '%s.compute_pointwise_ll/observations' % T,
                            lambda x: m.compute_pointwise_ll(P, x), obs, i2)
        if sens_ok:
            for form, kw in (('separate', {'flattened': False}), ('flattened', {}), ('reduce', {'reduce': True})):
                t2 = '%s.compute_sensitivities[%s]' % (T, form)
                number_variants(ctx, t2 + '/parameters',
                                lambda x: m.compute_sensitivities(x, obs, dlogp_dpsi=up.copy(), **kw), P, i2)
                number_variants(ctx, t2 + '/observations',
                                lambda x: m.compute_sensitivities(P, x, dlogp_dpsi=up.copy(), **kw), obs, i2)
                number_variants(ctx, t2 + '/dlogp_dpsi',
                                lambda x: m.compute_sensitivities(P, obs, dlogp_dpsi=x, **kw), up, i2)
        if indiv_ok:
            number_variants(ctx, '%s.compute_individual_parameters/parameters' % T,
                            lambda x: m.compute_individual_parameters(x, obs), P, i2)
            number_variants(ctx, '%s.compute_individual_parameters/eta' % T,
                            lambda x: m.compute_individual_parameters(P, x), obs, i2)
            if code in HIER:
                number_variants(ctx, '%s.compute_individual_parameters/eta-1d' % T,
                                lambda x: m.compute_individual_parameters(P, x), obs.flatten(), i2)


def gen_whole_composed(rng, with_cov):
    n_sub = int(rng.integers(1, 5))
    n_ids = int(rng.integers(1, 5))
    subs, params, cols, covs = [], [], [], []
    for _ in range(n_sub):
        kind = KCODES[int(rng.integers(len(KCODES)))]
        nd = int(rng.integers(1, 4))
        c = gen_whole(rng, kind, nd, n_ids)
        if with_cov and rng.random() < 0.6:
            n_cov = int(rng.integers(1, 3))
            n_per = per_dim(kind, n_ids)
            allp = [(p_, d_) for p_ in range(n_per) for d_ in range(nd)]
            kk = int(rng.integers(1, len(allp) + 1))
            sel = [allp[j] for j in sorted(rng.choice(len(allp), size=kk, replace=False))]
            sub = [kind, nd, n_cov, [list(x) for x in sel]]
            cov = rng.integers(-1, 2, size=(n_ids, n_cov)).astype(float)
            beta = rng.integers(-1, 2, size=(len(sel), n_cov)).astype(float)
            base = np.asarray(c['theta'], float)
            if kind in HIER:
                base[1] += 2 * n_cov           # scales stay positive for every individual
            flat = np.concatenate([base.flatten(), beta.flatten()])
            th = vartheta(sub, n_ids, flat, cov)
            o = c['obs']
            if kind == 'P':
                o = th[:, 0].copy()
            elif kind == 'H':
                o = np.array([th[i_, i_] for i_ in range(n_ids)])
            subs.append(sub)
            params.append(flat)
            cols.append(o)
            covs.append(cov)
        else:
            subs.append([kind, nd])
            params.append(np.asarray(c['theta']).flatten())
            cols.append(c['obs'])
    obs = np.hstack(cols)
    cov = np.hstack(covs) if covs else np.zeros((n_ids, 0))
    up = rng.integers(-3, 4, obs.shape).astype(float)
    return {'subs': subs, 'n_ids': n_ids, 'params': np.concatenate(params), 'obs': obs, 'cov': cov,
            'up': up, 'guard': 'inside'}


def run_whole_composed(ctx, chi, c):
    subs = [list(norm_sub(x)) for x in c['subs']]
    n_ids = int(c['n_ids'])
    params = np.asarray(c['params'], float)
    n_dim = sum(x[1] for x in subs)
    n_cov = sum(x[2] for x in subs)
    obs = np.asarray(c['obs'], float).reshape(n_ids, n_dim)
    cov = np.asarray(c['cov'], float).reshape(n_ids, n_cov)
    up = np.asarray(c['up'], float).reshape(n_ids, n_dim)
    inp = dict(c, subs=[wire_sub(x) for x in subs], whole=True)
    cm = chi.ComposedPopulationModel([make_sub(chi, x, n_ids) for x in subs])
    cm.set_n_ids(n_ids)
    ctx.case('whole-numbers/composed/%s' % ('cov' if n_cov else 'plain'),
             nontrivial=('whole/composed/%s/ni%d' % ('+'.join(x[0] for x in subs), n_ids))
             if len(subs) >= 2 else False, sample=inp)
    T = 'C05.number_types/ComposedPopulationModel'

    def kw(cv=cov):
        return {'covariates': cv} if n_cov > 0 else {}
    args = [('parameters', params), ('observations', obs)] + ([('covariates', cov)] if n_cov else [])

    def call(method, name, x, **extra):
        a = {'parameters': params, 'observations': obs, 'covariates': cov}
        a[name] = x
        k_ = {'covariates': a['covariates']} if n_cov > 0 else {}
        k_.update(extra)
        return getattr(cm, method)(a['parameters'], a['observations'], **k_)
    for name, x in args:
        number_variants(ctx, '%s.compute_log_likelihood/%s' % (T, name),
                        lambda v, name=name: call('compute_log_likelihood', name, v), x, inp)
        for form, ex in (('separate', {}), ('reduce', {'reduce': True})):
            number_variants(ctx, '%s.compute_sensitivities[%s]/%s' % (T, form, name),
                            lambda v, name=name, ex=ex: call('compute_sensitivities', name, v,
                                                             dlogp_dpsi=up.copy(), **ex), x, inp)
    for form, ex in (('separate', {}), ('reduce', {'reduce': True})):
        number_variants(ctx, '%s.compute_sensitivities[%s]/dlogp_dpsi' % (T, form),
                        lambda v, ex=ex: cm.compute_sensitivities(params, obs, dlogp_dpsi=v, **kw(), **ex), up, inp)
    number_variants(ctx, T + '.compute_individual_parameters/parameters',
                    lambda v: cm.compute_individual_parameters(v, obs, **kw()), params, inp)
    number_variants(ctx, T + '.compute_individual_parameters/eta',
                    lambda v: cm.compute_individual_parameters(params, v, **kw()), obs, inp)
    if n_cov:
        number_variants(ctx, T + '.compute_individual_parameters/covariates',
                        lambda v: cm.compute_individual_parameters(params, obs, **kw(v)), cov, inp)



GUARDS = {'Gc': ['sigma=0', 'sigma<0'], 'Gn': ['sigma=0', 'sigma<0'], 'Lc': ['sigma=0', 'sigma<0', 'psi<=0'],
          'Ln': ['sigma=0', 'sigma<0'], 'T': ['sigma=0', 'sigma<0', 'psi<=0'], 'P': ['mismatch'],
          'H': ['mismatch']}


def run(ctx):
    chi = core.import_chi()
    quick = ctx.tier == 'quick'
    for c in corpus():
        ctx.guard(run_elementary, ctx, chi, c)
    ctx.guard(odd_shapes, ctx, chi)
    # the source-derived tie: formulas traced from the current source vs the generated Lean definitions; guards
    # outside the support guards come back as concrete cases on both sides of each of them
    tie = srctie_pop.check(ctx, chi)
    for c in tie['hints']:
        ctx.guard(run_elementary, ctx, chi, c)
    n_el, n_te, n_co = (560, 140, 230) if quick else (24000, 6000, 10000)
    for i in range(n_el):
        rng = ctx.sub_rng(i)
        code = KCODES[i % len(KCODES)] if i < 10 * len(KCODES) else None
        ctx.guard(run_elementary, ctx, chi, gen_elementary(rng, code))
    # thin classes of the free stream get their own: every guard class of every model, the largest
    # dimension / individual counts, one-dimensional models (1-D observations)
    rep = 2 if quick else 60
    k = 0
    for code in KCODES:
        for g in GUARDS[code]:
            for _ in range(rep):
                k += 1
                ctx.guard(run_elementary, ctx, chi, gen_elementary(ctx.sub_rng(4 * 10 ** 6 + k), code, force=g))
        for nd, ni in ((4, 6), (4, 1), (1, 6), (1, 1), (3, 5)):
            for _ in range(1 if quick else 30):
                k += 1
                ctx.guard(run_elementary, ctx, chi,
                          gen_elementary(ctx.sub_rng(4 * 10 ** 6 + k), code, nd, ni, force='inside'))
    for i in range(n_te):
        ctx.guard(run_tensor, ctx, chi, gen_tensor(ctx.sub_rng(10 ** 6 + i)))
    for i in range(n_co):
        ctx.guard(run_composed, ctx, chi, gen_composed(ctx.sub_rng(2 * 10 ** 6 + i)))
    for i in range(6 if quick else 300):        # long compositions
        ctx.guard(run_composed, ctx, chi,
                  gen_composed(ctx.sub_rng(5 * 10 ** 6 + i), n_sub=5 + i % 3, with_cov=bool(i % 2)))
    # whole numbers handed over as integers: every method, every argument
    for i in range(42 if quick else 1400):
        rng = ctx.sub_rng(6 * 10 ** 6 + i)
        ctx.guard(run_whole_elementary, ctx, chi,
                  gen_whole(rng, KCODES[i % len(KCODES)], int(rng.integers(1, 4)), int(rng.integers(1, 5))))
    for i in range(30 if quick else 900):
        ctx.guard(run_whole_composed, ctx, chi, gen_whole_composed(ctx.sub_rng(7 * 10 ** 6 + i), bool(i % 2)))
    # models built around other models (fixed parameters), and call histories with buffers updated in place
    for i in range(70 if quick else 2500):
        ctx.guard(run_reduced, ctx, chi, gen_reduced(ctx.sub_rng(8 * 10 ** 6 + i)))
    for i in range(60 if quick else 2000):
        ctx.guard(run_inplace, ctx, chi, gen_inplace(ctx.sub_rng(9 * 10 ** 6 + i)))
    if not quick:
        # exhaustive small compositions: every ordered pair of kinds with dims 1-2, every triple with dim 1
        rng = ctx.sub_rng(3 * 10 ** 6)
        import itertools
        for ks in itertools.product(KCODES, repeat=2):
            for ds in itertools.product([1, 2], repeat=2):
                ctx.guard(run_composed, ctx, chi, fixed_composition(rng, ks, ds, int(rng.integers(1, 4))))
        for ks in itertools.product(KCODES, repeat=3):
            ctx.guard(run_composed, ctx, chi, fixed_composition(rng, ks, (1, 1, 1), int(rng.integers(1, 4))))
    ctx.extra['model_variants_matched'] = sorted(b for b in ctx.branches if b.startswith('variant:'))


def fixed_composition(rng, kinds, dims, n_ids):
    subs, params, cols = [], [], []
    for k, d in zip(kinds, dims):
        while True:
            c = gen_elementary(rng, k, d, n_ids)
            if c['guard'] == 'inside':
                break
        subs.append([k, d])
        params.append(np.asarray(c['theta']).flatten())
        cols.append(c['obs'])
    obs = np.hstack(cols)
    return {'subs': subs, 'n_ids': n_ids, 'params': np.concatenate(params), 'obs': obs,
            'up': rng.normal(size=obs.shape), 'guard': 'inside'}


def _num(x):
    """undo core.jsonable"""
    if isinstance(x, list):
        return [_num(v) for v in x]
    if x == 'nan':
        return math.nan
    if x == 'inf':
        return math.inf
    if x == '-inf':
        return -math.inf
    return x


def replay(ctx, data):
    chi = core.import_chi()
    failing = data.get('failing') or (data.get('broken_correspondence') or [{}])[0]
    inp = {k: _num(v) for k, v in failing.get('input', {}).items()}
    print('replaying', failing.get('tag') or failing.get('correspondence'))
    print(json.dumps(core.jsonable(inp))[:1500])
    inp.pop('whole_numbers', None)
    inp.pop('call', None)
    if 'fixed' in inp:
        run_reduced(ctx, chi, inp)
    elif 'steps' in inp:
        run_inplace(ctx, chi, inp)
    elif inp.get('whole') and 'subs' in inp:
        run_whole_composed(ctx, chi, inp)
    elif inp.get('whole'):
        run_whole_elementary(ctx, chi, inp)
    elif 'subs' in inp:
        run_composed(ctx, chi, inp)
    elif 'tensor' in inp:
        run_tensor(ctx, chi, inp)
    else:
        run_elementary(ctx, chi, inp)
    known = {f['tag'] for f in ctx.findings if f.get('status') == 'known'}
    seen = set()
    for b in ctx.spec_bad:
        if b['tag'] in seen:
            continue
        seen.add(b['tag'])
        print('property fails on chi%s:' % (' (recorded known finding)' if b['tag'] in known else ''),
              b['tag'], json.dumps(b['detail'])[:400])
    for b in ctx.corr_bad[:5]:
        print('chi differs from the model:', b['correspondence'])
    tag = failing.get('tag')
    if tag:
        print('replayed check %s: %s' % (tag, 'FAILS' if tag in seen else 'holds on this tree'))
    if ctx.lean is not None:
        ctx.lean.close()
    print('%d property checks, %d fail; %d correspondence comparisons, %d differ'
          % (ctx.spec_total, len(ctx.spec_bad), ctx.corr_total, len(ctx.corr_bad)))
    return 0
